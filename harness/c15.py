"""C15 — augmented sub-tasks and options preserve the base MDP and stop at their goals.

Correspondence (every run): generated base MDPs (harness/gen_mdp.py tables, discount held on the
instance / a class / a base class, tabular or not) go through msdm (harness/impl/c15_impl.py):
  augment     : all 2^5 subsets of overridden functional components (+ list overrides)
  subtask     : PlanToSubgoalOption.sub_task
  run         : Option.run_on with step limits around the boundary
  smdp        : SemiMarkovDecisionProcess outcome distributions / marginals / primitive actions
  used        : multi-step: the base object is USED first (cached matrices, absorbing vector, reachable set
                touched, planned on with ValueIteration), then MDPs are derived from it; their functional
                components, tabular views and planning result are compared (half of the bases of the other
                kinds are used first as well)
and through the Gallina model coq/model/Option.v (vm_compute inside coqc) on the same inputs; the
model is driven by the choices the implementation's own recorded roll-outs made.  Besides the
model-vs-implementation comparison each case is checked against the property's clauses directly
(in Python, exact rationals), so that a difference can be reported with the failing clause.
"""
from fractions import Fraction as F
import itertools
import vlib
from vlib import q, nat, natlist, blist, coqlist, pair, coqstr
import gen_mdp

INFO = {
    "level": "proof",
    "coq_files": ["model/Option.v", "theory/OptionTheory.v"],
    "trusted_base": [
        "harness glue in c15.py PRE: construction of the model object (instance dict + class chain) that mirrors the classes built in c15_impl.py",
        "the choice stream given to the model is read off the implementation's recorded roll-outs (Policy.run_on wrapped in the impl runner)",
        "cumulative rewards / expected rewards: exact when float arithmetic on them is exact (dyadic rewards, discount 0, 1/2, 1), otherwise within "
        "the float-noise bound fnoise = 4(n+2)2^-52 * sum|terms| (scaled by the magnitude of the terms, ~1e-14 for unit-size rewards)",
    ],
    "assumptions": [
        "Python attribute lookup is modelled as: instance dict, then first class along the MRO; functions found on a class are bound to the instance they are looked up through",
        "a plain value in a class dict is never re-bound on access: augment stores overrides AND the copies of non-overridden components as "
        "staticmethod (since /repo b30f659), data and bound methods are never re-bound; re-derivations (augment / sub_task / Option.run_on on a "
        "derived, used MDP) are generated and compared; signature C15:augment:of-derived-mdp:overridden-component-unusable guards the old defect",
        "random.Random is not modelled: a simulation is a function of the explicit (action, next state) choice stream",
    ],
}

COMPONENTS = ["initial_state_dist", "actions", "next_state_dist", "reward", "is_absorbing"]
SIG_DISCOUNT = "C15:augment:instance-level-discount_rate-lost"
SIG_REDERIVE = "C15:augment:of-derived-mdp:overridden-component-unusable"

PRE = r"""From Coq Require Import QArith List Bool String Arith.
From MSDM Require Import model.Option.
Import ListNotations.
Local Open Scope string_scope.
Local Open Scope list_scope.
Record tables := mkT { t_init : dist nat; t_acts : list (list nat); t_trans : list (list (dist nat));
                       t_rew : list (list (list Q)); t_abs : list bool }.
Definition f_acts T := fun s => nth s (t_acts T) [].
Definition f_trans T := fun s a => nth a (nth s (t_trans T) []) [].
Definition f_rew T := fun s a ns => nth ns (nth a (nth s (t_rew T) []) []) 0%Q.
Definition f_abs T := fun s => nth s (t_abs T) false.
Definition meth (k : key) : centry := CFun (fun self => self k).
Definition cls_MDP := mkClass "MarkovDecisionProcess" [("discount_rate", CVal (VNum 1%Q))].
Definition cls_Tab := mkClass tabular_name [("state_list", meth "_state_list"); ("action_list", meth "_action_list")].
Definition cls_Table := mkClass "TableMDP" [("initial_state_dist", meth "_init"); ("actions", meth "_acts");
  ("next_state_dist", meth "_trans"); ("reward", meth "_rew"); ("is_absorbing", meth "_abs")].
Definition cls_Quick := mkClass "QuickMDP" [("next_state_dist", meth "_next_state_dist"); ("reward", meth "_reward");
  ("actions", meth "_actions"); ("initial_state_dist", meth "_initial_state_dist"); ("is_absorbing", meth "_is_absorbing")].
Definition oq (k : key) (g : option Q) : list (key * value) := match g with Some g => [(k, VNum g)] | None => [] end.
Definition oqc (k : key) (g : option Q) : list (key * centry) := match g with Some g => [(k, CVal (VNum g))] | None => [] end.
Definition olist (l : option (list nat * list nat)) : list (key * value) :=
  match l with Some (sl, al) => [("_state_list", VNats sl); ("_action_list", VNats al)] | None => [] end.
Definition olistc l : list (key * centry) := map (fun kv => (fst kv, CVal (snd kv))) (olist l).
Definition mk_base (quick tabular : bool) (T : tables) (gi g0 g1 : option Q) (li lc : option (list nat * list nat)) : obj :=
  let roots := (if tabular then [cls_Tab] else []) ++ [cls_MDP] in
  if quick then
    mkObj ([("_next_state_dist", VTrans (f_trans T)); ("_reward", VRew (f_rew T)); ("_actions", VActs (f_acts T));
            ("_initial_state_dist", VInit (t_init T)); ("_is_absorbing", VAbs (f_abs T))] ++ oq "discount_rate" gi ++ olist li)
          ((if tabular then [mkClass "QuickTabularMDP" []] else []) ++ [cls_Quick] ++ roots)
  else
    mkObj ([("_init", VInit (t_init T)); ("_acts", VActs (f_acts T)); ("_trans", VTrans (f_trans T));
            ("_rew", VRew (f_rew T)); ("_abs", VAbs (f_abs T))] ++ oq "discount_rate" gi ++ olist li)
          ([mkClass "B" (oqc "discount_rate" g0); mkClass "A" (oqc "discount_rate" g1 ++ olistc lc); cls_Table] ++ roots).
Definition all_ov (T : tables) (sl al : list nat) : overrides :=
  [("initial_state_dist", VInit (t_init T)); ("actions", VActs (f_acts T)); ("next_state_dist", VTrans (f_trans T));
   ("reward", VRew (f_rew T)); ("is_absorbing", VAbs (f_abs T)); ("state_list", VNats sl); ("action_list", VNats al)].
Definition sel_ov (T : tables) (sl al : list nat) (ks : list key) : overrides :=
  filter (fun kv => existsb (String.eqb (fst kv)) ks) (all_ov T sl al).
Inductive QQ := mkQQ (n d : Z).
Definition zq (x : Q) : QQ := let y := Qred x in mkQQ (Qnum y) (Zpos (Qden y)).
Definition qd (d : dist nat) := map (fun ep => (fst ep, zq (snd ep))) d.
Definition dump (o : obj) (n nA : nat) :=
  (match getattr o "initial_state_dist" with Some (VInit d) => Some (qd d) | _ => None end,
   match getattr o "actions" with Some (VActs f) => Some (map f (seq 0 n)) | _ => None end,
   match getattr o "next_state_dist" with Some (VTrans f) => Some (map (fun s => map (fun a => qd (f s a)) (seq 0 nA)) (seq 0 n)) | _ => None end,
   match getattr o "reward" with Some (VRew f) => Some (map (fun s => map (fun a => map (fun ns => zq (f s a ns)) (seq 0 n)) (seq 0 nA)) (seq 0 n)) | _ => None end,
   match getattr o "is_absorbing" with Some (VAbs f) => Some (map f (seq 0 n)) | _ => None end,
   match getattr o "discount_rate" with Some (VNum g) => Some (zq g) | _ => None end,
   match getattr o "state_list" with Some (VNats l) => Some l | _ => None end,
   match getattr o "action_list" with Some (VNats l) => Some l | _ => None end).
Definition q3 (m : list (list (list Q))) := map (map (map zq)) m.
Definition dump_views (fuel : nat) (o : option obj) (n nA : nat) :=
  match o with
  | Some o => Some (dump o n nA,
      (match view_tf o with Some (TQ3 m) => Some (q3 m) | _ => None end,
       match view_rf o with Some (TQ3 m) => Some (q3 m) | _ => None end,
       match view_am o with Some (TB2 m) => Some m | _ => None end,
       match view_absvec o with Some (TB1 v) => Some v | _ => None end,
       match view_s0 o with Some (TQ1 v) => Some (map zq v) | _ => None end,
       match view_reachable fuel o with Some (TN1 v) => Some v | _ => None end))
  | None => None end.
Definition dump_opt (o : option obj) (n nA : nat) := match o with Some o => Some (dump o n nA) | None => None end.
Definition dsim (r : sim) := (map (fun st => (s_state st, s_action st, s_next st, zq (s_reward st))) (steps r), final r).
Definition lstream (l : list (nat * nat)) : stream := fun t => nth t l (0%nat, 0%nat).
Definition nthb (l : list bool) := fun s => nth s l false.
Definition rtag {A : Type} (r : res A) : nat := match r with Ret _ => 0%nat | RaiseMaxSteps => 1%nat | RaiseOther => 2%nat end.
Definition inner_sim (o : obj) (term : nat -> bool) (ms : nat) (ch : stream) (s0 : nat) : option sim :=
  match augment o [("is_absorbing", VAbs term)] with
  | Some sub => match getattr sub "is_absorbing", getattr sub "reward" with
                | Some (VAbs ab), Some (VRew rw) => Some (policy_run_on ab rw ch ms 0 s0)
                | _, _ => None end
  | None => None end.
Definition run_dump (o : obj) (tl : list bool) (ms : nat) (l : list (nat * nat)) (s0 : nat) (pol : list (dist nat)) :=
  let r := option_run_on o (nthb tl) ms (lstream l) s0 in
  (rtag r,
   match r with Ret x => Some (dsim x) | _ => None end,
   match inner_sim o (nthb tl) ms (lstream l) s0, getattr o "next_state_dist" with
   | Some x, Some (VTrans tr) => Some (dsim x, sim_valid (fun s => nth s pol []) tr x)
   | _, _ => None end).
Definition mk_opt (pol : list (dist nat)) (ini term : list bool) (ms : nat) : poption :=
  mkOption (fun s => nth s pol []) (nthb ini) (nthb term) ms.
Definition qsum {A : Type} (d : dist A) : Q := fold_left (fun t ep => (t + snd ep)%Q) d 0%Q.
Definition smdp_dump (m : smdp) (s : nat) (a : saction) (streams : list (list (nat * nat))) :=
  let r := smdp_nstr m s a (map lstream streams) in
  (rtag r,
   match r with
   | Ret d => Some (map (fun kp => (fst (fst (fst kp)), snd (fst (fst kp)), zq (snd (fst kp)), zq (snd kp))) d,
                    map (fun kp => (fst (fst kp), snd (fst kp), zq (snd kp))) (smdp_marginal_nt d),
                    map (fun kp => (fst kp, zq (snd kp))) (smdp_marginal_n d),
                    zq (smdp_expected_reward d), zq (qsum d))
   | _ => None end,
   match a with
   | Opt op => match run_simulations (sm_mdp m) op s (sm_n m) (map lstream streams) with
               | Ret sims => Some (map dsim sims, forallb (fun x => match getattr (sm_mdp m) "next_state_dist" with
                                                            | Some (VTrans tr) => sim_valid (op_policy op) tr x | _ => false end) sims)
               | _ => None end
   | Prim _ => None end).
Definition actions_dump (m : smdp) (s n : nat) :=
  match smdp_actions m s with
  | Some l => Some (map (fun a => match a with
                                  | Prim a => (0%nat, a, @nil bool, @nil bool)
                                  | Opt op => (1%nat, op_max_steps op, map (op_terminal op) (seq 0 n), map (op_initial op) (seq 0 n)) end) l)
  | None => None end.
Open Scope Z_scope.
"""


# ----------------------------------------------------------------------------
# generation
# ----------------------------------------------------------------------------
def complete(m, rng, fill_rewards=True):
    """total tables from a gen_mdp case: every (s, a) gets a row (unavailable: certain self-loop)"""
    n, nA = m["n"], m["nA"]
    trans = [[m["trans"].get("%d,%d" % (s, a), [[s, "1"]]) for a in range(nA)] for s in range(n)]
    rew = [[[m["reward"].get("%d,%d,%d" % (s, a, ns), "0") for ns in range(n)] for a in range(nA)] for s in range(n)]
    return {"n": n, "nA": nA, "actions": [list(a) for a in m["actions"]], "trans": trans, "rew": rew,
            "absorbing": [bool(x) for x in m["absorbing"]], "init": [list(x) for x in m["init"]]}


def gen_tables(rng, nmax, n=None, nA=None, min_states=2):
    for _ in range(1000):
        m = gen_mdp.gen_mdp(rng, nmax=nmax, amax=3, gamma="1/2", min_states=min_states)
        if (n is None or m["n"] == n) and (nA is None or m["nA"] == nA):
            return complete(m, rng)
    raise RuntimeError("generator did not produce the requested shape")


# discount rates: below 1, at 1, and the boundaries 0 and 1 - 2^-20
GAMMAS = ["1/2", "9/10", "1", "1/2", "9/10", "1", "0", "1048575/1048576"]
TINY = F(1, 2 ** 30)


NONDYADIC_ROWS = {2: [["9/10", "1/10"], ["1/3", "2/3"], ["3/7", "4/7"]],
                  3: [["1/3", "1/3", "1/3"], ["7/10", "2/10", "1/10"], ["1/7", "2/7", "4/7"]]}


def boundary_tables(rng, T, gamma, feats):
    """parameter boundaries and number formats.  Nothing here needs a looser comparison: values that are only
    passed through (probabilities, rewards of the derived MDPs, matrices, one-step outcomes) are compared
    bit-exactly as doubles; cumulative rewards are compared exactly whenever float arithmetic on them is exact
    (dyadic rewards, discount 0, 1/2, 1, short roll-outs) and within the float-noise bound fnoise (scaled by sum|terms|) otherwise
    (feature inexact_sums)."""
    n, nA = T["n"], T["nA"]
    def pos_rows(k):
        return [(s, a) for s in range(n) for a in range(nA) if len([1 for _, p in T["trans"][s][a] if F(p) > 0]) == k]
    # (1) tiny positive probabilities 2^-27 .. 2^-60 (below 1e-8) on a branch of its own, sometimes carrying a reward ~ 1/p
    if rng.random() < .25:
        rows = pos_rows(2)
        if rows:
            s, a = rng.choice(rows)
            e = rng.choice([27, 30, 40, 60])
            tiny = F(1, 2 ** e)
            pos = [i for i, (_, p) in enumerate(T["trans"][s][a]) if F(p) > 0]
            if e <= 30:
                T["trans"][s][a][pos[0]][1] = str(F(T["trans"][s][a][pos[0]][1]) + F(T["trans"][s][a][pos[1]][1]) - tiny)
            else:
                # 1 - 2^-e is not a double: the row's weights sum to 1 + 2^-e (in doubles: exactly 1.0)
                T["trans"][s][a][pos[0]][1] = str(F(T["trans"][s][a][pos[0]][1]) + F(T["trans"][s][a][pos[1]][1]))
            T["trans"][s][a][pos[1]][1] = str(tiny)
            feats.append("tiny_probability")
            feats.append("tiny_probability_2^-%d" % e)
            if e <= 30 and rng.random() < .5:
                T["rew"][s][a][T["trans"][s][a][pos[1]][0]] = str(rng.choice([-1, 1]) * 2 ** 27)
                feats.append("tiny_probability_with_reward_1/p")
    if rng.random() < .1 and len(T["init"]) >= 1:
        e = rng.choice([27, 40, 60])
        others = [x for x in range(n) if x not in [s_ for s_, _ in T["init"]]]
        if others:
            T["init"].append([rng.choice(others), str(F(1, 2 ** e))])
            feats.append("tiny_initial_probability")
    # (3) non-dyadic probabilities (thirds, tenths, sevenths; float row sums need not be exactly 1.0)
    if rng.random() < .3:
        k = rng.choice([2, 3])
        rows = pos_rows(k)
        for s, a in rng.sample(rows, min(len(rows), 2)):
            ps = list(rng.choice(NONDYADIC_ROWS[k]))
            rng.shuffle(ps)
            for i, (ns_, p_) in enumerate(T["trans"][s][a]):
                if F(p_) > 0:
                    T["trans"][s][a][i][1] = ps.pop()
            feats.append("nondyadic_probabilities")
    r = rng.random()
    if r < .12 and gamma in (F(0), F(1, 2), F(1)):
        k = rng.choice([2 ** 10, 2 ** 20])
        T["rew"] = [[[str(F(x) * k) for x in row] for row in mat] for mat in T["rew"]]
        feats.append("large_rewards")
    elif r < .22 and gamma in (F(0), F(1)):
        # (2) large magnitudes with near-ties: rewards ~1e6 .. 4e6 that differ by 1 (relative gap ~1e-6 .. 2.5e-7)
        T["rew"] = [[[str(F(x) * 2 ** 20) for x in row] for row in mat] for mat in T["rew"]]
        for _ in range(4):
            s, a, ns = rng.randrange(n), rng.randrange(nA), rng.randrange(n)
            T["rew"][s][a][ns] = str(F(T["rew"][s][a][ns]) + rng.choice([1, -1]))
        feats.append("large_rewards_near_ties")
    elif r < .34 and gamma in (F(0), F(1)):
        for _ in range(3):
            s, a, ns = rng.randrange(n), rng.randrange(nA), rng.randrange(n)
            T["rew"][s][a][ns] = str(F(T["rew"][s][a][ns]) + rng.choice([TINY, -TINY]))
        feats.append("tiny_reward_gaps")
    elif r < .46:
        # (3) non-dyadic rewards: sums of gamma^t r_t are rounded by the implementation
        for _ in range(4):
            s, a, ns = rng.randrange(n), rng.randrange(nA), rng.randrange(n)
            T["rew"][s][a][ns] = rng.choice(["1/10", "-1/3", "7/10", "-1/10", "2/7"])
        feats.append("nondyadic_rewards")
        feats.append("inexact_sums")


def long_chain_base(rng, base):
    """(6) episodes beyond 1000 primitive steps: state 0 loops with probability 1 - 2^-10 (integer step cost -1),
    state 1 is where it ends; one action; mean length 1024"""
    T = {"n": 2, "nA": 1, "actions": [[0], [0]],
         "trans": [[[[0, str(1 - F(1, 1024))], [1, str(F(1, 1024))]]], [[[1, "1"]]]],
         "rew": [[["-1", "-1"]], [["0", "0"]]], "absorbing": [False, True], "init": [[0, "1"]]}
    base["tables"] = T
    base["features"] = ["long_chain", "inexact_sums"]
    if base["lists"]:
        base["lists"] = {"where": "inst" if base["lists"]["where"] == "inferred" else base["lists"]["where"],
                         "state_list": [0, 1], "action_list": [0]}
    base["touch"] = False
    return base


def gen_base(rng, nmax, list_actions=False, used=False, min_states=2, nA=None, n=None):
    T = gen_tables(rng, nmax, min_states=min_states, nA=nA, n=n)
    tabular = used or rng.random() < .7
    style = "quick" if rng.random() < .3 else "table"
    if style == "quick":
        g = {"inst": rng.choice(GAMMAS), "cls0": None, "cls1": None}
    else:
        pat = rng.choice(["inst", "inst", "cls0", "cls1", "inst+cls0", "inst+cls1", "cls0+cls1", "all", "none"])
        g = {"inst": None, "cls0": None, "cls1": None}
        for k in g:
            if k in pat or pat == "all":
                g[k] = rng.choice(GAMMAS)
    lists = None
    if tabular:
        sl, al = list(range(T["n"])), list(range(T["nA"]))
        if rng.random() < .5:
            rng.shuffle(sl)
            rng.shuffle(al)
        where = "inst" if style == "quick" else rng.choice(["inst", "cls"])
        if not used and rng.random() < .2:
            where = "inferred"       # no explicit lists: msdm infers them (reachability, sorted); the model is given what msdm reports
        lists = {"where": where, "state_list": sl, "action_list": al}
    base = {"tables": T, "tabular": tabular, "style": style, "gammas": g, "lists": lists,
            "touch": used or rng.random() < .5,      # the base object is USED (caches filled) before anything is derived from it
            "actions_as": "list" if list_actions else rng.choice(["list", "tuple"]),
            # representations: labels the msdm objects see for state / action ids (id 0 is the falsy label "" / ()),
            # distribution classes, integral discounts passed as int
            "labels": {"state": rng.choice(["int", "int", "str", "tuple"]), "action": rng.choice(["int", "int", "str"])},
            "dist_as": rng.choice(["dict", "auto"]), "gamma_as_int": rng.random() < .5,
            # integer-typed inputs where floats are usual (integral rewards / probabilities as Python int), and caller objects that are
            # SHARED: one list object for equal action sets, one distribution object for equal rows, checked for mutation afterwards
            "ints": rng.random() < .35, "shared_objects": rng.random() < .5, "features": []}
    boundary_tables(rng, T, base_discount(base), base["features"])
    return base


def eff_tables(case, bidx=0):
    """tables of the MDP an option of a run case is executed on (base number bidx, or for bidx 0 possibly an MDP derived from it)"""
    T = case_bases(case)[bidx]["tables"]
    df = case.get("derive_first")
    if not df or bidx != 0:
        return T
    m = {"next_state_dist": "trans", "reward": "rew", "is_absorbing": "absorbing", "initial_state_dist": "init", "actions": "actions"}
    T = dict(T)
    for k in df["keys"]:
        T[m[k]] = df["alt"][m[k]]
    return T


def base_discount(base):
    g = base["gammas"]
    for k in ("inst", "cls0", "cls1"):
        if g[k] is not None:
            return F(g[k])
    return F(1)


def gen_augment(rng, tier):
    base = gen_base(rng, 4)
    T = base["tables"]
    alt = gen_tables(rng, 4, n=T["n"], nA=T["nA"])
    alt["state_list"] = list(range(T["n"]))[::-1] + [T["n"]]
    alt["action_list"] = list(range(T["nA"]))[::-1]
    subsets = [list(c) for k in range(6) for c in itertools.combinations(COMPONENTS, k)]
    # list overrides on top of a few functional subsets (assert for non-tabular bases)
    for extra in (["state_list"], ["action_list"], ["state_list", "action_list"]):
        subsets.append(rng.choice(subsets[:32]) + extra)
    return {"kind": "augment", "base": base, "alt": alt, "subsets": subsets}


def gen_subtask(rng, tier, base=None):
    base = base or gen_base(rng, 5, min_states=1)
    n = base["tables"]["n"]
    # sub-goal / initiation sets: empty, one element, several, everything
    subgoals = rng.sample(range(n), rng.choice([0, 1, 1, rng.randint(0, n), n]))
    initial = rng.sample(range(n), rng.choice([0, 1, rng.randint(1, n), n]))
    maxr = rng.choice([None, "0", "-1", "-1/2", "1", "-3", "2"])
    T_ = base["tables"]
    rs = sorted({F(x) for mat in T_["rew"] for row in mat for x in row if F(x) != 0})
    if rs and rng.random() < .35:
        # clip level AT a reward of the table, or a hair (relative 2^-20 ~ 1e-6) below / above it
        r_ = rng.choice(rs)
        maxr = str(r_ + rng.choice([0, 1, -1]) * abs(r_) * F(1, 2 ** 20))
        base["features"].append("clip_level_near_a_reward")
    # planning_result / policy of the option (needs a tabular sub-task)
    plan = base["tabular"] and rng.random() < .4
    return {"kind": "subtask", "base": base, "initial_states": initial, "subgoals": subgoals,
            "include": rng.random() < .5, "maxr": maxr, "name": rng.choice([None, None, "", "go", 0]), "plan": plan}


def gen_used(rng, tier):
    """multi-step scenario: base built, its cached views touched and planned on, THEN derived MDPs
    (also MDPs derived from a derived, used MDP)"""
    base = gen_base(rng, 4, used=True)
    T = base["tables"]
    n = T["n"]
    alt = gen_tables(rng, 4, n=n, nA=T["nA"])
    sl, al = list(range(n)), list(range(T["nA"]))
    rng.shuffle(sl)
    rng.shuffle(al)
    alt["state_list"], alt["action_list"] = sl, al
    derive = []
    for keys in (["is_absorbing"], ["reward"], rng.sample(COMPONENTS, rng.randint(1, 5))):
        keys = list(keys)
        if rng.random() < .3:
            keys += rng.choice([["state_list"], ["action_list"], ["state_list", "action_list"]])
        derive.append({"how": "augment", "keys": keys})
    derive.append({"how": "augment2", "keys1": rng.sample(COMPONENTS, rng.randint(1, 3)), "keys": rng.sample(COMPONENTS, rng.randint(0, 2))})
    st = gen_subtask(rng, tier, base=base)
    derive.append({"how": "sub_task", "initial_states": st["initial_states"] or [0],
                   "subgoals": st["subgoals"], "include": st["include"], "maxr": st["maxr"], "name": st["name"]})
    derive.append(dict(derive[-1], how="sub_task_of_derived", keys1=rng.sample(COMPONENTS, rng.randint(1, 3))))
    return {"kind": "used", "base": base, "alt": alt, "derive": derive}


def gen_more_bases(rng, base, count, list_actions=False, same_n=False):
    """further base MDPs the SAME option objects are executed on afterwards: other rewards, other dynamics ("walls"),
    other absorbing sets, other sizes, other discount holders; action sets agree on the states they share (the option
    policy is one table), labels agree (same objects must understand the same state names)"""
    T = base["tables"]
    out = []
    for _ in range(count):
        b = gen_base(rng, 5, list_actions=list_actions, min_states=1, nA=T["nA"], n=T["n"] if same_n else None)
        for s_ in range(min(T["n"], b["tables"]["n"])):
            b["tables"]["actions"][s_] = list(T["actions"][s_])
        b["labels"] = base["labels"]
        out.append(b)
    return out


def merged_tables(bases):
    """state count and per-state action sets over all the bases of a case (for generating ONE option table)"""
    N = max(b["tables"]["n"] for b in bases)
    acts = []
    for s_ in range(N):
        acts.append(next(list(b["tables"]["actions"][s_]) for b in bases if s_ < b["tables"]["n"]))
    return {"n": N, "nA": bases[0]["tables"]["nA"], "actions": acts}


def case_bases(case):
    return [case["base"]] + list(case.get("more_bases") or [])


def gen_option(rng, T, max_steps, term_p=.4):
    n = T["n"]
    pol = []
    for s in range(n):
        acts = T["actions"][s]
        k = rng.randint(1, len(acts))
        chosen = rng.sample(acts, k)
        ps = gen_mdp._split_prob(rng, k, denom=4) if k <= 4 else [F(1, k)] * k
        if k in (2, 3) and rng.random() < .15:
            ps = [F(x) for x in rng.choice(NONDYADIC_ROWS[k])]
        row = [[a, str(p)] for a, p in zip(chosen, ps)]
        rest = [a for a in acts if a not in chosen]
        if rest and rng.random() < .1:
            row.append([rng.choice(rest), str(F(1, 2 ** rng.choice([27, 40, 60])))])     # tiny positive policy probability
        pol.append(row)
    terminal = [rng.random() < term_p for _ in range(n)]
    initial = [rng.random() < .7 for _ in range(n)]
    return {"policy": pol, "terminal": terminal, "initial": initial, "max_steps": max_steps}


def gen_run(rng, tier, long=False):
    base = gen_base(rng, 5, min_states=1)
    if long:
        long_chain_base(rng, base)
        return {"kind": "run", "base": base, "more_bases": [], "visits": [0], "planned": False,
                "option": {"policy": [[[0, "1"]], [[0, "1"]]], "terminal": [False, True], "initial": [True, True], "max_steps": 0},
                "s0": 0, "s0s": [0], "derive_first": None, "seed": rng.randrange(2 ** 31),
                "natural_cap": 4000, "ms_abs": [1000], "ms_rel": [1, 2]}
    T = base["tables"]
    # the SAME option object is afterwards executed on one or two OTHER base MDPs (and then on the first again)
    planned = base["tabular"] and rng.random() < .15      # a PlanToSubgoalOption with a ValueIteration policy instead of a SimpleOption
    more = gen_more_bases(rng, base, rng.choice([0, 1, 1, 2]), same_n=planned) if rng.random() < .6 else []
    if planned:
        for b_ in [base] + more:
            if not b_["tabular"] or b_["lists"]["where"] == "inferred":
                b_["tabular"] = True
                b_["lists"] = {"where": "inst", "state_list": list(range(b_["tables"]["n"])), "action_list": list(range(T["nA"]))}
    bases = [base] + more
    M = merged_tables(bases)
    opt = gen_option(rng, M, 0, term_p=rng.choice([0., .2, .4, .6]))
    s0s = [rng.randrange(b_["tables"]["n"]) for b_ in bases]
    if rng.random() < .1:
        opt["terminal"][s0s[0]] = True         # started in a state that is already terminal for it
    derive_first = None
    if rng.random() < .35 and not planned:
        # the option is run on a DERIVED MDP (Option.run_on augments an augmented MDP)
        derive_first = {"keys": rng.sample(["next_state_dist", "reward", "is_absorbing", "initial_state_dist"], rng.randint(1, 3)),
                        "alt": gen_tables(rng, 5, n=T["n"], nA=T["nA"], min_states=1)}
        if base["lists"] and base["lists"]["where"] == "inferred":
            base["lists"]["where"] = "inst"    # overridden dynamics may leave an INFERRED (reachable-only) state list: keep it explicit here
    visits = [0] + list(range(1, len(bases))) + ([0] if more else [])
    return {"kind": "run", "base": base, "more_bases": more, "visits": visits, "planned": planned,
            "option": opt, "s0": s0s[0], "s0s": s0s, "derive_first": derive_first, "seed": rng.choice([0, rng.randrange(2 ** 31)]),
            "natural_cap": 40, "ms_abs": rng.sample([0, 1, 2, 3, 4, 6], 3), "ms_rel": [-1, 0, 1, 2, 3, 5]}


def gen_smdp(rng, tier, long=False):
    if long:
        base = long_chain_base(rng, gen_base(rng, 5, list_actions=True, min_states=1))
        g_ = rng.choice(["1", "0"])        # integer sums only: the exact-rational model of gamma^t over > 1000 steps is out of reach otherwise
        for k_ in base["gammas"]:
            if base["gammas"][k_] is not None:
                base["gammas"][k_] = g_
        opt = {"policy": [[[0, "1"]], [[0, "1"]]], "terminal": [False, True], "initial": [True, True], "max_steps": 4800}
        return {"kind": "smdp", "base": base, "more_bases": [], "options": [opt], "n": 2, "include": True,
                "seed": rng.randrange(2 ** 31), "global_seed": 1, "s": 0, "queries": [["opt", 0, 0, 0], ["prim", 0, 0, 0]]}
    include = rng.random() < .5
    base = gen_base(rng, 5, list_actions=include, min_states=1)
    T = base["tables"]
    n = T["n"]
    nopt = rng.choice([0, 1, 2, 2, 3])
    # the SAME option objects are afterwards used inside a second / third semi-MDP over ANOTHER base MDP
    more = gen_more_bases(rng, base, rng.choice([1, 1, 2]), list_actions=include) if (nopt and rng.random() < .5) else []
    M = merged_tables([base] + more)
    options = [gen_option(rng, M, rng.choice([2, 3, 5, 8, 15, 30, 40, 40]), term_p=rng.choice([.25, .4, .6])) for _ in range(nopt)]
    s0 = rng.randrange(n)
    for o in options:
        r = rng.random()
        if r < .75:
            o["terminal"][s0] = False          # mostly start outside the termination set
        elif r < .9:
            o["terminal"][s0] = True           # option started in a state that is already terminal for it
        if rng.random() < .7:
            for x in range(n):                 # traps of the base MDP end the option
                if x != s0 and (T["absorbing"][x] or all(len(T["trans"][x][a]) == 1 and T["trans"][x][a][0][0] == x for a in T["actions"][x])):
                    o["terminal"][x] = True
        others = [x for x in range(n) if x != s0]
        if not any(o["terminal"]) and others and rng.random() < .8:
            o["terminal"][rng.choice(others)] = True
    queries = [["opt", i, s0, 0] for i in range(nopt)] + [["prim", a, s0, 0] for a in range(T["nA"])]
    # the SAME semi-MDP and option objects queried again from another state
    if nopt and n > 1:
        s1 = rng.choice([x for x in range(n) if x != s0])
        queries += [["opt", rng.randrange(nopt), s1, 0], ["prim", rng.randrange(T["nA"]), s1, 0]]
    for j, b_ in enumerate(more):
        sj = rng.randrange(b_["tables"]["n"])
        queries += [["opt", i, sj, j + 1] for i in range(nopt)] + [["prim", rng.randrange(T["nA"]), sj, j + 1]]
    if more:
        queries += [["opt", rng.randrange(nopt), s0, 0]]      # and back on the first base
    return {"kind": "smdp", "base": base, "more_bases": more, "options": options, "n": rng.randint(1, 20), "include": include,
            "seed": rng.choice([None, None, 0, rng.randrange(2 ** 31), rng.randrange(100)]), "global_seed": rng.randrange(2 ** 31),
            "s": s0, "queries": queries}


# ----------------------------------------------------------------------------
# Gallina literals
# ----------------------------------------------------------------------------
def dist_lit(row):
    return coqlist(pair(nat(e), q(p)) for e, p in row)


def tables_lit(T):
    return "(mkT %s %s %s %s %s)" % (
        dist_lit(T["init"]), coqlist(natlist(a) for a in T["actions"]),
        coqlist(coqlist(dist_lit(r) for r in row) for row in T["trans"]),
        coqlist(coqlist(vlib.qlist(r) for r in row) for row in T["rew"]), blist(T["absorbing"]))


def oq_lit(x):
    return "None" if x is None else "(Some %s)" % q(x)


def base_lit(base, res=None):
    g, ls = base["gammas"], base["lists"]
    lst = "None" if ls is None else "(Some (%s, %s))" % (natlist(ls["state_list"]), natlist(ls["action_list"]))
    li = lst if (ls and ls["where"] == "inst") else "None"
    if ls and ls["where"] == "inferred":
        # lists inferred by msdm (reachability + sorting are property C06's business): the model is told what they are
        bl = (res or {}).get("base_lists")
        if isinstance(bl, list):
            li = "(Some (%s, %s))" % (natlist(bl[0]), natlist(bl[1]))
    lc = lst if (ls and ls["where"] == "cls") else "None"
    return "(mk_base %s %s %s %s %s %s %s %s)" % (
        vlib.b(base["style"] == "quick"), vlib.b(base["tabular"]), tables_lit(base["tables"]),
        oq_lit(g["inst"]), oq_lit(g["cls0"]), oq_lit(g["cls1"]), li, lc)


def opt_lit(o):
    return "(mk_opt %s %s %s %s)" % (coqlist(dist_lit(r) for r in o["policy"]), blist(o["initial"]),
                                     blist(o["terminal"]), nat(o["max_steps"]))


def stream_lit(sim):
    return coqlist(pair(nat(a), nat(ns)) for a, ns in zip(sim["actions"], sim["next"]))


# ----------------------------------------------------------------------------
# normalisation of dumps (both sides -> plain Python with floats)
# ----------------------------------------------------------------------------
def fl(x):
    return float(vlib.frac(x))


def unq(v):
    """parsed model value: ('mkQQ', n, d) -> Fraction, recursively"""
    if isinstance(v, tuple):
        if len(v) == 3 and v[0] == "mkQQ":
            return F(v[1], v[2])
        return tuple(unq(x) for x in v)
    if isinstance(v, list):
        return [unq(x) for x in v]
    return v


def some(v):
    """model option -> (present, value)"""
    if v is None:
        return False, None
    assert isinstance(v, tuple) and v[0] == "Some", v
    return True, v[1]


def norm_model_dump(d):
    """8-tuple of options -> dict comparable with norm_impl_dump"""
    names = ["init", "actions", "trans", "rew", "abs", "discount", "state_list", "action_list"]
    out = {}
    for name, v in zip(names, d):
        ok, x = some(v)
        if not ok:
            out[name] = "ERR"
        elif name == "init":
            out[name] = [(e, float(p)) for e, p in x]
        elif name == "trans":
            out[name] = [[[(e, float(p)) for e, p in r] for r in row] for row in x]
        elif name == "rew":
            out[name] = [[[float(v_) for v_ in r] for r in row] for row in x]
        elif name == "discount":
            out[name] = float(x)
        else:
            out[name] = x
    return out


def norm_impl_dump(d):
    out = {}
    for name in ["init", "actions", "trans", "rew", "abs", "discount", "state_list", "action_list"]:
        x = d[name]
        if isinstance(x, dict) and "error" in x:
            out[name] = "ERR"
        elif name == "init":
            out[name] = [(e, fl(p)) for e, p in x]
        elif name == "trans":
            out[name] = [[[(e, fl(p)) for e, p in r] for r in row] for row in x]
        elif name == "rew":
            out[name] = [[[fl(v_) for v_ in r] for r in row] for row in x]
        elif name == "discount":
            out[name] = fl(x)
        else:
            out[name] = x
    return out


KEY2DUMP = {"initial_state_dist": "init", "actions": "actions", "next_state_dist": "trans", "reward": "rew",
            "is_absorbing": "abs", "discount_rate": "discount", "state_list": "state_list", "action_list": "action_list"}


def alt_dump(alt):
    return {"init": [(e, fl(p)) for e, p in alt["init"]], "actions": [list(a) for a in alt["actions"]],
            "trans": [[[(e, fl(p)) for e, p in r] for r in row] for row in alt["trans"]],
            "rew": [[[fl(v) for v in r] for r in row] for row in alt["rew"]], "abs": list(alt["absorbing"]),
            "state_list": alt["state_list"], "action_list": alt["action_list"]}


# ----------------------------------------------------------------------------
def fnoise(nterms, S):
    """float-noise bound for a sum of nterms products evaluated in doubles whose exact absolute terms add up to S:
    every factor is a double of an exact rational (relative 2^-53), a discount gamma^t is built by t roundings, each
    product and each addition rounds once: error <= (1.5 n + 1) 2^-52 S; taken with a factor ~2.5 of safety."""
    return 4.0 * (nterms + 2) * 2.0 ** -52 * float(S)


class Checker:
    def __init__(self, ctx):
        self.ctx = ctx
        self.counts = {}
        self.reported = set()

    def bump(self, k, n=1):
        self.counts[k] = self.counts.get(k, 0) + n

    def violation(self, sig, detail, found=True, once_key=None):
        key = (sig, once_key)
        self.bump("violations:" + sig)
        if key in self.reported:
            return
        self.reported.add(key)
        self.ctx.violation(sig, detail, found=found)

    # ---- augment ---------------------------------------------------------
    def check_augment(self, case, res, vals):
        if isinstance(vals, vlib.CoqError):
            self.violation("C15:coq-evaluation-failed", {"case": case, "error": str(vals)[:800]}, found=False)
            return
        base_i = norm_impl_dump(res["base"])
        alt = alt_dump(case["alt"])
        tabular = case["base"]["tabular"]
        for keys, aug_i, aug_m in zip(case["subsets"], res["augs"], vals):
            self.bump("augment_evaluations")
            lists_ov = [k for k in keys if k in ("state_list", "action_list")]
            if "raised" in aug_i:
                # the only raise inside the property's quantifier: list overrides on a non-tabular MDP
                if not (lists_ov and not tabular and aug_i["raised"] == "AssertionError"):
                    self.violation("C15:augment:raises:" + aug_i["raised"], {"case": case, "subset": keys, "impl": aug_i})
                elif aug_m is not None:
                    self.violation("C15:augment:model-differs", {"case": case, "subset": keys, "impl": aug_i, "model": str(aug_m)[:500]}, found=False)
                continue
            a_i = norm_impl_dump(aug_i)
            # -- the property, clause by clause, on the implementation alone
            preserved = COMPONENTS + ["discount_rate"] + (["state_list", "action_list"] if tabular else [])
            bad = None
            for k in preserved:
                dk = KEY2DUMP[k]
                want = alt[dk] if k in keys else base_i[dk]
                if a_i[dk] != want:
                    bad = (k, "overridden component is not the override" if k in keys else
                           "non-overridden component differs from the base MDP's", want, a_i[dk])
                    break
            if aug_i["inst_keys"]:
                self.bump("augmented_instance_dict_not_empty")
            if bad:
                k, why, want, got = bad
                detail = {"case": case, "subset": keys, "component": k, "clause": why, "base_or_override": want, "augmented": got,
                          "via": "augment", "holder": case["base"]["gammas"], "style": case["base"]["style"]}
                if k == "discount_rate":
                    self.violation(SIG_DISCOUNT, detail, found=True, once_key="augment")
                else:
                    self.violation("C15:augment:component-not-preserved:" + k, detail, found=True, once_key=k)
            else:
                self.bump("augment_property_held")
            # -- the model
            ok, m = some(aug_m)
            if not ok or norm_model_dump(m) != a_i:
                self.violation("C15:augment:model-differs",
                               {"case": case, "subset": keys, "impl": a_i, "model": norm_model_dump(m) if ok else None},
                               found=bool(bad), once_key="m")

    # ---- subtask -----------------------------------------------------------
    def check_subtask(self, case, res, val):
        if isinstance(val, vlib.CoqError):
            self.violation("C15:coq-evaluation-failed", {"case": case, "error": str(val)[:800]}, found=False)
            return
        self.bump("subtask_evaluations")
        if "raised" in res["sub"]:
            self.violation("C15:sub_task:raises:" + res["sub"]["raised"], {"case": case})
            return
        base_i, sub_i = norm_impl_dump(res["base"]), norm_impl_dump(res["sub"])
        T = case["base"]["tables"]
        n, nA = T["n"], T["nA"]
        sg = set(case["subgoals"])
        bad = None
        if sub_i["discount"] != base_i["discount"]:
            bad = ("discount_rate", "sub-task does not carry the base MDP's discount rate", base_i["discount"], sub_i["discount"])
        else:
            maxr = None if case["maxr"] is None else fl(case["maxr"])
            for s in range(n):
                for a in range(nA):
                    for ns in range(n):
                        r = base_i["rew"][s][a][ns]
                        want = r if (ns in sg or maxr is None or not (r > maxr)) else maxr
                        if sub_i["rew"][s][a][ns] != want and bad is None:
                            bad = ("reward", "sub-task reward is not the base reward clipped at non-terminal successors", want, sub_i["rew"][s][a][ns])
            if sub_i["trans"] != base_i["trans"] or sub_i["actions"] != base_i["actions"]:
                bad = ("next_state_dist/actions", "sub-task dynamics differ from the base MDP's", None, None)
            want_abs = [(s in sg) or (case["include"] and base_i["abs"][s]) for s in range(n)]
            if sub_i["abs"] != want_abs:
                bad = ("is_absorbing", "sub-task absorbing set is not the sub-goal set (plus base absorbing states when requested)", want_abs, sub_i["abs"])
            if res["is_terminal"] != [s in sg for s in range(n)] or res["is_initial"] != [s in case["initial_states"] for s in range(n)]:
                bad = ("is_initial/is_terminal", "initiation/termination predicate differs from the declared sets", None, None)
        if bad:
            k, why, want, got = bad
            detail = {"case": case, "component": k, "clause": why, "expected": want, "sub_task": got, "via": "sub_task",
                      "holder": case["base"]["gammas"], "style": case["base"]["style"]}
            if k == "discount_rate":
                self.violation(SIG_DISCOUNT, detail, found=True, once_key="sub_task")
            else:
                self.violation("C15:sub_task:" + k, detail, found=True, once_key=k)
        else:
            self.bump("subtask_property_held")
            if not case["subgoals"] or not case["initial_states"]:
                self.bump("subtask_empty_goal_or_initiation_set")
        if case.get("plan") and not bad:
            # the option's own planning_result / policy = planning on a brand-new MDP with the sub-task's components
            self.bump("subtask_planned")
            if res.get("plan") != res.get("plan_fresh_equivalent"):
                why = "the option's planning result differs from planning on a fresh MDP with the sub-task's components"
                self.violation("C15:sub_task:" + why, {"case": case, "clause": why, "plan": res.get("plan"),
                                                      "plan_fresh_equivalent": res.get("plan_fresh_equivalent")}, found=True, once_key="plan")
        if res.get("hashable") is not True:
            self.violation("C15:sub_task:option-not-hashable", {"case": case, "hashable": res.get("hashable")}, found=True, once_key="h")
        ok, m = some(val)
        if not ok or norm_model_dump(m) != sub_i:
            self.violation("C15:sub_task:model-differs", {"case": case, "impl": sub_i, "model": norm_model_dump(m) if ok else None},
                           found=bool(bad), once_key="m")

    # ---- used base (multi-step) ---------------------------------------------
    @staticmethod
    def py_views(d):
        """tabular views recomputed (floats) from a derived MDP's OWN functional dump"""
        sl, al = d["state_list"], d["action_list"]
        def p(s, a, ns):
            return dict(d["trans"][s][a]).get(ns, 0.0) if a in d["actions"][s] else 0.0
        tf = [[[p(s, a, ns) for ns in sl] for a in al] for s in sl]
        rf = [[[d["rew"][s][a][ns] if p(s, a, ns) != 0 else 0.0 for ns in sl] for a in al] for s in sl]
        am = [[a in d["actions"][s] for a in al] for s in sl]
        absvec = []
        for i, s in enumerate(sl):
            loop = all(tf[i][j][i] == 1 or not am[i][j] for j in range(len(al))) and any(am[i])
            zero = all(x == 0 for row in rf[i] for x in row)
            absvec.append((loop and zero) or d["abs"][s])
        s0 = [dict(d["init"]).get(s, 0.0) for s in sl]
        return {"tf": tf, "rf": rf, "am": am, "absvec": absvec, "s0": s0}

    @staticmethod
    def norm_views(v):
        out = {}
        for k, x in v.items():
            if isinstance(x, dict) and "error" in x:
                out[k] = "ERR"
            elif k in ("tf", "rf"):
                out[k] = [[[fl(y) for y in r] for r in row] for row in x]
            elif k == "s0":
                out[k] = [fl(y) for y in x]
            else:
                out[k] = x
        return out

    def check_used(self, case, res, vals):
        if isinstance(vals, vlib.CoqError):
            self.violation("C15:coq-evaluation-failed", {"case": case, "error": str(vals)[:800]}, found=False)
            return
        base_i = norm_impl_dump(res["base"])
        alt = alt_dump(case["alt"])
        for d, rep, mv in zip(case["derive"], res["derived"], vals):
            self.bump("used_evaluations")
            detail = {"case": case, "derive": d}
            if "raised" in rep:
                self.violation("C15:used-base:raises:" + rep["raised"].split(":")[0], dict(detail, impl=rep), found=True, once_key="r")
                continue
            d_i = norm_impl_dump(rep)
            v_i = self.norm_views(rep["views"])
            clause = None
            if d["how"] in ("augment2", "sub_task_of_derived"):
                # regression guard for the defect fixed by /repo b30f659: a component overridden in a first derivation and not in the
                # second was stored as a plain function on the second class, got bound as a method, and every call raised TypeError
                lost = [k for k in d["keys1"] if k not in d.get("keys", []) and d_i[KEY2DUMP[k]] == "ERR"]
                if lost:
                    self.violation(SIG_REDERIVE, dict(detail, unusable_components=lost, impl=rep,
                                   clause="component overridden in a first augment is unusable (TypeError) on an MDP derived from that derived MDP"),
                                   found=True, once_key="rederive")
                    continue
            # (1) the functional interface of the derived MDP (property, on the implementation alone)
            if d["how"] in ("augment", "augment2"):
                ovk = set(d["keys"]) | set(d.get("keys1", []))
                if d["how"] == "augment2":
                    self.bump("used_second_level_derivations")
                for k in COMPONENTS + ["discount_rate", "state_list", "action_list"]:
                    dk = KEY2DUMP[k]
                    want = alt[dk] if k in ovk else base_i[dk]
                    if d_i[dk] != want:
                        clause = "component %s of the MDP derived from a used base is not the %s" % (k, "override" if k in ovk else "base MDP's")
                        break
            elif d["how"] == "sub_task_of_derived":
                self.bump("used_subtask_of_derived")
                k1 = d["keys1"]
                if d_i["discount"] != base_i["discount"] or d_i["trans"] != (alt["trans"] if "next_state_dist" in k1 else base_i["trans"]) \
                        or d_i["actions"] != (alt["actions"] if "actions" in k1 else base_i["actions"]):
                    clause = "sub-task of a derived MDP does not keep that MDP's discount / dynamics / action sets"
            elif d_i["discount"] != base_i["discount"] or d_i["trans"] != base_i["trans"]:
                clause = "sub-task of a used base does not keep the base discount / dynamics"
            # (2) its tabular views are those of ITS OWN components, not the base's cached ones
            if clause is None:
                want_v = self.py_views(d_i)
                for k in ("tf", "rf", "am", "absvec", "s0"):
                    if v_i[k] != want_v[k]:
                        clause = "tabular view %s of the derived MDP is not computed from its own components" % k
                        break
            # (3) planning on it = planning on a brand-new MDP with the same components
            if clause is None:
                if isinstance(rep["plan"], dict) and "error" in rep["plan"] or isinstance(rep["plan_fresh_equivalent"], dict) and "error" in rep["plan_fresh_equivalent"]:
                    if rep["plan"] != rep["plan_fresh_equivalent"]:
                        clause = "planning on the derived MDP fails differently from planning on a fresh equivalent MDP"
                elif rep["plan"] != rep["plan_fresh_equivalent"]:
                    clause = "planning result on the derived MDP differs from the one on a fresh MDP with the same components"
            if clause:
                self.violation("C15:used-base:" + clause, dict(detail, clause=clause, impl=rep, base_views=res["base_views"]), found=True, once_key=clause)
            else:
                self.bump("used_property_held")
                if v_i["absvec"] != self.norm_views(res["base_views"])["absvec"] or v_i["rf"] != self.norm_views(res["base_views"])["rf"]:
                    self.bump("used_views_differ_from_base_cache")
            # (4) the model
            ok, m = some(mv)
            okm = ok
            if ok:
                md = norm_model_dump(m[:8])
                names = ["tf", "rf", "am", "absvec", "s0", "reach"]
                mviews = {}
                for nm, x in zip(names, m[8]):
                    okx, y = some(x)
                    if not okx:
                        mviews[nm] = "ERR"
                    elif nm in ("tf", "rf"):
                        mviews[nm] = [[[float(z) for z in r] for r in row] for row in y]
                    elif nm == "s0":
                        mviews[nm] = [float(z) for z in y]
                    elif nm == "reach":
                        mviews[nm] = sorted(y)
                    else:
                        mviews[nm] = y
                okm = md == d_i and mviews == v_i
            if not okm:
                self.violation("C15:used-base:model-differs", dict(detail, impl={"dump": d_i, "views": v_i}, model=str(mv)[:3000]),
                               found=bool(clause), once_key="m")

    # ---- run ------------------------------------------------------------
    @staticmethod
    def sim_tuple(sim):
        return ([(s, a, ns, fl(r)) for s, a, ns, r in zip(sim["states"], sim["actions"], sim["next"], sim["rewards"])], sim["final"])

    @staticmethod
    def model_sim_tuple(x):
        stp, fin = x
        return ([(s, a, ns, float(r)) for s, a, ns, r in stp], fin)

    def property_sim(self, case, sim, opt, ms, bidx=0):
        """clauses of the property on one recorded roll-out (limit ms) on base number bidx; returns a failing clause or None"""
        T = eff_tables(case, bidx) if case["kind"] == "run" else case_bases(case)[bidx]["tables"]
        terminal = opt["terminal"]
        st, fin = self.sim_tuple(sim)
        states = [x[0] for x in st] + [fin]
        for i, (s, a, ns, r) in enumerate(st):
            if ns != states[i + 1]:
                return "roll-out is not a chain of transitions"
            if terminal[s]:
                return "roll-out continues from a state the option declares terminal"
            if r != fl(T["rew"][s][a][ns]):
                return "step reward differs from the base MDP's reward"
            if case.get("planned"):
                pass      # which actions a planner's policy may choose is property C01's business, not this one's
            elif not any(e == a and F(p) > 0 for e, p in opt["policy"][s]):
                return "action outside the support of the option policy"
            if not any(e == ns and F(p) > 0 for e, p in T["trans"][s][a]):
                return "successor outside the support of the base MDP's transition"
        if sim["timesteps"] != list(range(len(st))):
            return "timesteps are not 0..k-1"
        if len(st) > ms:
            return "more primitive steps than the step limit"
        if len(st) < ms and not terminal[fin]:
            return "roll-out stopped before the limit at a non-terminal state"
        if sim["len"] != len(st) + 1:
            return "len(result) is not steps + 1"
        return None

    def check_run(self, case, res, vals):
        terminal = case["option"]["terminal"]
        for rec, val in zip(res["runs"], vals):
            self.bump("run_evaluations")
            if isinstance(val, vlib.CoqError):
                self.violation("C15:coq-evaluation-failed", {"case": case, "error": str(val)[:800]}, found=False)
                continue
            ms = rec["max_steps"]
            detail = {"case": case, "max_steps": ms, "impl": rec}
            if len(rec["inner"]) != 1:
                if case.get("derive_first") and rec["raised"] == "TypeError":
                    self.violation(SIG_REDERIVE, dict(detail, clause="Option.run_on on a derived MDP raises TypeError"), found=True, once_key="rederive")
                else:
                    self.violation("C15:run_on:not-exactly-one-roll-out", detail, found=False)
                continue
            inner = rec["inner"][0]
            bidx = rec.get("bidx", 0)
            if case.get("derive_first") and bidx == 0:
                self.bump("run_on_derived_mdp")
            if rec.get("visit", 0) > 0:
                self.bump("run_same_option_on_another_base" if bidx else "run_same_option_back_on_first_base")
            if case.get("planned"):
                self.bump("run_planned_option")
            clause = self.property_sim(case, inner, case["option"], ms, bidx)
            if clause is None and (inner["states"][0] if inner["states"] else inner["final"]) != case["s0s"][bidx]:
                clause = "roll-out does not start at the requested state"
            k = len(inner["states"])
            should_raise = (k + 1 >= ms)
            if clause is None:
                if rec["raised"] is None:
                    if should_raise:
                        clause = "no exception although the roll-out reached the step limit"
                    elif not terminal[inner["final"]]:
                        clause = "option returned at a state it does not declare terminal"
                    elif self.sim_tuple(rec["returned"]) != self.sim_tuple(inner):
                        clause = "returned roll-out differs from the executed one"
                elif rec["raised"] == "AlgorithmException":
                    if not should_raise:
                        clause = "step-limit exception although the option terminated within its limit"
                else:
                    clause = "unexpected exception " + rec["raised"]
            if clause:
                detail["clause"] = clause
                self.violation("C15:run_on:" + clause, detail, found=True, once_key=clause)
            else:
                self.bump("run_property_held")
                self.bump("run_raised" if rec["raised"] else "run_returned")
                if k + 1 == ms or k + 2 == ms:
                    self.bump("run_at_boundary")
            # model
            tag, ret, inn = val
            want_tag = 0 if rec["raised"] is None else (1 if rec["raised"] == "AlgorithmException" else 2)
            okm = (tag == want_tag)
            oki, mi = some(inn)
            if oki:
                msim, valid = (mi[0], mi[1]), mi[2]     # ((steps, final), valid) prints flattened
                okm = okm and self.model_sim_tuple(msim) == self.sim_tuple(inner) and valid is True
            else:
                okm = False
            okr, mr = some(ret)
            if rec["raised"] is None:
                okm = okm and okr and self.model_sim_tuple(mr) == self.sim_tuple(rec["returned"])
            if not okm:
                self.violation("C15:run_on:model-differs", dict(detail, model=str(val)[:1500]), found=bool(clause), once_key="m")

    # ---- smdp -------------------------------------------------------------
    def check_smdp(self, case, res, vals, acts_val):
        bases = case_bases(case)
        T = case["base"]["tables"]
        gamma = base_discount(case["base"])
        self.bump("smdp_cases")
        if fl(res["base_discount"]) != float(gamma):
            self.violation("C15:harness:base-discount", {"case": case}, found=False)
        # actions
        if isinstance(acts_val, vlib.CoqError):
            self.violation("C15:coq-evaluation-failed", {"case": case, "error": str(acts_val)[:800]}, found=False)
        else:
            ok, al = some(acts_val)
            want = None
            if ok:
                want = []
                for a in al:
                    if a[0] == 0:
                        want.append(["prim", a[1]])
                    else:
                        sigs = [i for i, o in enumerate(case["options"]) if (o["max_steps"], o["terminal"], o["initial"]) == (a[1], a[2], a[3])]
                        want.append(["opt", sigs[0] if sigs else -1])
            got = res["actions"]
            if isinstance(got, dict):
                self.violation("C15:smdp.actions:raises:" + got["error"], {"case": case}, found=True, once_key="a")
            else:
                # options with identical signatures are interchangeable for this comparison
                def canon(l):
                    out = []
                    for kind, i in l:
                        if kind == "opt":
                            o = case["options"][i]
                            i = [j for j, p in enumerate(case["options"]) if (p["max_steps"], p["terminal"], p["initial"]) == (o["max_steps"], o["terminal"], o["initial"])][0]
                        out.append([kind, i])
                    return out
                if want is None or canon(got) != canon(want):
                    self.violation("C15:smdp.actions:model-differs", {"case": case, "impl": got, "model": want}, found=False, once_key="a")
        if case["seed"] is None:
            self.bump("smdp_seed_None")
            if not res["seed_constant_after_first_option_query"]:
                self.violation("C15:smdp:seed-redrawn-between-queries", {"case": case, "seed_after": res["seed_after"]}, found=True, once_key="s")
        if case["seed"] == 0:
            self.bump("smdp_seed_0")
            if res["seed_after"] != 0:
                self.violation("C15:smdp:seed-0-replaced", {"case": case, "seed_after": res["seed_after"]}, found=True, once_key="s0")
        for (kind, idx, sid, bidx), qres, val in zip(case["queries"], res["queries"], vals):
            self.bump("smdp_evaluations")
            T = bases[bidx]["tables"]
            gamma = base_discount(bases[bidx])
            exact = gamma in (F(0), F(1), F(1, 2)) and "inexact_sums" not in bases[bidx]["features"]
            if "long_chain" in bases[bidx]["features"] and gamma in (F(0), F(1)):
                exact = True               # integer step costs, discount 0 or 1: integer sums
            tol = 0.0            # exact; replaced below by the float-noise bound of the recorded simulations when sums are inexact
            if fl(res["base_discounts"][bidx]) != float(gamma):
                self.violation("C15:harness:base-discount", {"case": case}, found=False)
            if bidx:
                self.bump("smdp_same_options_in_another_semimdp")
            elif sid != case["s"]:
                self.bump("smdp_second_state_queries")
            detail = {"case": case, "query": [kind, idx, sid, bidx], "impl": qres}
            if isinstance(val, vlib.CoqError):
                self.violation("C15:coq-evaluation-failed", {"case": case, "error": str(val)[:800]}, found=False)
                continue
            tag, dists, msims = val
            nstr = qres["nstr"]
            if kind == "prim":
                avail = idx in T["actions"][sid]
                clause = None
                if not avail:
                    if nstr.get("raised") != "ValueError":
                        clause = "unavailable primitive action does not raise ValueError"
                elif "raised" in nstr:
                    clause = "available primitive action raises " + nstr["raised"]
                else:
                    row = [(ns, fl(p)) for ns, p in T["trans"][sid][idx]]
                    want = [((ns, 1, fl(T["rew"][sid][idx][ns])), p) for ns, p in row]
                    got = [((k[0], k[1], fl(k[2])), fl(p)) for k, p in nstr["value"]]
                    if any(k[1] != 1 for k, _ in got):
                        clause = "primitive action with duration other than 1"
                    elif sorted(got) != sorted(want):
                        clause = "primitive action outcomes are not the base one-step outcomes"
                if clause:
                    self.violation("C15:smdp:primitive:" + clause, dict(detail, clause=clause), found=True, once_key=clause)
                else:
                    self.bump("prim_property_held")
                if avail and "raised" not in nstr:
                    self.bump("prim_available")
                    ok, d = some(dists)
                    okm = tag == 0 and ok
                    if okm:
                        md = [((ns, t, float(r)), float(p)) for ns, t, r, p in d[0]]
                        gotp = [((k[0], k[1], fl(k[2])), fl(p)) for k, p in nstr["value"]]
                        if md != gotp and sorted(md) == sorted(gotp):
                            self.bump("key_order_drift")          # same mapping, other key order: not part of the property
                        okm = sorted(md) == sorted(gotp)
                        okm = okm and self.close_dist([((ns, t), float(p)) for ns, t, p in d[1]], [((k[0], k[1]), fl(p)) for k, p in qres["nst"]["value"]], 1e-12)
                        okm = okm and self.close_dist([(ns, float(p)) for ns, p in d[2]], [(k, fl(p)) for k, p in qres["ns"]["value"]], 1e-12)
                        okm = okm and abs(float(d[3]) - fl(qres["ecr"]["value"])) <= \
                            fnoise(len(T["trans"][sid][idx]), sum(abs(F(p_) * F(T["rew"][sid][idx][ns_])) for ns_, p_ in T["trans"][sid][idx]))
                    if not okm:
                        self.violation("C15:smdp:primitive:model-differs", dict(detail, model=str(val)[:1500]), found=bool(clause), once_key="pm")
                elif not avail and tag != 2:
                    self.violation("C15:smdp:primitive:model-differs", dict(detail, model=str(val)[:1500]), found=bool(clause), once_key="pm")
                continue
            # ---- option
            opt = case["options"][idx]
            n = case["n"]
            sims = nstr["sims"]
            clause = None
            for sim in sims:
                clause = clause or self.property_sim(case, sim, opt, opt["max_steps"], bidx)
            raised = nstr.get("raised")
            hit = [len(sim["states"]) + 1 >= opt["max_steps"] for sim in sims]
            if clause is None:
                if raised is None:
                    if len(sims) != n:
                        clause = "number of simulations differs from n_option_simulations"
                    elif any(hit):
                        clause = "no exception although a simulation reached the step limit"
                    elif any(sim["states"] and sim["states"][0] != sid or (not sim["states"] and sim["final"] != sid) for sim in sims):
                        clause = "simulation does not start at the queried state"
                elif raised == "AlgorithmException":
                    if not (hit and hit[-1] and not any(hit[:-1])):
                        clause = "step-limit exception not raised by the first simulation that reached the limit"
                else:
                    clause = "unexpected exception " + raised
            emp = None
            if clause is None and raised is None:
                # empirical distribution of the recorded simulations, exact rationals
                emp = {}
                for sim in sims:
                    cum = sum((vlib.frac(r) * gamma ** t for t, r in enumerate(sim["rewards"])), F(0))
                    k = (sim["final"], len(sim["states"]), cum)
                    emp[k] = emp.get(k, 0) + 1
                if not exact:
                    tol = max([fnoise(len(sim["rewards"]), sum(abs(vlib.frac(r)) * gamma ** t for t, r in enumerate(sim["rewards"]))) for sim in sims] + [0.0])
                got = [((k[0], k[1], vlib.frac(k[2])), vlib.frac(p)) for k, p in nstr["value"]]
                clause = self.compare_outcome(emp, n, got, tol)
                if clause is None and abs(sum(float(p) for _, p in got) - 1.0) > 1e-12:
                    clause = "outcome distribution is not normalised"
                if clause is None:
                    # marginals and expectation are push-forwards of the same simulations (each call re-runs them)
                    for name in ("nst", "ns", "ecr"):
                        if "raised" in qres[name] or [self.sim_tuple(x) for x in qres[name]["sims"]] != [self.sim_tuple(x) for x in sims]:
                            clause = "marginal call %s did not re-run the same simulations" % name
                if clause is None:
                    want_nst, want_ns = {}, {}
                    for k, c in emp.items():
                        want_nst[(k[0], k[1])] = want_nst.get((k[0], k[1]), 0) + F(c, n)
                        want_ns[k[0]] = want_ns.get(k[0], 0) + F(c, n)
                    want_ecr = sum(k[2] * F(c, n) for k, c in emp.items())
                    if not self.close_dist(sorted((k, float(p)) for k, p in want_nst.items()), sorted(((k[0], k[1]), fl(p)) for k, p in qres["nst"]["value"]), 1e-12):
                        clause = "(end state, steps) marginal is not the push-forward of the outcome distribution"
                    elif not self.close_dist(sorted((k, float(p)) for k, p in want_ns.items()), sorted((k, fl(p)) for k, p in qres["ns"]["value"]), 1e-12):
                        clause = "end-state marginal is not the push-forward of the outcome distribution"
                    elif abs(float(want_ecr) - fl(qres["ecr"]["value"])) > fnoise(len(emp), sum(abs(k[2]) * F(c, n) for k, c in emp.items())) + tol:
                        clause = "expected cumulative reward is not the mean over the simulations"
            if clause:
                self.violation("C15:smdp:option:" + clause, dict(detail, clause=clause), found=True, once_key=clause)
            else:
                self.bump("option_property_held")
                self.bump("option_raised" if raised else "option_returned")
                if raised is None and opt["terminal"][sid]:
                    self.bump("option_started_in_terminal_state")
                if raised is None:
                    self.bump("simulations_replayed", len(sims))
                    self.bump("distinct_outcomes", len(emp))
                    if len(emp) > 1:
                        self.bump("option_multi_outcome")
            # ---- model
            want_tag = 0 if raised is None else (1 if raised == "AlgorithmException" else 2)
            okm = tag == want_tag
            if okm and raised is None:
                ok, d = some(dists)
                oks, ms_ = some(msims)
                okm = ok and oks
                if okm:
                    msl, valid = ms_
                    okm = valid is True and [self.model_sim_tuple(x) for x in msl] == [self.sim_tuple(x) for x in sims]
                if okm:
                    md = [((ns, t, r), p) for ns, t, r, p in d[0]]
                    got = [((k[0], k[1], vlib.frac(k[2])), vlib.frac(p)) for k, p in nstr["value"]]
                    # outcome distributions are compared as MAPPINGS (the property fixes keys and probabilities, not the key order);
                    # a different order is counted as drift
                    if exact:
                        dm, dg = dict(md), dict(got)
                        okm = len(dm) == len(md) and len(dg) == len(got) and set(dm) == set(dg) and \
                            all(float(dm[k]) == float(dg[k]) for k in dm)
                        if okm and [k for k, _ in md] != [k for k, _ in got]:
                            self.bump("key_order_drift")
                    else:
                        # keys carry a rounded cumulative reward: match them one-to-one within the float-noise bound tol
                        rest = list(got)
                        okm = len(md) == len(got)
                        for (k, p_) in md:
                            hit = [i for i, (k2, p2) in enumerate(rest) if k2[:2] == k[:2] and abs(float(k2[2]) - float(k[2])) <= tol
                                   and float(p2) == float(p_)]
                            if not hit:
                                okm = False
                                break
                            rest.pop(hit[0])
                        if okm and any(a[0][:2] != b[0][:2] or abs(float(a[0][2]) - float(b[0][2])) > tol for a, b in zip(md, got)):
                            self.bump("key_order_drift")
                    okm = okm and d[4] == 1
                    okm = okm and self.close_dist([((ns, t), float(p)) for ns, t, p in d[1]], [((k[0], k[1]), fl(p)) for k, p in qres["nst"]["value"]], 1e-12)
                    okm = okm and self.close_dist([(ns, float(p)) for ns, p in d[2]], [(k, fl(p)) for k, p in qres["ns"]["value"]], 1e-12)
                    okm = okm and abs(float(d[3]) - fl(qres["ecr"]["value"])) <= \
                        fnoise(len(md), sum(abs(float(k_[2]) * float(p_)) for k_, p_ in md)) + tol
            if not okm:
                self.violation("C15:smdp:option:model-differs", dict(detail, model=str(val)[:2000]), found=bool(clause), once_key="om")

    @staticmethod
    def close_dist(a, b, tol):
        """two finite distributions as MAPPINGS key -> probability (key order is not compared), probabilities within tol"""
        da, db = dict(a), dict(b)
        return len(da) == len(a) and len(db) == len(b) and set(da) == set(db) and all(abs(da[k] - db[k]) <= tol for k in da)

    @staticmethod
    def compare_outcome(emp, n, got, tol):
        """emp: {(ns, t, cumF): count}; got: [((ns, t, cumF), pF)] from the implementation"""
        used = set()
        for (ns, t, cum), p in got:
            match = [k for k in emp if k[0] == ns and k[1] == t and abs(float(k[2] - cum)) <= tol and k not in used] if tol else \
                    [k for k in emp if k == (ns, t, cum)]
            if not match:
                return "outcome (end state, steps, discounted cumulative reward) is not produced by any of its own simulations"
            k = match[0]
            used.add(k)
            if float(F(emp[k], n)) != float(p):
                return "outcome probability is not count / number of simulations"
        if len(used) != len(emp):
            return "an outcome of its own simulations is missing from the distribution"
        return None


# ----------------------------------------------------------------------------
def terms_for(case, res):
    """-> list of Gallina terms for one case (needs the implementation's recorded roll-outs)"""
    T = case["base"]["tables"]
    n, nA = T["n"], T["nA"]
    b = base_lit(case["base"], res)
    if case["kind"] == "augment":
        alt = case["alt"]
        ks = coqlist(coqlist(coqstr(k) for k in keys) for keys in case["subsets"])
        return ["let b := %s in let A := %s in map (fun ks => dump_opt (augment b (sel_ov A %s %s ks)) %s %s) %s" % (
            b, tables_lit(alt), natlist(alt["state_list"]), natlist(alt["action_list"]), nat(n), nat(nA), ks)]
    if case["kind"] == "used":
        alt = case["alt"]
        fuel = nat(2 * n + 6)
        items = []
        for d in case["derive"]:
            if d["how"] == "augment":
                items.append("dump_views %s (augment b (sel_ov A %s %s %s)) %s %s" % (
                    fuel, natlist(alt["state_list"]), natlist(alt["action_list"]), coqlist(coqstr(k) for k in d["keys"]), nat(n), nat(nA)))
            elif d["how"] == "augment2":
                sl_, al_ = natlist(alt["state_list"]), natlist(alt["action_list"])
                items.append("dump_views %s (match augment b (sel_ov A %s %s %s) with Some o1 => augment (touch %s o1) (sel_ov A %s %s %s) | None => None end) %s %s" % (
                    fuel, sl_, al_, coqlist(coqstr(k) for k in d["keys1"]), fuel, sl_, al_, coqlist(coqstr(k) for k in d["keys"]), nat(n), nat(nA)))
            elif d["how"] == "sub_task_of_derived":
                so = "(mkSubgoal %s %s %s %s)" % (natlist(d["initial_states"]), natlist(d["subgoals"]), vlib.b(d["include"]), oq_lit(d["maxr"]))
                items.append("dump_views %s (match augment b (sel_ov A %s %s %s) with Some o1 => sub_task (touch %s o1) %s | None => None end) %s %s" % (
                    fuel, natlist(alt["state_list"]), natlist(alt["action_list"]), coqlist(coqstr(k) for k in d["keys1"]), fuel, so, nat(n), nat(nA)))
            else:
                so = "(mkSubgoal %s %s %s %s)" % (natlist(d["initial_states"]), natlist(d["subgoals"]), vlib.b(d["include"]), oq_lit(d["maxr"]))
                items.append("dump_views %s (sub_task b %s) %s %s" % (fuel, so, nat(n), nat(nA)))
        return ["let b := touch %s %s in let A := %s in %s" % (fuel, b, tables_lit(alt), coqlist(items))]
    if case["kind"] == "subtask":
        so = "(mkSubgoal %s %s %s %s)" % (natlist(case["initial_states"]), natlist(case["subgoals"]), vlib.b(case["include"]), oq_lit(case["maxr"]))
        return ["dump_opt (sub_task %s %s) %s %s" % (b, so, nat(n), nat(nA))]
    if case["kind"] == "run":
        out = []
        df = case.get("derive_first")
        bases = case_bases(case)
        lits = [base_lit(bs, {"base_lists": (res.get("base_lists_all") or [None] * len(bases))[j]}) for j, bs in enumerate(bases)]
        pol = case["option"]["policy"]
        if case.get("planned"):      # the planner's policy is not known to the model: any action id counts as possible
            pol = [[[a_, "1"] for a_ in range(nA)] for _ in pol]
        for rec in res["runs"]:
            bidx = rec.get("bidx", 0)
            b = lits[bidx]
            stream = stream_lit(rec["inner"][0]) if rec["inner"] else "[]"
            args = "%s %s %s %s %s" % (blist(case["option"]["terminal"]), nat(rec["max_steps"]), stream,
                                       nat(case["s0s"][bidx]), coqlist(dist_lit(r) for r in pol))
            if df and bidx == 0:
                out.append("match augment %s (sel_ov %s [] [] %s) with Some o1 => run_dump (touch %s o1) %s | None => (2%%nat, None, None) end" % (
                    b, tables_lit(df["alt"]), coqlist(coqstr(k) for k in df["keys"]), nat(2 * n + 6), args))
            else:
                out.append("run_dump %s %s" % (b, args))
        return out
    if case["kind"] == "smdp":
        bases = case_bases(case)
        lits = [base_lit(bs, {"base_lists": (res.get("base_lists_all") or [None] * len(bases))[j]}) for j, bs in enumerate(bases)]
        ms_ = ["(mkSMDP %s %s %s %s)" % (bl, coqlist(opt_lit(o) for o in case["options"]), nat(case["n"]), vlib.b(case["include"])) for bl in lits]
        out = ["actions_dump %s %s %s" % (ms_[0], nat(case["s"]), nat(len(case["options"][0]["terminal"]) if case["options"] else n))]
        for (kind, idx, sid, bidx), qres in zip(case["queries"], res["queries"]):
            m = ms_[bidx]
            if kind == "prim":
                out.append("smdp_dump %s %s (Prim %s) []" % (m, nat(sid), nat(idx)))
            else:
                streams = coqlist(stream_lit(s) for s in qres["nstr"]["sims"])
                out.append("smdp_dump %s %s (Opt %s) %s" % (m, nat(sid), opt_lit(case["options"][idx]), streams))
        return out
    raise ValueError(case["kind"])


def run(ctx):
    tier = ctx.tier
    rng = ctx.rng
    if ctx.replay_case:
        cases = [ctx.replay_case["detail"]["case"]]
    else:
        k = 1 if tier == "quick" else 8
        cases = [gen_augment(rng, tier) for _ in range(24 * k)] + [gen_subtask(rng, tier) for _ in range(60 * k)] + \
                [gen_run(rng, tier) for _ in range(60 * k)] + [gen_smdp(rng, tier) for _ in range(70 * k)] + \
                [gen_used(rng, tier) for _ in range(50 * k)] + \
                [gen_run(rng, tier, long=True) for _ in range(2 * k)] + [gen_smdp(rng, tier, long=True) for _ in range(1 * k)]
    import time
    t0 = time.time()
    impl = ctx.impl("c15_impl.py", {"cases": cases}, shards=8 if tier == "quick" else 16)["results"]
    t_impl = time.time() - t0
    ck = Checker(ctx)
    terms, owner = [], []
    for i, (case, res) in enumerate(zip(cases, impl)):
        if "error" in res:
            ck.violation("C15:impl-error:" + res["error"].split(":")[0], {"case": case, "error": res["error"], "trace": res.get("trace")}, found=False)
            continue
        if res.get("mutated"):
            ck.violation("C15:caller-object-mutated", {"case": case, "mutated": res["mutated"],
                         "clause": "an object owned by the caller (action list / distribution / list passed to a constructor) was changed"},
                         found=True, once_key="mut")
        if res.get("stale_changed") or res.get("base_dump_changed") or res.get("rebuilt_base_differs"):
            ck.violation("C15:earlier-result-changed-by-a-later-call", {"case": case, "stale_changed": res.get("stale_changed"),
                         "base_dump_changed": res.get("base_dump_changed"), "rebuilt_base_differs": res.get("rebuilt_base_differs"),
                         "clause": "a derived MDP / roll-out / outcome distribution obtained earlier reads differently after later calls"},
                         found=True, once_key="stale")
        ck.bump("cases_checked_for_mutation_and_stale_results")
        ts = terms_for(case, res)
        terms += ts
        owner += [i] * len(ts)
    import resource
    t0 = time.time()
    c0 = resource.getrusage(resource.RUSAGE_CHILDREN)
    vals = ctx.coq(PRE, terms, shard=16 if tier == "quick" else 60)
    c1 = resource.getrusage(resource.RUSAGE_CHILDREN)
    t_coq = time.time() - t0
    cpu_coq = (c1.ru_utime + c1.ru_stime) - (c0.ru_utime + c0.ru_stime)
    vals = [v if isinstance(v, vlib.CoqError) else unq(v) for v in vals]
    per = {}
    for i, v in zip(owner, vals):
        per.setdefault(i, []).append(v)
    distinct = set()
    kinds = {}
    for i, vs in per.items():
        case, res = cases[i], impl[i]
        kinds[case["kind"]] = kinds.get(case["kind"], 0) + 1
        distinct.add(vlib.structural_hash(case))
        if case["kind"] == "augment":
            ck.check_augment(case, res, vs[0])
        elif case["kind"] == "subtask":
            ck.check_subtask(case, res, vs[0])
        elif case["kind"] == "run":
            ck.check_run(case, res, vs)
        elif case["kind"] == "used":
            ck.check_used(case, res, vs[0])
        else:
            ck.check_smdp(case, res, vs[1:], vs[0])
    reps = {}
    for c in cases:
        bs = c["base"]
        for key in (["labels:state=" + bs["labels"]["state"], "labels:action=" + bs["labels"]["action"], "dist_as=" + bs["dist_as"],
                     "actions_as=" + bs["actions_as"], "lists=" + (bs["lists"]["where"] if bs["lists"] else "none"),
                     "discount=" + str(base_discount(bs)), "touched" if bs["touch"] else "fresh", "states=%d" % bs["tables"]["n"],
                     "actions=%d" % bs["tables"]["nA"], "int_typed_numbers" if bs.get("ints") else "float_numbers",
                     "shared_caller_objects" if bs.get("shared_objects") else "separate_caller_objects"]
                    + (["states==actions"] if bs["tables"]["n"] == bs["tables"]["nA"] else [])
                    + bs["features"]):
            reps[key] = reps.get(key, 0) + 1
    holders = {}
    for c in cases:
        g = c["base"]["gammas"]
        key = c["base"]["style"] + ":" + "+".join(k for k in ("inst", "cls0", "cls1") if g[k] is not None)
        holders[key] = holders.get(key, 0) + 1
    ev = sum(v for k, v in ck.counts.items() if k.endswith("_evaluations"))
    sample = None
    for c, r in zip(cases, impl):
        if c["kind"] == "run":
            sample = {"case": c, "impl": r}
            break
    ctx.coverage.update({
        "evaluations": ev,
        "distinct_nontrivial": len(distinct),
        "rule": "base MDPs: gen_mdp tables (2..5 states, 1..3 actions, k/8 probabilities, quarter-integer rewards) completed to total "
                "functions; discount in {1/2, 9/10, 1} held on the instance and/or class B and/or base class A (table style) or set by "
                "QuickMDP.__init__ (quick style); tabular (state/action lists on the instance or a class, possibly permuted) or not. "
                "augment: all 32 subsets of the five functional components + 3 list-override subsets per base; subtask: random sub-goal / "
                "initiation sets, include flag, clip level; run: tabular option policy, termination set, start state, seed, step limits "
                "{k-1..k+5} around the natural length k plus small absolute limits; smdp: 1..3 options, n in 1..20, include_mdp_actions, "
                "seed None/int, every option and every primitive action id queried; used: tabular base touched (state/action lists, transition/"
                "reward/action matrices, absorbing vector, reachable set, ValueIteration) before 3 augment derivations and one sub_task, derived "
                "components + tabular views + ValueIteration result compared; half of all other bases are touched first too.  distinct = structural hash of the case; non-trivial = all "
                "(every base has >= 2 states)",
        "samples": [sample] if sample else [{"case": cases[0]}],
        "cases": len(cases), "timing_s": {"impl": round(t_impl, 1), "coq": round(t_coq, 1), "coq_cpu": round(cpu_coq, 1), "coq_terms": len(terms)}, "cases_by_kind": kinds, "discount_holders": holders, "input_representations": reps, "input_features": reps, "counters": ck.counts,
    })
