"""Structured generator of finite MDPs (shared by C01-C04, C06, C10, C14, C16, C17).

A case is a JSON-able dict (all numbers as 'n/d' strings = exact rationals; the
implementation receives float(Fraction), the Coq model the rational itself):

  n        number of states, ids 0..n-1
  nA       number of action ids 0..nA-1
  actions  list per state of available action ids (non-empty unless dead ends requested)
  trans    {"s,a": [[ns, "p"], ...]}   (probabilities on the grid k/8; may contain "0" entries)
  reward   {"s,a,ns": "r"}             (missing = 0)
  absorbing list of bool (explicit is_absorbing flag)
  init     [[s, "p"], ...]
  gamma    "n/d"
"""
from fractions import Fraction as F

GAMMAS_DISC = ["1/2", "3/4", "7/8", "9/10", "19/20"]


def _split_prob(rng, k, denom=8):
    """k positive parts summing to denom"""
    cuts = sorted(rng.sample(range(1, denom), k - 1)) if k > 1 else []
    parts = [b - a for a, b in zip([0] + cuts, cuts + [denom])]
    return [F(p, denom) for p in parts]


def gen_mdp(rng, nmax=5, amax=3, gamma=None, proper=False, nonpos=False, uniform_actions=False,
            zero_entries=True, implicit_absorbing=True, min_states=1, quarter_rewards=True,
            goal=True, absorbing_out="self"):
    n = rng.randint(min_states, nmax)
    nA = rng.randint(1, amax)
    if gamma is None:
        gamma = rng.choice(GAMMAS_DISC)
    undisc = F(gamma) == 1
    if undisc:
        nonpos = True
    # absorbing set
    absorbing = [False] * n
    if goal and n >= 2:
        for s in rng.sample(range(n), rng.randint(1, max(1, n // 3))):
            absorbing[s] = True
    elif goal and n == 1 and rng.random() < .5:
        absorbing[0] = True
    if proper and not any(absorbing):
        absorbing[rng.randrange(n)] = True
    actions = []
    for s in range(n):
        if uniform_actions:
            actions.append(list(range(nA)))
        else:
            k = rng.randint(1, nA)
            actions.append(sorted(rng.sample(range(nA), k)))
    # make sure every action id is used somewhere (else action_list shrinks: allowed, harmless)
    trans, reward = {}, {}
    # for proper MDPs: order the states so each non-absorbing state has, for every action,
    # positive probability of moving to a state strictly closer to the absorbing set
    order = [s for s in range(n) if absorbing[s]]
    rest = [s for s in range(n) if not absorbing[s]]
    rng.shuffle(rest)
    rank = {s: 0 for s in order}
    for i, s in enumerate(rest):
        rank[s] = i + 1
    implicit = set()
    for s in range(n):
        make_implicit = (implicit_absorbing and not absorbing[s] and not proper and rng.random() < .08)
        if make_implicit:
            implicit.add(s)
        dup_row = None
        for a in actions[s]:
            if make_implicit:
                trans["%d,%d" % (s, a)] = [[s, "1"]]
                continue
            if absorbing[s] and absorbing_out == "self":
                # explicit absorbing state: certain self-loop, reward possibly non-zero
                # (the planners must ignore it)
                trans["%d,%d" % (s, a)] = [[s, "1"]]
                if rng.random() < .4:
                    reward["%d,%d,%d" % (s, a, s)] = str(F(rng.randint(-4, 0 if nonpos else 4)))
                    if reward["%d,%d,%d" % (s, a, s)] == "0":
                        del reward["%d,%d,%d" % (s, a, s)]
                continue
            if dup_row is not None and rng.random() < .25:
                # duplicate of a previous action's row -> exact ties
                trans["%d,%d" % (s, a)] = [list(x) for x in dup_row[0]]
                for ns, r in dup_row[1].items():
                    reward["%d,%d,%d" % (s, a, ns)] = r
                continue
            k = rng.randint(1, min(3, n))
            succ = rng.sample(range(n), k)
            if proper and not absorbing[s]:
                closer = [x for x in range(n) if rank[x] < rank[s]]
                if not any(x in closer for x in succ):
                    succ[0] = rng.choice(closer)
            ps = _split_prob(rng, len(succ))
            row = [[ns, str(p)] for ns, p in zip(succ, ps)]
            if zero_entries and rng.random() < .15:
                others = [x for x in range(n) if x not in succ]
                if others:
                    row.append([rng.choice(others), "0"])
            rng.shuffle(row)
            trans["%d,%d" % (s, a)] = row
            rw = {}
            for ns, p in row:
                if rng.random() < .8:
                    if quarter_rewards and rng.random() < .3:
                        r = F(rng.randint(-16, 0 if nonpos else 16), 4)
                    else:
                        r = F(rng.randint(-4, 0 if nonpos else 4))
                    if r != 0:
                        rw[ns] = str(r)
                        reward["%d,%d,%d" % (s, a, ns)] = str(r)
            dup_row = (row, rw)
    # initial distribution
    k = rng.randint(1, min(3, n))
    starts = rng.sample(range(n), k)
    ps = _split_prob(rng, k)
    init = [[s, str(p)] for s, p in zip(starts, ps)]
    if zero_entries and rng.random() < .1:
        others = [x for x in range(n) if x not in starts]
        if others:
            init.append([rng.choice(others), "0"])
    return {"n": n, "nA": nA, "actions": actions, "trans": trans, "reward": reward,
            "absorbing": absorbing, "init": init, "gamma": gamma}


def reachable(case):
    """positive-probability reachable set, successors of absorbing states not expanded
    except that initial states are always expanded (what the code does)"""
    seen = set(s for s, p in case["init"] if F(p) > 0)
    frontier = list(seen)
    while frontier:
        s = frontier.pop()
        for a in case["actions"][s]:
            for ns, p in case["trans"]["%d,%d" % (s, a)]:
                if F(p) != 0 and ns not in seen:
                    seen.add(ns)
                    if not case["absorbing"][ns]:
                        frontier.append(ns)
    return seen


def arrays(case, state_list, action_list):
    """exact matrices in the given index order (lists of Fractions):
    P[s][a][ns], R[s][a][ns] (0 where P == 0), avail[s][a], absflag[s], init[s]"""
    nS, nA = len(state_list), len(action_list)
    sidx = {s: i for i, s in enumerate(state_list)}
    aidx = {a: i for i, a in enumerate(action_list)}
    P = [[[F(0)] * nS for _ in range(nA)] for _ in range(nS)]
    R = [[[F(0)] * nS for _ in range(nA)] for _ in range(nS)]
    av = [[False] * nA for _ in range(nS)]
    for s in state_list:
        for a in case["actions"][s]:
            av[sidx[s]][aidx[a]] = True
            for ns, p in case["trans"]["%d,%d" % (s, a)]:
                p = F(p)
                if ns not in sidx:
                    if p != 0:
                        raise KeyError("successor %r outside state list" % ns)
                    continue
                P[sidx[s]][aidx[a]][sidx[ns]] = p
                if p != 0:
                    R[sidx[s]][aidx[a]][sidx[ns]] = F(case["reward"].get("%d,%d,%d" % (s, a, ns), "0"))
    absf = [bool(case["absorbing"][s]) for s in state_list]
    ini = [F(0)] * nS
    for s, p in case["init"]:
        if s in sidx:
            ini[sidx[s]] = F(p)
    return P, R, av, absf, ini


def features(case):
    """structural features for the evidence's input distribution"""
    g = F(case["gamma"])
    rows = list(case["trans"].values())
    return {
        "n": case["n"], "nA": case["nA"], "gamma": case["gamma"],
        "undiscounted": g == 1,
        "n_absorbing": sum(case["absorbing"]),
        "stochastic": any(len([1 for ns, p in r if F(p) > 0]) > 1 for r in rows),
        "zero_entries": any(F(p) == 0 for r in rows for ns, p in r),
        "state_dependent_actions": len({tuple(a) for a in case["actions"]}) > 1,
        "multi_init": len([1 for s, p in case["init"] if F(p) > 0]) > 1,
        "neg_rewards": any(F(r) < 0 for r in case["reward"].values()),
        "pos_rewards": any(F(r) > 0 for r in case["reward"].values()),
    }
