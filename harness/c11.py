"""C11 — finite distributions obey the probability calculus.

Correspondence: generated distributions of every provided kind (DictDistribution from a dict and from
pairs, UniformDistribution, DeterministicDistribution, SoftmaxDistribution, TableDistribution built
directly and as a ProbabilityTable row) over mixed hashable Python events with colliding keys
(1 == 1.0 == True is ONE event), zero entries and unnormalised weights -> msdm (harness/impl/c11_impl.py)
-> every operation (items, prob on every event of the universe, support, mass, is_normalized,
marginalize, chain, condition, joint, a*d1 | b*d2, a*d1, d1 & d2, expectation, normalize, sample) is
compared with the mirror model model/Dist.v evaluated by vm_compute on Q (events = nat ids; theorems of
props/C11.v are about the same functions on R, tied by theory/DistTransfer.v).
 * +, * on dyadic inputs are exact; /, 1/n, softmax floats and the log/exp route of `&` are compared
   with an explicit tolerance (TOL) — the number of bit-exact agreements is reported;
 * SoftmaxDistribution's floats are tied to the R model `softmax` by one `interval` proof per entry
   (|prob (softmax scores) e - float| <= 1e-13, Coq-checked); downstream operations then run on the
   exact rationals of those floats;
 * sampling: scripted generator (random() / choice() return chosen values, random.choices itself is
   CPython's) compared exactly with `ksample`; two equally seeded generators must give identical
   sequences, and the recorded stream of a seeded generator fed to the model must reproduce its samples;
 * a mismatch is first checked against an independent exact oracle of the probability calculus
   (Fractions, by definition, no mirroring): if msdm's answer breaks the clause -> VIOLATION with the
   clause; else the mirror differs without a property-violating input (found=False).
"""
from fractions import Fraction as F
import math
import os
import time
from concurrent.futures import ThreadPoolExecutor
import vlib
from vlib import q, nat, natlist, coqlist

INFO = {
    "level": "proof",
    "coq_files": ["model/Dist.v", "theory/DistTheory.v", "theory/DistExample.v"],
    "trusted_base": [
        "model/Dist.v is evaluated on Q (NumQ); theorems are on R; tied by paramcoq transfer (theory/DistTransfer.v, props/C11.v C11_transfer)",
        "harness maps Python events to nat ids with Python's own ==/hash (a dict): 1, 1.0, True are one id",
        "__and__ is modelled in product form (C11_and_logexp: equal to msdm's log/exp form on R); msdm's floats are compared with tolerance 1e-12",
        "softmax: per-case Coq `interval` proofs bound |R-model softmax - msdm float| by 1e-13; later operations use the exact rationals of msdm's floats",
        "generated dyadic parameters reach the model exactly and msdm as the same doubles",
        "rng.choice / rng.random are external: the scripted generator returns chosen values; random.choices is CPython's implementation",
    ],
    "assumptions": [
        "weights >= 0; operations compared only where defined (positive mass for normalize / condition / & / sample)",
        "events listed by items() are pairwise distinct (dict-backed, UniformDistribution with check_unique, validated tables)",
        "TableDistribution.prob on tuple events OUTSIDE its support follows table-selector semantics (C12): observed, not gated",
    ],
}

TOL = F(1, 10**12)
SUBNORMAL_SLACK = F(1, 2**1064)
MIN_NORMAL = F(1, 2**1022)      # sampling clause: random()*total is rounded on the subnormal grid below this (see docs)
UNDERFLOW = F(1, 2**990)        # a common mass below this is not a positive float: `&` may raise there
RUN = "p%d_" % os.getpid()      # file-name prefix of this run inside work/C11 (runs may overlap)

# ---------------------------------------------------------------------------
# events: a universe of hashable Python values with collisions
# ---------------------------------------------------------------------------
UNIVERSE = [1, 1.0, True, 0, 0.0, False, 2, -1, 2.5, "a", "b", "ab", "", None,
            (0, 1), (False, 1.0), (1, 0), (1,), (True,), (), ("a", 1), (2,), (0, 0),
            frozenset({1, 2}), frozenset({2.0, True}), frozenset(), (1, (0, 1)), "1"]
ID = {}
for _v in UNIVERSE:
    ID.setdefault(_v, len(ID))
NID = len(ID)
POS_OF_ID = {}
for _p, _v in enumerate(UNIVERSE):
    POS_OF_ID.setdefault(ID[_v], []).append(_p)
IS_TUPLE_ID = {ID[v] for v in UNIVERSE if isinstance(v, tuple)}


def enc(v):
    if isinstance(v, bool):
        return ["b", bool(v)]
    if isinstance(v, int):
        return ["i", int(v)]
    if isinstance(v, float):
        return ["f", repr(float(v))]
    if isinstance(v, str):
        return ["s", v]
    if v is None:
        return ["n", 0]
    if isinstance(v, tuple):
        return ["t", [enc(y) for y in v]]
    if isinstance(v, frozenset):
        return ["fs", sorted((enc(y) for y in v), key=repr)]
    raise ValueError(v)


def dec(x):
    t, v = x
    if t == "b":
        return bool(v)
    if t == "i":
        return int(v)
    if t == "f":
        return float(v)
    if t == "s":
        return str(v)
    if t == "n":
        return None
    if t == "t":
        return tuple(dec(y) for y in v)
    if t == "fs":
        return frozenset(dec(y) for y in v)
    raise ValueError(x)


def eid(x):
    """id of an encoded event coming back from msdm (KeyError if it is not in the universe)"""
    return ID[dec(x)]


# ---------------------------------------------------------------------------
# generator
# ---------------------------------------------------------------------------
KINDS = ["dict", "pairs", "uniform", "det", "softmax", "table"]
DYADIC = ["0", "1/8", "1/4", "3/8", "1/2", "5/8", "3/4", "1", "3/2", "2", "1/16", "3"]


TINY = ["1/%d" % 2**k for k in (27, 30, 34, 40, 47, 53, 60)]
NEAR_ONE = [F(1, 2**17), F(1, 2**18), F(1, 2**19), F(1, 2**20), F(1, 10**6), F(8, 10**6)]


def gen_weights(rng, n):
    if n == 0:
        return []
    r = rng.random()
    if r < .45:     # normalised, k/8 with zeros
        cuts = sorted(rng.randint(0, 8) for _ in range(n - 1))
        parts = [F(b - a, 8) for a, b in zip([0] + cuts, cuts + [8])]
        if r < .17:  # NEARLY normalised: total 1 +- 2^-17..2^-20 / 1e-6 / 8e-6 (inside is_normalized's band)
            j = rng.choice([k for k in range(n) if parts[k] > 0])
            parts[j] += rng.choice(NEAR_ONE) * rng.choice([1, -1])
        return [str(p) for p in parts]
    if r < .475:    # an unnormalised measure whose weights and TOTAL are subnormal doubles (k * 2^-1074, total < 2^-1024)
        return ["%d/%d" % (rng.choice([0, 1, 2, 3, 5, 40, 1000, 12345, 2**20 + 3, 2**40 + 1]), 2**1074) for _ in range(n)]
    if r < .50:     # large magnitudes (an unnormalised measure), integral: also passed as ints
        return [rng.choice(["0", "1", "1000", "4096", "250000", "1048576", "3"]) for _ in range(n)]
    if r < .54:     # large magnitudes with NEAR TIES: relative gaps 1e-6 .. 1e-5 that must be kept apart
        base = rng.choice([10**3, 10**6, 10**9])
        return [str(base + rng.choice([0, 0, 1, -1, 2]) * max(1, base // rng.choice([10**5, 10**6]))) for _ in range(n)]
    if r < .60:     # probabilities next to 0 and 1: 2^-30, 1 - 2^-20, 1 - 2^-30
        ws = [rng.choice(["1/1073741824", "1048575/1048576", "1073741823/1073741824", "0", "1/1048576"]) for _ in range(n)]
        return ws
    if r < .67:     # tiny positive probabilities (2^-27 .. 2^-60, below any isclose(p, 0) band) next to ordinary ones
        ws = [rng.choice(TINY + TINY + ["1/2", "1/4", "1", "0"]) for _ in range(n)]
        return ws
    if r < .76:     # NON-DYADIC numbers: thirds, tenths, sevenths (float row sums are not exactly 1.0)
        fam = rng.choice([["1/3", "2/3", "1/6"], ["1/10", "2/10", "7/10", "3/10"], ["1/7", "2/7", "4/7"], ["1/10"]])
        return [rng.choice(fam) for _ in range(n)]
    ws = [rng.choice(DYADIC) for _ in range(n)]
    for i in range(n):
        if rng.random() < .2:
            ws[i] = "0"
    if r > .93:     # (rare) zero total mass: operations that need positive mass are then undefined
        ws = ["0"] * n
    return ws


def gen_dist(rng, kind=None, nmax=5, p_empty=0.0, pool=None):
    kind = kind or rng.choice(KINDS)
    n = 1 if kind == "det" else rng.choice([1, 2, 2, 3, 3, 4, nmax])
    if kind not in ("det", "softmax") and rng.random() < .045:
        n = rng.choice([7, 10, 10, 13, 16])     # larger supports, not powers of two (bisect depth, rows of ten)
    if pool:
        n = min(n, len(pool))
    if kind in ("dict", "pairs", "uniform") and rng.random() < p_empty:
        n = 0       # empty support: DictDistribution({}), from_pairs([]), UniformDistribution([])
    if kind == "uniform" and n and rng.random() < .2:
        # other sequence types: range(n) (events 0..n-1) or a str (events = its characters)
        if rng.random() < .5:
            n = min(n, 3)
            return {"kind": kind, "events": [enc(v) for v in (0, 1, 2)[:n]], "seq": "range",
                    "classmethod": rng.random() < .3}
        chars = rng.sample(["a", "b"], min(n, 2))
        return {"kind": kind, "events": [enc(c) for c in chars], "seq": "str", "classmethod": rng.random() < .3}
    distinct = kind in ("uniform", "table") or rng.random() < .6 or bool(pool)
    if distinct:
        ids = rng.sample(pool or range(NID), n)
        pos = [rng.choice(POS_OF_ID[i]) for i in ids]
    else:           # colliding keys on purpose
        base = rng.choice([0, 1, ID[(0, 1)], ID[(1,)], ID[frozenset({1, 2})]])
        pos = [rng.choice(POS_OF_ID[base]) for _ in range(min(n, 2))]
        pos += [rng.randrange(len(UNIVERSE)) for _ in range(n - len(pos))]
        rng.shuffle(pos)
    spec = {"kind": kind, "events": [enc(UNIVERSE[p]) for p in pos]}
    if kind in ("dict", "pairs", "table"):
        spec["weights"] = gen_weights(rng, n)
    if kind == "softmax":
        off = rng.choice([0, 0, 0, 100, -1000, 700])
        sc = [F(rng.randint(-12, 12), 4) + off for _ in range(n)]
        r = rng.random()
        if r < .25:
            sc = [sc[0]] * n                                      # ties
        elif r < .6 and n >= 2:
            # wide spread, the largest score NOT first, often two (tied or nearly tied) large scores
            spread = rng.choice([100, 700, 709, 709, 800, 1500])
            sc[0] = F(rng.randint(-12, 12), 4) + off
            top = sc[0] + spread + F(rng.randint(0, 3), 4)
            big = rng.sample(range(1, n), min(n - 1, rng.choice([1, 2, 2])))
            for j in range(1, n):
                sc[j] = top - (F(rng.randint(0, 2), 4) if j in big[1:] else 0) if j in big \
                    else sc[0] + F(rng.randint(0, 40), 4)
        spec["weights"] = [str(x) for x in sc]
        if rng.random() < .3:
            # scores in an EXACT numeric type (Python int / fractions.Fraction): `s - max` is then exact whatever
            # the common offset, so shift invariance must hold far beyond float64's integer range too
            big_off = rng.choice([0, 7, -1000, 10**6, -10**9, 2**53, 2**53 + 1, -2**53, 2**60, -10**20, 2**70 + 3])
            if rng.random() < .6:
                spec["num"] = "int"
                spec["weights"] = [str(rng.randint(-6, 6) + big_off) for _ in range(n)]
            else:
                spec["num"] = "fraction"
                spec["weights"] = [str(F(rng.randint(-24, 24), rng.choice([1, 3, 4, 7])) + big_off) for _ in range(n)]
        elif distinct and n >= 2 and rng.random() < .12:          # -inf scores (accepted by the constructor)
            for j in rng.sample(range(n), rng.randint(1, n - 1)):
                spec["weights"][j] = "-inf"
    if kind in ("dict", "pairs", "table") and n and all(F(w).denominator == 1 for w in spec["weights"]) \
            and rng.random() < .5:
        spec["num"] = "int"         # int weights instead of floats (0 and 1 exactly, large counts)
    allstr = all(isinstance(UNIVERSE[p_], str) for p_ in pos)
    if kind == "dict":
        spec["rep"] = rng.choice(["dict", "dict", "pairs_list", "copy"] + (["kwargs"] * 3 if allstr else []))
    if kind == "pairs":
        spec["rep"] = rng.choice(["list", "generator", "tuple"])
    if kind == "softmax":
        spec["rep"] = rng.choice(["dict", "dict", "pairs_list"] + (["kwargs"] * 3 if allstr else []))
    if kind == "uniform":
        spec["seq"] = rng.choice(["list", "tuple"])
        r = rng.random()
        if r < .2:
            spec["classmethod"] = True
        elif r < .4:
            spec["check_unique"] = False
    if kind == "det":
        spec["classmethod"] = rng.random() < .3
    if kind == "table":
        spec["via_row"] = rng.choice([False, False, "2d", "2d", "3d", "3d_tuple"])
        spec["dom"] = rng.choice(["list", "tuple"])
        spec["touch"] = rng.random() < .5
    return spec


def spec_ids(spec):
    return [eid(e) for e in spec["events"]]


SCALAR_IDS = sorted({ID[v] for v in UNIVERSE if isinstance(v, (str, int, float)) })
NUMVAL = {ID[1]: "1", ID[0]: "0", ID[2]: "2", ID[-1]: "-1", ID[2.5]: "5/2"}
COLLIDING = [ps for ps in POS_OF_ID.values() if len(ps) >= 2]


def gen_u(rng, ws, tot):
    """a value for rng.random(): 0, 1-2^-53, exactly on / 2^-40 next to a cumulative boundary, dyadic, 53-bit"""
    r = rng.random()
    if r < .15:
        return F(0)
    if r < .25:
        return 1 - F(1, 2**53)
    if r < .55 and tot > 0:
        c = sum(ws[:rng.randint(0, len(ws))]) / tot
        if c < 1 and c.denominator & (c.denominator - 1) == 0:
            if tot == 1 and rng.random() < .5:      # u*total is exact: a hair below / above the boundary
                c2 = c + rng.choice([1, -1]) * F(1, 2**40)
                if 0 <= c2 < 1:
                    return c2
            return c
        return F(rng.randrange(16), 16)
    if r < .8:
        k = rng.choice([2, 3, 4, 6, 10])
        return F(rng.randrange(2**k), 2**k)
    return F(rng.getrandbits(53), 2**53)


def gen_mutation(rng, d1):
    """an in-place update of a MUTABLE distribution after it has been sampled and queried: dict item assignment /
    del / pop / update / clear + refill on DictDistribution and SoftmaxDistribution objects; append / remove on
    the caller's list a UniformDistribution was built from.  None = no episode for this case."""
    kind = d1["kind"]
    if kind == "uniform":
        if d1.get("seq") != "list" or rng.random() > .4:
            return None
        cur = spec_ids(d1)
        ops = []
        for _ in range(rng.randint(1, 3)):
            if cur and rng.random() < .5:
                j = rng.randrange(len(cur))
                ops.append(["remove", enc(UNIVERSE[POS_OF_ID[cur[j]][0]])])
                cur.pop(j)
            else:
                free = [i for i in range(NID) if i not in cur]
                i_ = rng.choice(free)
                ops.append(["append", enc(UNIVERSE[rng.choice(POS_OF_ID[i_])])])
                cur.append(i_)
        return {"ops": ops, "use_between": rng.random() < .5}
    if kind not in ("dict", "pairs", "softmax") or rng.random() > .45:
        return None
    evs = list(d1["events"])
    def anyev():
        return enc(UNIVERSE[rng.randrange(len(UNIVERSE))])
    def wt():
        return rng.choice(DYADIC + ["0", "0", "1/3", "1/1073741824"])
    ops = []
    r = rng.random()
    if r < .25:     # clear and refill, often to a ONE-POINT distribution
        n_ = rng.choice([1, 1, 2, 3])
        ops.append(["clear_refill", [[anyev(), rng.choice(DYADIC[1:])] for _ in range(n_)]])
    else:
        for _ in range(rng.randint(1, 4)):
            q_ = rng.random()
            if q_ < .3 and evs:       # an existing event drops to probability zero
                ops.append(["set", rng.choice(evs), "0"])
            elif q_ < .55:            # a new (or existing) event gets weight
                ops.append(["set", anyev() if rng.random() < .7 or not evs else rng.choice(evs), wt()])
            elif q_ < .7 and evs:
                ops.append(["del", rng.choice(evs)])
            elif q_ < .8:
                ops.append(["pop", rng.choice(evs) if evs and rng.random() < .7 else anyev()])
            else:
                ops.append(["update", [[anyev(), wt()] for _ in range(rng.randint(1, 2))]])
    return {"ops": ops, "use_between": rng.random() < .4}


def apply_mutation(case, pre_items):
    """the contents the mutated object must have, by Python's own dict / list semantics (ids of the events)"""
    mu = case["mutation"]
    if case["d1"]["kind"] == "uniform":
        cur = [dec(e) for e in case["d1"]["events"]]
        for op in mu["ops"]:
            if op[0] == "append":
                cur.append(dec(op[1]))
            else:
                cur.remove(dec(op[1]))
        return {"kind": "uniform", "events": [enc(e) for e in cur], "seq": "list"}
    d = {}
    for e, p in pre_items:
        d[dec(e)] = vlib.frac(p)
    for op in mu["ops"]:
        if op[0] == "set":
            d[dec(op[1])] = F(op[2])
        elif op[0] == "del":
            d.pop(dec(op[1]), None)
        elif op[0] == "pop":
            d.pop(dec(op[1]), None)
        elif op[0] == "update":
            d.update({dec(e): F(w) for e, w in op[1]})
        elif op[0] == "clear_refill":
            d.clear()
            for e, w in op[1]:
                d[dec(e)] = F(w)
    return {"kind": "dict", "events": [enc(e) for e in d], "weights": [str(w) for w in d.values()], "rep": "dict",
            "exact_floats": True}


def derive_case(case, res):
    """the case whose d1 is the object AFTER the in-place update: judged by the whole pipeline like any other"""
    post = apply_mutation(case, res["d1"]["items"])
    n_ = len(post["events"])
    c2 = dict(case)
    c2.update(case["mutation"]["overrides"])
    c2["d1"] = post
    c2["mutation"] = None
    c2["derived_from_mutation"] = True
    return c2


def gen_case(rng):
    d1, d2 = gen_dist(rng, p_empty=.015), gen_dist(rng, p_empty=.05)
    if rng.random() < .1:       # numeric events only: expectation() with its default real_function applies
        d1 = gen_dist(rng, pool=sorted(NUMVAL))
    if rng.random() < .5 and d1["events"]:       # make overlapping supports likely
        d2 = gen_dist(rng, kind=rng.choice(["dict", "pairs", "softmax"]))
        take = d1["events"][:rng.randint(1, len(d1["events"]))]
        extra = [enc(UNIVERSE[rng.randrange(len(UNIVERSE))]) for _ in range(rng.randint(0, 2))]
        ev = take + extra
        rng.shuffle(ev)
        d2["events"] = ev
        if d2["kind"] == "softmax":
            d2["weights"] = [str(F(rng.randint(-8, 8), 4)) for _ in ev]
        else:
            d2["weights"] = gen_weights(rng, len(ev))
        for k_ in ("num", "rep"):
            d2.pop(k_, None)
    tiny_decides = rng.random() < .07 and d1["kind"] in ("dict", "pairs", "table") and len(d1["events"]) >= 2
    if tiny_decides:
        # the answer hangs on entries of probability 2^-27 .. 2^-60: they alone carry the likelihood / the overlap
        n1_ = len(d1["events"])
        tiny_ix = set(rng.sample(range(n1_), rng.randint(1, n1_ - 1)))
        d1["weights"] = [rng.choice(TINY) if k_ in tiny_ix else rng.choice(["1/2", "1/4", "1"]) for k_ in range(n1_)]
        d1.pop("num", None)
        d2 = {"kind": rng.choice(["dict", "pairs"]), "events": list(d1["events"]),
              "weights": [rng.choice(TINY + ["1"]) if k_ in tiny_ix else "0" for k_ in range(n1_)]}
    targets = rng.sample(range(NID), rng.randint(1, 3))
    proj_ids = [rng.choice(targets) if rng.random() < .8 else rng.randrange(NID) for _ in range(NID)]
    scalar_image = rng.random() < (.45 if d1["kind"] == "table" else .1)
    if scalar_image:
        # the projection's image mixes str and numeric events only (1 next to '1', 2.5, '', 'a', 0, -1):
        # anything that sorts / uniques the projected events through an array coerces them
        targets = rng.sample(SCALAR_IDS, rng.randint(2, 4))
        if rng.random() < .6:
            targets = list({ID[1], ID["1"]} | set(targets[:2]))
        proj_ids = [rng.choice(targets) for _ in range(NID)]
    lm = rng.random()
    if lm < .2:     # predicate returning bool
        like_ids = [["bool", rng.random() < .6] for _ in range(NID)]
    elif lm < .3:   # int likelihoods 0 / 1 / 2
        like_ids = [["int", rng.choice(["0", "1", "1", "2"])] for _ in range(NID)]
    else:           # float (or numpy float64) likelihoods with zeros and values next to 0
        ty = "np" if lm < .4 else "num"
        like_ids = [[ty, "0" if rng.random() < .3 else rng.choice(DYADIC[1:] + ["1/1073741824", "1000", "1/1099511627776", "1/3", "1/10"])] for _ in range(NID)]
    if rng.random() < .04:
        like_ids = [["num", "0"] for _ in range(NID)]
    if tiny_decides:    # positive likelihood exactly on the tiny entries
        tid = {spec_ids(d1)[k_] for k_ in tiny_ix}
        like_ids = [["num", rng.choice(["1", "1/2", "1/1099511627776"]) if i_ in tid else "0"] for i_ in range(NID)]
    big = rng.random() < .15
    real_ids = [str(F(rng.randint(-32, 32), 4) * (10**6 if big else 1)) for _ in range(NID)]
    sup1 = sorted(set(spec_ids(d1)))
    default_real = bool(sup1) and all(i in NUMVAL for i in sup1) and rng.random() < .8
    if default_real:    # expectation() with the default real_function (identity) on numeric events
        for i in sup1:
            real_ids[i] = NUMVAL[i]
    mutation = gen_mutation(rng, d1)
    if mutation:
        mutation["overrides"] = {"default_real": False, "neg": None, "shadow": None}
    mut_ids = set()
    if mutation:
        for op in mutation["ops"]:
            evs = [op[1]] if op[0] in ("set", "del", "pop", "append", "remove") else [e for e, _ in op[1]]
            mut_ids |= {eid(e) for e in evs}
    kern = {i: gen_dist(rng, nmax=3, p_empty=.05) for i in sorted(set(sup1) | mut_ids)}
    kern_shared = bool(sup1) and rng.random() < .15
    if kern_shared:     # the kernel hands out ONE distribution object for every event
        one_k = gen_dist(rng, nmax=4)
        kern = {i: one_k for i in kern}
    shadow = None
    if rng.random() < .6:       # same class, same events, other numbers: built and used before d1
        shadow = dict(d1)
        if d1["kind"] in ("dict", "pairs", "table"):
            shadow["weights"] = gen_weights(rng, len(d1["events"]))
            shadow.pop("num", None)
        elif d1["kind"] == "softmax":
            shadow["weights"] = [str(F(rng.randint(-8, 8), 4)) for _ in d1["events"]]
            shadow.pop("num", None)
    # scripted draws
    script = []
    n1 = len(d1["events"])
    ws = [F(w) for w in d1.get("weights", [])] if d1["kind"] in ("dict", "pairs", "table") else []
    tot = sum(ws)
    for _ in range(6):
        if d1["kind"] == "uniform":
            script.append(["i", rng.randrange(n1) if n1 else 0])
        else:
            script.append(["u", str(gen_u(rng, ws, tot))])
    gdraws = [str(gen_u(rng, ws, tot)) for _ in range(3)]
    a = rng.choice(["0", "1/4", "1/2", "1/2", "3/4", "1", "2", "1/1099511627776", "1/3", "1000000"])
    b = rng.choice(["0", "1/4", "1/2", "1/2", "3/4", "1", "3", "1/1152921504606846976", "7/10"])
    ab_int = F(a).denominator == 1 and F(b).denominator == 1 and rng.random() < .7
    neg = rng.choice(COLLIDING)
    neg = rng.sample(neg, 2)
    return {
        "universe": [enc(v) for v in UNIVERSE],
        "d1": d1, "d2": d2,
        "proj": [[enc(v), enc(UNIVERSE[POS_OF_ID[proj_ids[ID[v]]][0]])] for v in UNIVERSE],
        "like": [[enc(v), like_ids[ID[v]]] for v in UNIVERSE],
        "real": [[enc(v), real_ids[ID[v]]] for v in UNIVERSE],
        "kern": [[enc(UNIVERSE[POS_OF_ID[i][0]]), kern[i]] for i in sorted(kern)],
        "mutation": mutation,
        "a": a, "b": b, "ab_int": ab_int, "default_real": default_real, "shadow": shadow,
        "kern_shared": kern_shared, "tiny_decides": tiny_decides, "scalar_image": scalar_image,
        "gdraws": gdraws, "mixed_order": [rng.randrange(64) for _ in range(12)], "neg": [enc(UNIVERSE[neg[0]]), enc(UNIVERSE[neg[1]])],
        "script": script, "seed": rng.choice([0, 0, 1, rng.randrange(2**32), rng.randrange(2**32)]), "nseeded": 6,
        "_proj_ids": proj_ids, "_like": like_ids, "_real": real_ids,
    }


# ---------------------------------------------------------------------------
# model terms
# ---------------------------------------------------------------------------
PRE = """From Coq Require Import QArith List Bool Arith.
From MSDM Require Import base.Num base.NumInst model.Dist.
Import ListNotations.
Local Open Scope Q_scope.
Definition E := Nat.eqb.
Definition KD := @KDict Q nat. Definition KP := @KPairs Q nat. Definition KU := @KUniform Q nat.
Definition KV := @KDet Q nat. Definition KT := @KTable Q nat.
Definition it (k : @kind Q nat) : list (nat * Q) := @items Q NumQ nat E k.
Definition fn (l : list nat) (k : nat) : nat := nth k l 0%nat.
Definition fq (l : list Q) (k : nat) : Q := nth k l 0.
Definition fk (l : list (list (nat * Q))) (k : nat) : list (nat * Q) := nth k l [].
Definition oq (x : Q) := (Z.ltb (Qnum x) 0, Z.abs (Qnum x), Z.pos (Qden x)).
Definition od {K} (d : list (K * Q)) := map (fun kv => (fst kv, oq (snd kv))) d.
Definition view (k : @kind Q nat) (probes : list nat) :=
  let d := it k in
  (od d, map (fun e => oq (@kprob Q NumQ nat E k e)) probes, oq (@mass Q NumQ nat d),
   @is_normalized Q NumQ nat (1#100000) (1#100000000) d).
Definition run_case (k1 k2 : @kind Q nat) (probes f : list nat) (kern : list (list (nat * Q)))
    (w g : list Q) (a b : Q) (es : option (list nat)) (draws : list (Q * nat)) (gus : list Q) (es2 : option (list nat)) :=
  let d1 := it k1 in let d2 := it k2 in
  let es' := match es with Some l => l | None => @common Q nat E d1 d2 end in
  let ca := @condition_acc Q NumQ nat E (fq w) d1 in
  (0%nat, view k1 probes, view k2 probes,
   od (@marginalize Q NumQ nat nat E (fn f) d1),
   od (@chain Q NumQ nat nat E (fk kern) d1),
   (od (@condition Q NumQ nat E (fq w) d1), (od (fst ca), oq (snd ca))),
   od (@joint Q NumQ nat nat E E d1 d2),
   od (@mix Q NumQ nat E (@scale Q NumQ nat E d1 a) (@scale Q NumQ nat E d2 b)),
   od (@scale Q NumQ nat E d1 a),
   (od (@conj_on Q NumQ nat E es' d1 d2), @common Q nat E d1 d2,
    oq (@psum Q NumQ (map (fun e => Qred (@prob Q NumQ nat E d1 e * @prob Q NumQ nat E d2 e)) es'))),
   oq (@expectation Q NumQ nat (fq g) d1),
   od (@normalize Q NumQ nat E d1),
   map (fun ui => @ksample Q NumQ nat E k1 (fst ui) (snd ui)) draws,
   map (@sample Q NumQ nat E d1) gus,
   @is_normalized Q NumQ nat 0 (1#1024) d1,
   od (@normalize Q NumQ nat E (@mix Q NumQ nat E (@scale Q NumQ nat E d1 a) (@scale Q NumQ nat E d2 b))),
   od (@marginalize Q NumQ nat nat E (fn f) (@condition Q NumQ nat E (fq w) d1)),
   (let e2 := match es2 with Some l => l | None => @common Q nat E d1 d1 end in
    (od (@conj_on Q NumQ nat E e2 d1 d1),
     oq (@psum Q NumQ (map (fun e => Qred (@prob Q NumQ nat E d1 e * @prob Q NumQ nat E d1 e)) e2)))),
   od (@mix Q NumQ nat E d1 d1),
   od (@joint Q NumQ nat nat E E d1 d1)).
"""


def pairs_term(ids, ws):
    return coqlist("(%s, %s)" % (nat(i), q(w)) for i, w in zip(ids, ws))


def kind_term(spec, impl_items):
    """Gallina kind of a generated spec; a SoftmaxDistribution enters as the dict of msdm's floats"""
    k = spec["kind"]
    ids = spec_ids(spec)
    if k == "dict":
        return "(KD %s)" % pairs_term(ids, spec["weights"])
    if k == "pairs":
        return "(KP %s)" % pairs_term(ids, spec["weights"])
    if k == "uniform":
        return "(KU %s)" % natlist(ids)
    if k == "det":
        return "(KV %s)" % nat(ids[0])
    if k == "table":
        return "(KT %s %s)" % (natlist(ids), coqlist(q(w) for w in spec["weights"]))
    if k == "softmax":
        return "(KD %s)" % pairs_term([eid(e) for e, _ in impl_items], [p for _, p in impl_items])
    raise ValueError(k)


def case_term(case, res, draws):
    k1 = kind_term(case["d1"], res["d1"]["items"])
    k2 = kind_term(case["d2"], res["d2"]["items"])
    kern_items = {eid(k): v for k, v in res["kern_items"]}
    kern_spec = {eid(k): v for k, v in case["kern"]}
    kl = []
    for i in range(NID):
        if i in kern_spec:
            kl.append("(it %s)" % kind_term(kern_spec[i], kern_items[i]))
        else:
            kl.append("[]")
    w = [("1" if v else "0") if t == "bool" else v for t, v in case["_like"]]
    es = "None"
    if isinstance(res["and"], list):
        es = "(Some %s)" % natlist([eid(e) for e, _ in res["and"]])
    dr = coqlist("(%s, %s)" % (q(u), nat(i)) for u, i in draws)
    es2 = "None"
    if isinstance(res.get("self_and"), list):
        es2 = "(Some %s)" % natlist([eid(e) for e, _ in res["self_and"]])
    return "run_case %s %s %s %s %s %s %s %s %s %s %s %s %s" % (
        k1, k2, natlist(range(NID)), natlist(case["_proj_ids"]), coqlist(kl),
        coqlist(q(x) for x in w), coqlist(q(x) for x in case["_real"]),
        q(case["a"]), q(case["b"]), es, dr, coqlist(q(u) for u in case.get("gdraws", [])), es2)


# ---------------------------------------------------------------------------
# independent exact oracle of the probability calculus (violation search only)
# ---------------------------------------------------------------------------
def measure(spec, impl_items):
    """event id -> probability of the measure a spec denotes, by definition of the kind"""
    k = spec["kind"]
    ids = spec_ids(spec)
    m = {}
    if k in ("dict",):
        for i, w in zip(ids, spec["weights"]):
            m[i] = F(w)
    elif k == "pairs":
        for i, w in zip(ids, spec["weights"]):
            m[i] = m.get(i, 0) + F(w)
    elif k == "table":
        m = {i: F(w) for i, w in zip(ids, spec["weights"])}
    elif k == "uniform":
        m = {i: F(1, len(ids)) for i in ids}
    elif k == "det":
        m = {ids[0]: F(1)}
    elif k == "softmax":        # checked separately by interval; here: msdm's floats
        m = {eid(e): vlib.frac(p) for e, p in impl_items}
    return m


def close(x, y, scale=0):
    """|x - y| <= 1e-12 * max(|y|, scale): relative to the exact value (scale: magnitude of the summands where
    terms cancel, i.e. the forward error bound of a float sum); SUBNORMAL_SLACK = 2^-1064 absolute covers the rounding of
    up to 1024 products to the subnormal grid (2^-1074 each): it is invisible for any value that is a normal float"""
    return abs(x - y) <= TOL * max(abs(y), scale) + SUBNORMAL_SLACK


def xid(x):
    """id of an encoded event; an event outside the universe (e.g. the string '2.5' produced by a coercion)
    gets a key of its own, so that it shows up as a wrong event instead of crashing the oracle"""
    try:
        return ID[dec(x)]
    except (KeyError, TypeError, ValueError):
        return ("outside-universe", repr(x))


def as_measure(items, joint=False):
    m = {}
    for e, p in items:
        if isinstance(p, str):
            return None
        if joint:
            try:
                t = dec(e)
                key = (ID[t[0]], ID[t[1]])
            except (KeyError, TypeError, IndexError, ValueError):
                key = ("outside-universe", repr(e))
        else:
            key = xid(e)
        if key in m:
            return None
        m[key] = vlib.frac(p)
    return m


def same_measure(m, want, extra=0):
    """extra: additional ABSOLUTE slack per entry, used by the two renormalising operations whose float products
    are rounded to the subnormal grid before the division (see norm_slack)"""
    if m is None:
        return False
    for k in set(m) | set(want):
        y = want.get(k, F(0))
        if abs(m.get(k, F(0)) - y) > TOL * abs(y) + SUBNORMAL_SLACK + extra:
            return False
    return True


def norm_slack(n, normaliser):
    """float-range-aware bound for p_i*w_i / sum_j p_j*w_j (condition) and exp(l_i)/sum exp(l_j) (&): each of the n
    products is rounded with absolute error <= 2^-1075 once it is subnormal, which the division by the normaliser
    turns into at most (n+2)*2^-1074/normaliser on every entry.  It is < 1e-290 for any normaliser that is an
    ordinary double and grows to O(1) only when the normaliser itself is a handful of subnormal units."""
    return F(n + 2, 2**1074) / normaliser


def oracle(case, res, subnormal=False):
    """(subnormal: kept for the callers; the bounds below are float-range aware for every input)
    returns {op: clause} for every operation whose msdm result breaks its clause of the property"""
    bad = {}
    m1 = measure(case["d1"], res["d1"]["items"])
    m2 = measure(case["d2"], res["d2"]["items"])
    pos1 = all(v >= 0 for v in m1.values())
    mass1 = sum(m1.values())
    f = case["_proj_ids"]
    w = [F(1 if v else 0) if t == "bool" else F(v) for t, v in case["_like"]]
    g = [F(x) for x in case["_real"]]
    a, b = F(case["a"]), F(case["b"])

    def chk(op, want, joint=False, defined=True, extra=0):
        r = res[op]
        if not defined:
            return
        if not isinstance(r, list):
            bad[op] = "%s raises %s although the operation is defined" % (op, r.get("error"))
            return
        if not same_measure(as_measure(r, joint), want, extra):
            got_ = as_measure(r, joint)
            if got_ is not None and any(isinstance(k_, tuple) and k_ and k_[0] == "outside-universe" for k_ in got_):
                bad[op] = "%s returns events that are not events of the inputs (wrong events)" % op
            elif op == "marginalize":
                bad[op] = "marginalize does not sum the probabilities of merged events"
            else:
                bad[op] = "%s is not the measure the probability calculus prescribes" % op

    want = {}
    for x, p in m1.items():
        want[f[x]] = want.get(f[x], 0) + p
    chk("marginalize", want)
    if isinstance(res["marginalize"], list):
        got = as_measure(res["marginalize"])
        if got is not None and not close(sum(got.values()), mass1):
            bad["marginalize"] = "marginalize does not preserve total mass"
    kern_items = {eid(k): v for k, v in res["kern_items"]}
    kern_spec = {eid(k): v for k, v in case["kern"]}
    want = {}
    for x, p in m1.items():
        mk = measure(kern_spec[x], kern_items[x] if isinstance(kern_items[x], list) else [])
        for y, py in mk.items():
            want[y] = want.get(y, 0) + p * py
    chk("chain", want)
    W = sum(p * w[x] for x, p in m1.items() if w[x] > 0)
    # condition is decided wherever the float-range-aware bound says something (slack < 1/4); where the normaliser is
    # a few subnormal units msdm may also raise ZeroDivisionError (every product underflows to 0): undecidable there
    kept_n = sum(1 for x in m1 if w[x] > 0)
    cs = norm_slack(kept_n, W) if W > 0 else F(1)
    chk("condition", {x: p * w[x] / W for x, p in m1.items() if w[x] > 0} if W > 0 else {}, defined=W > 0 and cs < F(1, 4), extra=cs)
    if W > 0 and cs < F(1, 4) and isinstance(res["condition"], list):
        got = as_measure(res["condition"])
        if got is not None and abs(sum(got.values()) - 1) > TOL + SUBNORMAL_SLACK + kept_n * cs:
            bad["condition"] = "conditioning on a positive-mass event is not normalised"
    chk("joint", {(x, y): p * pq for x, p in m1.items() for y, pq in m2.items()}, joint=True)
    want = {}
    for x, p in m1.items():
        want[x] = want.get(x, 0) + a * p
    for x, p in m2.items():
        want[x] = want.get(x, 0) + b * p
    chk("mix", want)
    chk("rmul", {x: a * p for x, p in m1.items()})
    N = sum(p * m2[x] for x, p in m1.items() if x in m2)
    # a common mass below the NORMAL float range (products are subnormal or underflow): msdm's log/exp route
    # raises or returns a visibly unnormalised answer there (observed, reported, not gated)
    common_n = sum(1 for x in m1 if x in m2)
    ns = norm_slack(common_n, N) if N > 0 else F(1)
    and_defined = N > 0 and ns < F(1, 4)
    chk("and", {x: p * m2[x] / N for x, p in m1.items() if x in m2} if N > 0 else {}, defined=and_defined, extra=ns)
    if and_defined and isinstance(res["and"], list) and "and" not in bad:
        try:
            if sorted(map(str, (xid(e) for e, _ in res["and"]))) != sorted(map(str, (x for x in m1 if x in m2))):
                bad["and"] = "conjunction is not supported on the common support"
        except KeyError:
            pass
    ex = res["expectation"]
    wantx = sum(g[x] * p for x, p in m1.items())
    if isinstance(ex, (dict, str)) or not close(vlib.frac(ex), wantx, scale=sum(abs(g[x]) * p for x, p in m1.items())):
        bad["expectation"] = "expectation is not the probability-weighted sum"
    # normalize: sums of (sub)normal doubles lose nothing that matters and p/total is one correctly rounded division:
    # decided for EVERY positive total, down to a single subnormal unit
    chk("normalize", {x: p / mass1 for x, p in m1.items()} if mass1 > 0 else {}, defined=mass1 > 0)
    if res.get("fresh_same") is False:
        bad["sample-seed"] = "an updated distribution and an equal freshly built one gave different seeded sample sequences"
    # equal seeds, equal sequences: whatever the distributions are
    bt = res.get("batches") or {}
    if bt.get("same") is False:
        bad["sample-seed"] = "equally seeded generators gave different batches (k > 1) of samples"
    if (res.get("mixed") or {}).get("same") is False:
        bad["sample-seed"] = "equally seeded generators gave different sample sequences"
    # sampling: only events of positive probability
    if pos1 and mass1 >= MIN_NORMAL:
        for dr in res["draws"]:
            if "error" in dr:
                bad["sample"] = "sample raises %s on a distribution of positive mass" % dr["error"]
            elif m1.get(xid(dr["event"]), 0) <= 0:
                bad["sample"] = "sample returned an event of probability zero"
        mx = res.get("mixed") or {}
        if "error" in mx or mx.get("same") is False:
            bad["sample-seed"] = "equally seeded generators gave different sample sequences"
        for nm, ev in mx.get("seq", []):
            if nm == "d1":
                mm = m1
            elif nm == "u1":        # the one-point uniform distribution on d1's first listed event
                mm = {eid(res["d1"]["support"][0]): F(1)}
            elif nm == "d2":
                mm = m2
            else:
                jx = int(nm[1:])
                ks, ki = case["kern"][jx][1], res["kern_items"][jx][1]
                mm = measure(ks, ki if isinstance(ki, list) else [])
            if not (mm and sum(mm.values()) >= MIN_NORMAL and all(v >= 0 for v in mm.values())):
                continue
            if isinstance(ev, str):
                bad["sample"] = "sample raises %s on a distribution of positive mass" % ev
            elif mm.get(xid(ev), 0) <= 0:
                bad["sample"] = "sample returned an event of probability zero"
        more = [d_ for d_ in res.get("gdraws", [])]
        kd = res.get("kdraw") or {}
        more += [{"event": e} for e in kd.get("events", [])] + ([kd] if "event" in kd else [])
        for dr in more:
            if "error" in dr:
                bad["sample"] = "sample raises %s on a distribution of positive mass" % dr["error"]
            elif m1.get(xid(dr["event"]), 0) <= 0:
                bad["sample"] = "sample returned an event of probability zero"
        sd = res["seeded"]
        if "error" in sd:
            bad["sample"] = "sample raises %s on a distribution of positive mass" % sd["error"]
        else:
            if any(m1.get(xid(e), 0) <= 0 for e in sd["seq"] + sd["plain_seq"]):
                bad["sample"] = "sample returned an event of probability zero"
            if not (sd["same_recording"] and sd["same_plain"]):
                bad["sample-seed"] = "equally seeded generators gave different sample sequences"
    return bad


# ---------------------------------------------------------------------------
# softmax: Coq-checked interval bounds
# ---------------------------------------------------------------------------
SM_PRE = """From Coq Require Import Reals List Arith.
From Interval Require Import Tactic.
From MSDM Require Import base.Num base.NumInst model.Dist theory.DistTheory theory.DistExample.
Import ListNotations.
Local Open Scope R_scope.
Ltac sm m :=
  rewrite (softmax_prob_at Nat.eqb nat_eqb_spec m)
    by (cbv [of_pairs fold_left dset dupd Nat.eqb fst snd]; discriminate);
  cbv [of_pairs fold_left dset dupd dget Nat.eqb fst snd map Rsum fold_right];
  interval with (i_prec 170).
"""


def rlit(x):
    f = vlib.frac(x)
    if f.denominator == 1:
        return "(%d)" % f.numerator
    return "((%d) / %d)" % (f.numerator, f.denominator)


def softmax_goals(spec, items):
    """one Goal per entry of msdm's SoftmaxDistribution: |prob (softmax (dict scores)) e - float| <= 1e-13
    (entries that underflow are thereby compared with 0 absolutely).  A score of -inf is an event of
    probability exactly 0 that does not take part in the normaliser: the model's scores are the finite
    ones (such specs have pairwise distinct events).  Returns (goals, problems)."""
    ids = spec_ids(spec)
    problems = []
    neg_inf = {i for i, w in zip(ids, spec["weights"]) if w == "-inf"}
    fin = [(i, w) for i, w in zip(ids, spec["weights"]) if w != "-inf"]
    scores = coqlist("(%s, %s)" % (nat(i), rlit(w)) for i, w in fin)
    # dict(zip(events, scores)): the LAST score of a key counts
    last = {}
    for i, w in fin:
        last[i] = F(w)
    m = max(last.values())
    goals = []
    tot = F(0)
    for e, p in items:
        if isinstance(p, str):
            problems.append("non-finite probability %s" % p)
            continue
        tot += vlib.frac(p)
        if eid(e) in neg_inf:
            if vlib.frac(p) != 0:
                problems.append("an event of score -inf has probability %s" % float(vlib.frac(p)))
            continue
        goals.append("Goal Rabs (@prob R NumR nat Nat.eqb (softmax (of_pairs Nat.eqb %s)) %s - %s) <= 1/10^13.\n"
                     "Proof. sm %s. Qed.\n" % (scores, nat(eid(e)), rlit(p), rlit(m)))
    if not problems and abs(tot - 1) > TOL:
        problems.append("softmax is not normalised: total %s" % float(tot))
    return goals, problems


def run_softmax(ctx, jobs):
    """jobs: list of (label, [goal text...]).  Returns set of labels whose proofs failed."""
    if not jobs:
        return set(), 0
    nsh = max(1, min(ctx.jobs, 8, len(jobs)))
    shards = [jobs[i::nsh] for i in range(nsh)]

    def one(args):
        k, sh = args
        text = SM_PRE + "".join("".join(g) for _, g in sh)
        ok, out, err = ctx.coq_script(text, name="%ssoftmax_%d" % (RUN, k), timeout=600)
        if ok:
            return set()
        failed = set()
        for j, (label, goals) in enumerate(sh):       # locate the failing case(s)
            ok2, _, _ = ctx.coq_script(SM_PRE + "".join(goals), name="%ssoftmax_%d_%d" % (RUN, k, j), timeout=120)
            if not ok2:
                failed.add(label)
        return failed

    with ThreadPoolExecutor(max_workers=nsh) as ex:
        outs = list(ex.map(one, list(enumerate(shards))))
    failed = set()
    for o in outs:
        failed |= o
    return failed, sum(len(g) for _, g in jobs)


# ---------------------------------------------------------------------------
# comparison
# ---------------------------------------------------------------------------
def unq(x):
    """(negative?, |numerator|, denominator) printed by the model -> Fraction"""
    return F(-int(x[1]) if x[0] else int(x[1]), int(x[2]))


def unq_items(l):
    return [(x[0], unq(x[1])) for x in l]


def cmp_items(py, model, stats, joint=False):
    """py: [[enc event, fj]] from msdm; model: [(id, Fraction)] (joint: (a, b, Fraction)).
    Returns None if equal as (event, probability) sets within TOL, else a description."""
    if not isinstance(py, list):
        return "msdm raised %s" % py.get("error")
    try:
        if joint:
            pk = []
            for e, p in py:
                t = dec(e)
                pk.append(((ID[t[0]], ID[t[1]]), p))
            mk = [((x[0], x[1]), x[2]) for x in model]
        else:
            pk = [(eid(e), p) for e, p in py]
            mk = [(x[0], x[1]) for x in model]
    except (KeyError, TypeError, IndexError) as ex:
        return "event outside the universe in msdm's result: %r" % (ex,)
    if any(isinstance(p, str) for _, p in pk):
        return "non-finite probability in msdm's result"
    if [k for k, _ in pk] != [k for k, _ in mk]:
        stats["order_drift"] += 1
    ps, ms = sorted(pk), sorted(mk)
    if [k for k, _ in ps] != [k for k, _ in ms]:
        return "supports differ: msdm %s model %s" % ([k for k, _ in ps], [k for k, _ in ms])
    for (k, p), (_, mval) in zip(ps, ms):
        pv = vlib.frac(p)
        if pv == mval:
            stats["exact"] += 1
        else:
            stats["inexact"] += 1
            if not close(pv, mval):
                return "probability of event id %s: msdm %s model %s" % (k, float(pv), float(mval))
    return None


def run(ctx):
    tier = ctx.tier
    ncases = int(os.environ.get("C11_CASES", 300 if tier == "quick" else 4000))
    t0 = time.time()
    timing = {}
    if ctx.replay_case:
        cases = [ctx.replay_case["detail"]["case"]]
    else:
        cases = [gen_case(ctx.rng) for _ in range(ncases)]
    impl = ctx.impl("c11_impl.py", {"cases": cases}, shards=min(ctx.jobs, 4 if tier == "quick" else 16))["results"]

    timing["impl_s"] = round(time.time() - t0, 1)
    # in-place update episodes: the object AFTER the update becomes d1 of a derived case, judged like any other
    n_generated = len(cases)
    origin = list(range(len(cases)))
    mut_problems = []
    for i in range(n_generated):
        res = impl[i]
        if "error" in res or not cases[i].get("mutation"):
            continue
        mu = res.get("mutated")
        if not isinstance(mu, dict) or "error" in mu or "error" in mu.get("result", {}):
            mut_problems.append((i, "C11:mutation:raises:" + str((mu or {}).get("error", (mu or {}).get("result", {}).get("error", "?"))).split(":")[0],
                                 {"mutated": mu}, True))
            continue
        try:
            c2 = derive_case(cases[i], res)
        except (KeyError, ValueError) as ex:
            mut_problems.append((i, "C11:mutation:cannot-derive-expected-contents", {"error": repr(ex)}, False))
            continue
        r2 = mu["result"]
        r2["fresh_same"] = mu.get("fresh_same")
        r2["fresh_items_same"] = mu.get("fresh_items_same")
        cases.append(c2)
        impl.append(r2)
        origin.append(i)
    stats = {"exact": 0, "inexact": 0, "order_drift": 0}
    cnt = {"out_of_quantifier": 0, "table_prob_nonmember_tuple_probes": 0,
           "table_prob_nonmember_tuple_anomalies": 0, "boundary_draws": 0, "float_boundary_ambiguous": 0,
           "scripted_draws": 0, "seeded_draws": 0, "single_support_shortcuts": 0,
           "colliding_key_dists": 0, "zero_entry_dists": 0, "unnormalised_dists": 0, "softmax_goals": 0,
           "nearly_normalised_dists": 0, "softmax_wide_spread_max_not_first": 0, "softmax_neg_inf_scores": 0,
           "generic_draws": 0, "k_draws": 0, "near_boundary_draws": 0, "duplicate_event_constructions": 0,
           "empty_dists": 0, "int_weight_dists": 0, "large_magnitude_dists": 0, "tiny_probability_dists": 0,
           "falsy_event_dists": 0, "det_on_falsy_event": 0, "shadow_object_first": 0, "default_real_function": 0,
           "int_scalars": 0, "seed_zero": 0, "and_with_zero_probability_entry": 0, "condition_all_rejected": 0,
           "uniform_str_support_nonmember_probes": 0, "uniform_str_support_nonmember_anomalies": 0,
           "model_skipped_subnormal_floats": 0, "softmax_exact_typed_scores": 0,
           "softmax_exact_scores_beyond_float_integer_range": 0, "model_evaluations_retried": 0,
           "model_evaluation_failed_judged_by_oracle": 0, "and_normaliser_underflows_in_floats": 0,
           "tiny_weight_entries_2^-27..2^-60": 0, "tiny_decides_cases": 0, "posterior_carried_by_tiny_entries": 0,
           "and_common_mass_below_2^-50": 0, "tiny_scalars": 0, "near_tie_large_dists": 0, "non_dyadic_dists": 0,
           "supports_of_10_or_more": 0, "kernel_shared_object": 0,
           "and_subnormal_common_mass_unnormalised_answers": 0, "projection_image_mixes_str_and_numbers": 0,
           "in_place_update_episodes": 0, "in_place_update_to_one_point": 0,
           "subnormal_total_mass_dists": 0, "sample_zero_probability_with_subnormal_total": 0,
           "table_projection_image_mixes_str_and_numbers": 0, "seeded_batches_k>1": 0, "global_generator_consumed": 0,
           "generator_consumption_drift": 0, "sample_mirror_drift": 0, "sample_k_shape_drift": 0, "mixed_sequence_draws": 0}
    reps = {}
    FALSY = {ID[v] for v in UNIVERSE if not v}

    def tally(sp):
        kinds_count[sp["kind"]] += 1
        ids = spec_ids(sp)
        tag = sp["kind"] + ":" + "/".join(str(sp[k]) for k in ("rep", "seq", "classmethod", "check_unique", "via_row", "dom", "touch", "num") if k in sp)
        reps[tag] = reps.get(tag, 0) + 1
        if not ids:
            cnt["empty_dists"] += 1
        if sp.get("num") == "int":
            cnt["int_weight_dists"] += 1
        if any(i in FALSY for i in ids):
            cnt["falsy_event_dists"] += 1
            if sp["kind"] == "det":
                cnt["det_on_falsy_event"] += 1
        if sp["kind"] in ("dict", "pairs", "table") and ids:
            fw = [F(w) for w in sp["weights"]]
            if 0 < abs(sum(fw) - 1) <= F(1, 10**5):
                cnt["nearly_normalised_dists"] += 1
            if any(w >= 1000 for w in fw):
                cnt["large_magnitude_dists"] += 1
                pos_ = sorted(w for w in fw if w > 0)
                if any(0 < (b_ - a_) <= a_ * F(1, 10**5) for a_, b_ in zip(pos_, pos_[1:])):
                    cnt["near_tie_large_dists"] += 1
            cnt["tiny_weight_entries_2^-27..2^-60"] += sum(1 for w in fw if F(1, 2**60) <= w <= F(1, 2**27))
            if any(w.denominator & (w.denominator - 1) and w.denominator < 1000 for w in fw):
                cnt["non_dyadic_dists"] += 1
            if any(0 < w <= F(1, 2**20) or 0 < 1 - w <= F(1, 2**20) for w in fw):
                cnt["tiny_probability_dists"] += 1
        if len(ids) >= 10:
            cnt["supports_of_10_or_more"] += 1
    kinds_count = {k: 0 for k in KINDS}
    pair_count = {}
    terms, meta, sm_jobs = [], [], []
    sm_info = {}
    draws_of = {}

    def viol(sig, i, extra, found):
        d = {"case": cases[origin[i]]}      # a derived case is replayed through the case it was derived from
        if origin[i] != i:
            d["after_in_place_update"] = {"ops": cases[origin[i]]["mutation"]["ops"], "expected_contents": cases[i]["d1"]}
        d.update(extra)
        ctx.violation(sig, d, found=found)

    for i_, sig_, extra_, found_ in mut_problems:
        viol(sig_, i_, extra_, found_)

    def add_softmax(i, nm, sp, items):
        if origin[i] != i:      # d2 and the kernels of a derived case are the objects of its parent: proved there
            return
        goals, probs = softmax_goals(sp, items)
        fin = [F(w) for w in sp["weights"] if w != "-inf"]
        if max(fin) - fin[0] >= 100 or (sp["weights"][0] == "-inf"):
            cnt["softmax_wide_spread_max_not_first"] += 1
        if any(w == "-inf" for w in sp["weights"]):
            cnt["softmax_neg_inf_scores"] += 1
        if probs:
            viol("C11:softmax:" + probs[0].split(":")[0][:60], i, {"which": nm, "spec": sp, "problems": probs, "items": items}, True)
        if sp.get("num") in ("int", "fraction"):
            cnt["softmax_exact_typed_scores"] += 1
            if any(abs(x) >= 2**53 for x in fin):
                cnt["softmax_exact_scores_beyond_float_integer_range"] += 1
        if goals:
            label = (i, nm, len(sm_jobs))
            sm_info[label] = (sp, items)
            sm_jobs.append((label, goals))

    for i, (case, res) in enumerate(zip(cases, impl)):
        if "error" in res:
            viol("C11:impl-error:" + res["error"].split(":")[0], i, {"error": res["error"], "trace": res.get("trace")}, True)
            continue
        try:
            # draws for the model: scripted ones, then the recorded stream of the seeded generator
            draws = [(F(v), 0) if k == "u" else (F(0), int(v)) for k, v in case["script"]]
            sd = res["seeded"]
            if "error" not in sd:
                log = list(sd["log"])
                uses = 0 if (case["d1"]["kind"] == "det" or (case["d1"]["kind"] != "uniform" and res["d1"]["len"] == 1)) else 1
                if len(log) != uses * len(sd["seq"]):
                    # how many numbers a sample() call consumes is not specified by the property: drift.
                    # The recorded stream can then not be aligned with the mirror: the seeded draws are
                    # judged by the property's clauses only.
                    cnt["generator_consumption_drift"] += 1
                    log = []
                    uses = 1
                for j in range(len(sd["seq"]) if (log or uses == 0) else 0):
                    if uses == 0:
                        draws.append((F(0), 0))
                    else:
                        k, v = log[j]
                        draws.append((vlib.frac(v), 0) if k == "u" else (F(0), int(v)))
            draws_of[i] = draws
            kerr = [v["error"] for _, v in res["kern_items"] if isinstance(v, dict)]
            if kerr:
                viol("C11:construct:raises:" + kerr[0].split(":")[0], i,
                     {"error": kerr[0], "what": "constructing a kernel distribution raises"}, True)
                continue
            allitems = [("d1", res["d1"]["items"]), ("d2", res["d2"]["items"])] + [("kern", v) for _, v in res["kern_items"]]
            nonfin = [(nm, it) for nm, it in allitems if any(isinstance(p, str) for _, p in it)]
            if nonfin:
                viol("C11:items:non-finite-probability", i,
                     {"which": nonfin[0][0], "items": nonfin[0][1], "what": "a constructed distribution has a nan/inf probability"}, True)
                continue
            if any(vlib.frac(p).denominator.bit_length() > 300 for _, it in allitems for _, p in it):
                # softmax underflow region: floats like 1e-308 have 1000-bit denominators, exact gcds in the
                # model take seconds.  The distribution itself is still tied to the R model by its interval
                # goals; the operations on it are judged by the exact Python oracle of the calculus instead.
                cnt["model_skipped_subnormal_floats"] += 1
                why = oracle(case, res, subnormal=True)
                m1s_ = measure(case["d1"], res["d1"]["items"])
                if 0 < sum(m1s_.values()) < MIN_NORMAL:
                    cnt["subnormal_total_mass_dists"] += 1
                    evs_ = [d_["event"] for d_ in res["draws"] + res.get("gdraws", []) if "event" in d_]
                    if any(m1s_.get(xid(e_), 0) <= 0 for e_ in evs_):
                        cnt["sample_zero_probability_with_subnormal_total"] += 1
                m1_, m2_ = measure(case["d1"], res["d1"]["items"]), measure(case["d2"], res["d2"]["items"])
                n_ = sum(p_ * m2_[x_] for x_, p_ in m1_.items() if x_ in m2_)
                if 0 < n_ < UNDERFLOW:
                    cnt["and_normaliser_underflows_in_floats"] += 1
                    got_ = as_measure(res["and"]) if isinstance(res["and"], list) else None
                    if got_ is not None and not close(sum(got_.values()), 1):
                        cnt["and_subnormal_common_mass_unnormalised_answers"] += 1
                if why:
                    op = sorted(why)[0]
                    viol("C11:%s:%s" % (op, why[op][:80]), i, {"failing_clause": why, "impl": res}, True)
                continue
            terms.append(case_term(case, res, draws))
            meta.append(i)
        except KeyError as ex:
            why = oracle(case, res)
            if why:
                op = sorted(why)[0]
                viol("C11:%s:%s" % (op, why[op][:80]), i, {"failing_clause": why, "impl": res, "error": repr(ex)}, True)
            else:
                viol("C11:event-outside-universe", i, {"error": repr(ex)}, False)
            continue
        for nm, other in (("d1", "d2"), ("d2", "d1")):
            sp = case[nm]
            tally(sp)
            ids = spec_ids(sp)
            if len(set(ids)) < len(ids):
                cnt["colliding_key_dists"] += 1
            wsum = None
            if "weights" in sp and sp["kind"] != "softmax":
                if any(F(w) == 0 for w in sp["weights"]):
                    cnt["zero_entry_dists"] += 1
                if sum(F(w) for w in sp["weights"]) != 1:
                    cnt["unnormalised_dists"] += 1
            if sp["kind"] == "softmax" and isinstance(res[nm]["items"], list):
                add_softmax(i, nm, sp, res[nm]["items"])
        for k, sp in case["kern"]:
            tally(sp)
            it = dict((eid(a), b) for a, b in res["kern_items"]).get(eid(k))
            if sp["kind"] == "softmax" and isinstance(it, list):
                add_softmax(i, "kern", sp, it)
        cnt["shadow_object_first"] += bool(case.get("shadow"))
        cnt["default_real_function"] += bool(case.get("default_real"))
        cnt["int_scalars"] += bool(case.get("ab_int"))
        cnt["seed_zero"] += case["seed"] == 0
        cnt["tiny_decides_cases"] += bool(case.get("tiny_decides"))
        if case.get("scalar_image"):
            img = {case["_proj_ids"][x_] for x_ in spec_ids(case["d1"])}
            if any(isinstance(UNIVERSE[POS_OF_ID[x_][0]], str) for x_ in img) and any(not isinstance(UNIVERSE[POS_OF_ID[x_][0]], str) for x_ in img):
                cnt["projection_image_mixes_str_and_numbers"] += 1
                cnt["table_projection_image_mixes_str_and_numbers"] += case["d1"]["kind"] == "table"
        cnt["kernel_shared_object"] += bool(case.get("kern_shared"))
        cnt["tiny_scalars"] += any(0 < F(case[k_]) <= F(1, 2**27) for k_ in ("a", "b"))
        pk = case["d1"]["kind"] + "x" + case["d2"]["kind"]
        pair_count[pk] = pair_count.get(pk, 0) + 1

    # model evaluation and the softmax interval proofs run concurrently
    with ThreadPoolExecutor(max_workers=2) as ex:
        fut_sm = ex.submit(run_softmax, ctx, sm_jobs)
        vals = ctx.coq(PRE, terms, shard=max(10, len(terms) // max(1, ctx.jobs) + 1) if tier == "quick" else 120,
                       tag=RUN + "cases")
        # a failed evaluation is retried once on its own (a transient failure of one shard — e.g. two checks
        # of C11 running at the same time, a timeout under load — must not take 100 cases with it)
        redo = [k for k, v in enumerate(vals) if isinstance(v, vlib.CoqError)]
        if redo and len(redo) <= max(40, len(vals) // 2):
            again = ctx.coq(PRE, [terms[k] for k in redo], shard=10, tag=RUN + "retry")
            for k, v in zip(redo, again):
                vals[k] = v
            cnt["model_evaluations_retried"] = len(redo)
            redo = [k for k in redo if isinstance(vals[k], vlib.CoqError)]
            if redo and len(redo) <= 40:        # one term per file: an error in one term hides the others of its file
                again = ctx.coq(PRE, [terms[k] for k in redo], shard=1, tag=RUN + "retry1")
                for k, v in zip(redo, again):
                    vals[k] = v
        timing["model_s"] = round(time.time() - t0 - timing["impl_s"], 1)
        sm_failed, ngoals = fut_sm.result()
        timing["model_and_interval_s"] = round(time.time() - t0 - timing["impl_s"], 1)
    cnt["softmax_goals"] = ngoals
    for label in sorted(sm_failed):
        i, nm = label[0], label[1]
        sp, items = sm_info[label]
        # exhibit the failing clause independently: exp(s - max) with the difference taken exactly
        fin = {}
        for e_, w_ in zip(spec_ids(sp), sp["weights"]):
            if w_ != "-inf":
                fin[e_] = F(w_)
        top = max(fin.values())
        wts = {e_: math.exp(float(x - top)) for e_, x in fin.items()}
        z = sum(wts.values())
        worst = max((abs(float(vlib.frac(p)) - wts.get(eid(e), 0.0) / z) for e, p in items if not isinstance(p, str)), default=0.0)
        detail = {"which": nm, "spec": sp, "items": items, "max_abs_deviation_from_exp(s-max)/Z": worst,
                  "what": "Coq `interval` could not bound |prob (softmax scores) e - msdm float| by 1e-13"}
        if worst > 1e-9:
            viol("C11:softmax:probabilities are not exp(s - max)/Z (shift invariance broken)", i, detail, True)
        else:
            viol("C11:softmax:interval-proof-fails", i, detail, False)

    distinct = set()
    nops = 0
    coq_failed = []
    for i, v in zip(meta, vals):
        case, res = cases[i], impl[i]
        if isinstance(v, vlib.CoqError):
            coq_failed.append((i, str(v)[:800]))
            continue
        try:
            (_, v1, v2, m_marg, m_chain, (m_cond, (m_kept, m_norm)), m_joint, m_mix, m_rmul,
             (m_and, m_common, m_N), m_exp, m_normz, m_draws, m_gdraws, m_isn2, m_c1, m_c2,
             (m_sand, m_sN), m_smix, m_sjoint) = v
            m_c1, m_c2, m_sand, m_smix = unq_items(m_c1), unq_items(m_c2), unq_items(m_sand), unq_items(m_smix)
            m_sjoint = [(x[0], x[1], unq(x[2])) for x in m_sjoint]
            m_sN = unq(m_sN)
            v1 = (unq_items(v1[0]), [unq(x) for x in v1[1]], unq(v1[2]), v1[3])
            v2 = (unq_items(v2[0]), [unq(x) for x in v2[1]], unq(v2[2]), v2[3])
            m_marg, m_chain, m_cond, m_kept = map(unq_items, (m_marg, m_chain, m_cond, m_kept))
            m_mix, m_rmul, m_and, m_normz = map(unq_items, (m_mix, m_rmul, m_and, m_normz))
            m_joint = [(x[0], x[1], unq(x[2])) for x in m_joint]
            m_norm, m_N, m_exp = unq(m_norm), unq(m_N), unq(m_exp)
        except (TypeError, ValueError, IndexError) as ex:
            viol("C11:coq-evaluation-failed", i, {"error": "unexpected shape of the model value: %r" % (ex,)}, False)
            continue
        distinct.add(vlib.structural_hash([case["d1"], case["d2"], case["_proj_ids"], case["_like"], case["kern"]]))
        problems = {}       # op -> description of the mirror difference

        # ---- the two distributions themselves ----
        for nm, mv in (("d1", v1), ("d2", v2)):
            items_m, probs_m, mass_m, isn_m = mv
            r = res[nm]
            c = cmp_items(r["items"], items_m, stats)
            if c:
                problems[nm + ".items"] = c
            if [eid(e) for e in r["support"]] != [x[0] for x in items_m] or r["len"] != len(items_m):
                problems[nm + ".support"] = "support/len differ from items"
            member = {x[0] for x in items_m}
            for e_id_pos, (pv, pm) in enumerate(zip(r["probs"], [probs_m[ID[u]] for u in UNIVERSE])):
                u_id = ID[UNIVERSE[e_id_pos]]
                nonmember_tuple = case[nm]["kind"] == "table" and u_id in IS_TUPLE_ID and u_id not in member
                if nonmember_tuple:     # C12 territory (table selector semantics): observed, not gated
                    cnt["table_prob_nonmember_tuple_probes"] += 1
                    if isinstance(pv, dict) or isinstance(pv, str) or vlib.frac(pv) != 0:
                        cnt["table_prob_nonmember_tuple_anomalies"] += 1
                    continue
                if case[nm]["kind"] == "uniform" and case[nm].get("seq") == "str" and u_id not in member:
                    # a str support answers `e in support` with Python's substring test: non-member probes
                    # raise TypeError (non-str) or match substrings ("" and "ab" in "ab"): observed, not gated
                    cnt["uniform_str_support_nonmember_probes"] += 1
                    if isinstance(pv, (dict, str)) or vlib.frac(pv) != 0:
                        cnt["uniform_str_support_nonmember_anomalies"] += 1
                    continue
                if isinstance(pv, dict):
                    problems[nm + ".prob"] = "prob(%r) raises %s" % (UNIVERSE[e_id_pos], pv["error"])
                elif isinstance(pv, str) or not close(vlib.frac(pv), pm):
                    problems[nm + ".prob"] = "prob(%r): msdm %s model %s" % (UNIVERSE[e_id_pos], pv, pm)
            if isinstance(r["mass"], dict) or isinstance(r["mass"], str) or not close(vlib.frac(r["mass"]), mass_m):
                problems[nm + ".mass"] = "sum(values): msdm %s model %s" % (r["mass"], mass_m)
            elif abs(abs(mass_m - 1) - max(F(1, 10**5) * max(abs(mass_m), 1), F(1, 10**8))) > F(1, 10**9):   # off the isclose edge
                if r["is_normalized"] != isn_m:
                    problems[nm + ".is_normalized"] = "is_normalized: msdm %s model %s" % (r["is_normalized"], isn_m)
            nops += 5
        items1, probs1, mass1 = v1[0], v1[1], v1[2]

        # ---- operations ----
        for op, mval, joint in (("marginalize", m_marg, False), ("chain", m_chain, False),
                                ("joint", m_joint, True), ("mix", m_mix, False), ("rmul", m_rmul, False)):
            c = cmp_items(res[op], mval, stats, joint)
            nops += 1
            if c:
                problems[op] = c
        if m_norm > 0:
            c = cmp_items(res["condition"], m_cond, stats)
            if c:
                problems["condition"] = c
        elif not m_kept:
            if res["condition"] != []:
                problems["condition"] = "no event of positive weight: expected the empty distribution"
        else:
            cnt["out_of_quantifier"] += 1
        if m_norm == 0 and not m_kept:
            cnt["condition_all_rejected"] += 1
        if m_kept and all(dict(items1).get(x, 1) <= F(1, 2**27) for x, _ in m_kept) and m_norm > 0:
            cnt["posterior_carried_by_tiny_entries"] += 1
        if 0 < m_N <= F(1, 2**50):
            cnt["and_common_mass_below_2^-50"] += 1
        if m_N > 0 and any(p == 0 for _, p in m_and):
            cnt["and_with_zero_probability_entry"] += 1
        if 0 < m_N < UNDERFLOW:
            cnt["and_normaliser_underflows_in_floats"] += 1
        elif m_N > 0:
            c = cmp_items(res["and"], m_and, stats)
            if c:
                problems["and"] = c
            elif sorted(x[0] for x in m_and) != sorted(m_common):
                problems["and"] = "result support is not the common support"
        else:
            cnt["out_of_quantifier"] += 1
        ex = res["expectation"]
        gsc = sum(abs(F(case["_real"][x])) * p for x, p in items1)
        if isinstance(ex, dict) or isinstance(ex, str) or not close(vlib.frac(ex), m_exp, scale=gsc):
            problems["expectation"] = "expectation: msdm %s model %s" % (ex, m_exp)
        if mass1 > 0:
            c = cmp_items(res["normalize"], m_normz, stats)
            if c:
                problems["normalize"] = c
        else:
            cnt["out_of_quantifier"] += 1
        nops += 4

        # ---- sampling ----
        # GATING are the three clauses of the property: (1) only events of positive probability are returned,
        # (2) a one-point distribution returns its sole event, (3) equally seeded generators give identical
        # sequences.  Which event a given random number selects, and how many numbers a call consumes, is
        # compared with the mirror model (random.choices' rule) as DRIFT only.
        floaty = case["d1"]["kind"] == "softmax" or any(
            F(w).denominator & (F(w).denominator - 1) for w in case["d1"].get("weights", []))
        nscript = len(case["script"])
        cum = []
        acc = F(0)
        for _, p in items1:
            acc += p
            cum.append(acc)
        single = len(items1) == 1
        in_q = bool(items1) and mass1 >= MIN_NORMAL and all(p >= 0 for _, p in items1)

        def judge(ev, what):
            try:
                k_ = eid(ev)
            except KeyError:
                problems["sample"] = "%s returned %r, not an event of the universe" % (what, ev)
                return None
            if in_q and probs1[k_] <= 0:
                problems["sample"] = "%s returned event id %s of probability zero" % (what, k_)
            if in_q and single and k_ != items1[0][0]:
                problems["sample"] = "%s on a one-point distribution did not return its sole event" % what
            return k_

        def mirror(k_, md, u, what):
            if md is None or k_ is None or k_ == md[1]:
                return
            inexact = floaty or F(float(u) * float(acc)) != u * acc     # u*total is rounded in floats
            if inexact and acc > 0 and any(abs(u * acc - c) <= F(1, 10**12) * max(1, acc) for c in cum):
                cnt["float_boundary_ambiguous"] += 1
            else:
                cnt["sample_mirror_drift"] += 1

        py_draws = list(res["draws"])
        sd = res["seeded"]
        if "error" not in sd:
            py_draws += [{"event": e} for e in sd["seq"]]
            for e in sd["plain_seq"]:
                judge(e, "sample (seeded generator)")
            if not (sd["same_recording"] and sd["same_plain"]):
                problems["sample-seed"] = "equally seeded generators gave different sample sequences"
        elif in_q:
            problems["sample"] = "seeded sampling raises %s" % sd["error"]
        for j, pd in enumerate(py_draws):
            md = m_draws[j] if j < len(m_draws) else None
            u, ix = draws_of[i][j] if j < len(draws_of[i]) else (F(0), 0)
            if j < nscript:
                cnt["scripted_draws"] += 1
            else:
                cnt["seeded_draws"] += 1
            if "error" in pd:
                if in_q:
                    problems["sample"] = "sample raises %s on a distribution of positive mass" % pd["error"]
                continue
            k_ = judge(pd["event"], "sample")
            if single and case["d1"]["kind"] != "uniform":
                cnt["single_support_shortcuts"] += 1
            if j < nscript and single and pd.get("used", 0) != (1 if case["d1"]["kind"] == "uniform" else 0):
                cnt["generator_consumption_drift"] += 1
            if acc > 0 and any(u * acc == c for c in cum[:-1]):
                cnt["boundary_draws"] += 1
            if j < len(m_draws):
                mirror(k_, md, u, "sample")
        nops += 1

        # ---- the generic FiniteDistribution.sample on every kind, k = 1 and k = 3 ----
        gus = [F(u) for u in case.get("gdraws", [])]
        for j, (pd, md, u) in enumerate(zip(res.get("gdraws", []), m_gdraws, gus)):
            cnt["generic_draws"] += 1
            if "error" in pd:
                if in_q:
                    problems["sample"] = "FiniteDistribution.sample raises %s on a distribution of positive mass" % pd["error"]
                continue
            k_ = judge(pd["event"], "FiniteDistribution.sample")
            if acc > 0 and any(u * acc == c for c in cum[:-1]):
                cnt["boundary_draws"] += 1
            if acc > 0 and not single and any(0 < abs(u * acc - c) <= F(1, 2**39) * acc for c in cum[:-1]):
                cnt["near_boundary_draws"] += 1
            if pd.get("used", 0) != (0 if single else 1):
                cnt["generator_consumption_drift"] += 1
            mirror(k_, md, u, "FiniteDistribution.sample")
        kd = res.get("kdraw")
        if kd is not None and gus:
            cnt["k_draws"] += 1
            if "error" in kd:
                if in_q:
                    problems["sample"] = "sample(k=%d) raises %s on a distribution of positive mass" % (len(gus), kd["error"])
            else:
                evs = kd["events"] if "events" in kd else [kd["event"]]
                got = [judge(e, "sample(k=%d)" % len(gus)) for e in evs]
                if ("events" in kd) == single or (not single and (len(evs) != len(gus) or kd["used"] != len(gus))):
                    cnt["sample_k_shape_drift"] += 1        # bare event for one-point supports, a list of k otherwise
                elif not single:
                    for g_, md, u in zip(got, m_gdraws, gus):
                        mirror(g_, md, u, "sample(k)")
        # ---- one shared generator, several distributions, run twice from equal seeds ----
        mx = res.get("mixed")
        if mx is not None:
            if "error" in mx:
                problems["sample-seed"] = "mixed sampling sequence raises %s" % mx["error"]
            else:
                cnt["mixed_sequence_draws"] += len(mx["seq"])
                if not mx["same"]:
                    problems["sample-seed"] = "equally seeded generators gave different sequences when several distributions share the generator"
                kspec = [v for _, v in case["kern"]]
                kit = [v for _, v in res["kern_items"]]
                for nm, ev in mx["seq"]:
                    if nm == "d1":
                        mm = {x: p for x, p in items1}
                    elif nm == "d2":
                        mm = {x: p for x, p in v2[0]}
                    elif nm == "u1":
                        mm = {eid(res["d1"]["support"][0]): F(1)}
                    else:
                        jx = int(nm[1:])
                        mm = measure(kspec[jx], kit[jx] if isinstance(kit[jx], list) else [])
                    ok_q = bool(mm) and sum(mm.values()) >= MIN_NORMAL and all(p >= 0 for p in mm.values())
                    if isinstance(ev, str):
                        if ok_q:
                            problems["sample"] = "sample of %s raises %s on a distribution of positive mass" % (nm, ev)
                    elif ok_q and mm.get(eid(ev), 0) <= 0:
                        problems["sample"] = "sample of %s returned an event of probability zero" % nm
        # ---- batched draws (k > 1), private generators equally seeded, global generators in different states ----
        bt = res.get("batches")
        if bt is not None:
            if "error" in bt:
                problems["sample-seed"] = "batched sampling sequence raises %s" % bt["error"]
            else:
                cnt["seeded_batches_k>1"] += sum(1 for x in bt["seq"] if x[1] > 1)
                if not bt["same"]:
                    problems["sample-seed"] = "equally seeded generators gave different batches (k > 1) of samples"
                if bt["global_touched"]:
                    cnt["global_generator_consumed"] += 1
                kspec = [v for _, v in case["kern"]]
                kit = [v for _, v in res["kern_items"]]
                for nm, k_, evs in bt["seq"]:
                    mm = ({x: p for x, p in items1} if nm == "d1" else {x: p for x, p in v2[0]} if nm == "d2"
                          else measure(kspec[int(nm[1:])], kit[int(nm[1:])] if isinstance(kit[int(nm[1:])], list) else []))
                    ok_q = bool(mm) and sum(mm.values()) >= MIN_NORMAL and all(p >= 0 for p in mm.values())
                    if isinstance(evs, str):
                        if ok_q:
                            problems["sample"] = "sample(k=%d) of %s raises %s on a distribution of positive mass" % (k_, nm, evs)
                        continue
                    lst = [evs[1]] if evs and evs[0] == "bare" else evs
                    if ok_q and any(mm.get(xid(e), 0) <= 0 for e in lst):
                        problems["sample"] = "sample(k=%d) of %s returned an event of probability zero" % (k_, nm)
        nops += 4

        if case.get("derived_from_mutation"):
            cnt["in_place_update_episodes"] += 1
            cnt["in_place_update_to_one_point"] += len(items1) == 1
            if res.get("fresh_same") is False:
                problems["sample-seed"] = "an updated distribution and an equal freshly built one gave different seeded sample sequences"
            if res.get("fresh_items_same") is False:
                problems["reuse"] = "an updated distribution lists other items than an equal freshly built one"
        # ---- second-order uses of the same objects ----
        r2 = res.get("isnorm_custom")
        if r2 is not None and abs(abs(mass1 - 1) - F(1, 1024)) > F(1, 10**9):
            if r2 != m_isn2:
                problems["d1.is_normalized(rtol=0, atol=2^-10)"] = "msdm %s model %s" % (r2, m_isn2)
        if sum(p for _, p in m_mix) > 0:
            c = cmp_items(res["compose_mix_normalize"], m_c1, stats)
            if c:
                problems["compose:(a*d1|b*d2).normalize()"] = c
        else:
            cnt["out_of_quantifier"] += 1
        if m_norm > 0 or not m_kept:
            c = cmp_items(res["compose_condition_marginalize"], m_c2, stats)
            if c:
                problems["compose:condition.marginalize"] = c
        # one object as both operands; results asked again later; the same spec built again; caller's containers
        if "self_and" in res:
            if m_sN >= UNDERFLOW:
                c = cmp_items(res["self_and"], m_sand, stats)
                if c:
                    problems["self:d1 & d1"] = c
            c = cmp_items(res["self_mix"], m_smix, stats)
            if c:
                problems["self:d1 | d1"] = c
            c = cmp_items(res["self_joint"], m_sjoint, stats, True)
            if c:
                problems["self:d1.joint(d1)"] = c
            for key_, what in (("stale_ok", "reuse:stale-result"), ("rebuild_same", "reuse:rebuild"),
                               ("inputs_unchanged", "reuse:caller-objects")):
                if res.get(key_) is not True:
                    problems[what] = str(res.get(key_))[:300]
            nops += 6
        if res.get("repeat_ok") is not True:
            problems["reuse"] = "asking the same object again gave a different answer: %s" % (res.get("repeat_ok"),)
        for nm in ("d1", "d2"):
            if res["items_after"][nm] != res[nm]["items"]:
                problems["reuse"] = "%s was changed by the operations applied to it" % nm
        ng = res.get("neg")
        if ng:
            cnt["duplicate_event_constructions"] += 1
            if not (isinstance(ng["uniform"], dict) and ng["uniform"]["error"].startswith("AssertionError")):
                problems["assumption:uniform-accepts-duplicate-events"] = str(ng["uniform"])
            if not (isinstance(ng["table"], dict) and ng["table"]["error"].startswith("ValueError")):
                problems["assumption:table-accepts-duplicate-events"] = str(ng["table"])
        nops += 5

        if problems:
            why = oracle(case, res)
            detail = {"mirror_differences": problems, "impl": res}
            if why:
                op = sorted(why)[0]
                detail["failing_clause"] = why
                if " raises " in why[op]:
                    sig = "C11:%s:raises:%s" % (op, why[op].split(" raises ")[1].split(":")[0].split(" ")[0])
                else:
                    sig = "C11:%s:%s" % (op, why[op][:80])
                viol(sig, i, detail, True)
            else:
                op = sorted(problems)[0]
                detail["correspondence"] = "model/Dist.v (theorems props/C11.v) and msdm differ on %s" % ", ".join(sorted(problems))
                viol("C11:mirror-differs:%s" % op, i, detail, False)

    # cases whose model term could not be evaluated even on retry: the exact oracle of the calculus judges
    # msdm's answers; only a systemic failure (the model no longer evaluates) is a broken correspondence
    systemic = len(coq_failed) > max(3, len(meta) // 20)
    for i, err in coq_failed:
        why = oracle(cases[i], impl[i])
        if why:
            op = sorted(why)[0]
            viol("C11:%s:%s" % (op, why[op][:80]), i, {"failing_clause": why, "impl": impl[i], "model_error": err}, True)
        elif systemic:
            viol("C11:coq-evaluation-failed", i, {"error": err, "failed_cases": len(coq_failed), "of": len(meta)}, False)
        else:
            cnt["model_evaluation_failed_judged_by_oracle"] += 1
    for fn in os.listdir(ctx.workdir):          # this run's generated files
        if fn.startswith("C11_" + RUN) or fn.startswith(".C11_" + RUN):
            try:
                os.remove(os.path.join(ctx.workdir, fn))
            except OSError:
                pass

    ctx.coverage.update({
        "evaluations": nops,
        "distinct_nontrivial": len(distinct),
        "rule": "cases = (d1, d2, projection, kernel, likelihood, real function, scalars, draws); d1, d2 and every kernel value drawn "
                "from the kinds dict / from_pairs / uniform / deterministic / softmax / table (direct or ProbabilityTable row), 1..5 entries "
                "over a universe of %d Python values forming %d events (1 == 1.0 == True, (0,1) == (False,1.0), frozensets, tuples, None, str), "
                "colliding keys on purpose, weights dyadic with zero entries, normalised / NEARLY normalised (total 1 +- 2^-17..2^-20, 1e-6, 8e-6) / unnormalised / (rarely) zero mass, "
                "softmax scores with offsets, ties, spreads 100/700/709/800/1500 with the largest score not first, -inf scores, scores as Python int / Fraction with common offsets up to 2^70 / -1e20, likelihoods "
                "numeric with zeros or boolean, scripted draws incl. u = 0, 1-2^-53 and exact cumulative boundaries, 6 seeded draws; "
                "distinct = structural hash of (d1, d2, functions); non-trivial = every generated case (>= 1 entry, all operations run)" % (len(UNIVERSE), NID),
        "samples": [{"case": {k: v for k, v in cases[0].items() if k != "universe"}, "impl": impl[0]}] if cases else [],
        "cases": n_generated, "derived_cases_after_in_place_update": len(cases) - n_generated, "distributions_by_kind": kinds_count, "kind_pairs": pair_count, "representations": reps,
        "probabilities_bit_exact": stats["exact"], "probabilities_within_tolerance": stats["inexact"],
        "order_drift": stats["order_drift"], "tolerance": str(TOL), "timing": timing,
        "extra_obligations": cnt["softmax_goals"], "extra_discharged": cnt["softmax_goals"] - len(sm_failed),
        **cnt,
    })
