"""Structured generator of finite tabular POMDPs (C07; reusable by C08, C09, C14).

A case is a gen_mdp-style JSON-able dict (numbers are 'n/d' strings = exact rationals; the
implementation receives float(Fraction), the Coq model the rational itself).  It is a SUPERSET of a
gen_mdp case (gen_mdp.arrays / impl/build.py:build_mdp work on it unchanged):

  n, nA     states 0..n-1, actions 0..nA-1; by default EVERY action is available in every state
  actions   [[0..nA-1]] * n   (state-dependent subsets only with gen_pomdp(state_actions=...))
  trans     {"s,a": [[ns, "p"], ...]}    probabilities on the grid k/8, may list "0" entries
  reward    {"s,a,ns": "r"}              missing = 0
  absorbing [bool]*n                     the declared is_absorbing flag
  init      [[s, "p"], ...]
  gamma     "n/d"
  nO        observations 0..nO-1; each has positive probability for some (a, ns)
  obs       {"a,ns": [[o, "p"], ...]}    observation kernel of (action, NEXT state), grid k/8, "0" entries
  obs_tiny  [[a, ns, o, k], ...]: kernel row (a, ns) gives observation o probability exactly 2^-k
            (k = 30 or 40; taken from the row's largest entry).  o is, when possible, an observation that
            action a emits nowhere else, so Pr(o | b, a) <= 2^-k for EVERY belief: possible but very rare
            (below numpy's isclose atol) -- the posterior is then a ratio of tiny numbers
  obs_ghost / state_ghost (optional): never-possible outcomes listed with explicit "0" (see gen_pomdp)
  obs_kinds per action: "informative" | "uninformative" (same row for every ns: all posteriors equal)
            | "twin" (two observations with identical columns: their posteriors coincide)
            | "deterministic" (observation is a function of ns)

Kernels are action dependent and, when nO == n, never symmetric as an n x n matrix, so that code
indexing Ob[a][o][ns] or Ob[a][s][o] instead of Ob[a][ns][o] computes something else.
Every state is reachable under msdm's reachable_states rule, so state_list == [0..n-1]
(unless force_reachable=False).  Optional keys: obs_tiny, obs_near_twin, reward_scale (see gen_pomdp).
"""
from fractions import Fraction as F

import gen_mdp
from gen_mdp import _split_prob, GAMMAS_DISC


def _obs_row(rng, nO, must=None, zero_entries=True, den=None):
    k = rng.randint(1, min(3, nO))
    if must is None:
        os_ = rng.sample(range(nO), k)
    else:
        os_ = [must] + rng.sample([o for o in range(nO) if o != must], k - 1)
    row = [[o, str(p)] for o, p in zip(os_, _split_prob(rng, k, den()) if den else _split_prob(rng, k))]
    if zero_entries and rng.random() < .2:
        others = [o for o in range(nO) if o not in os_]
        if others:
            row.append([rng.choice(others), "0"])
    rng.shuffle(row)
    return row


def _obs_kernel(rng, n, nO, kind, den=None):
    """rows[ns] = [[o, p], ...] for one action"""
    if kind == "uninformative":
        row = _obs_row(rng, nO, den=den)
        return [[list(e) for e in row] for _ in range(n)]
    if kind == "deterministic":
        f = [rng.randrange(nO) for _ in range(n)]
        return [[[f[ns], "1"]] for ns in range(n)]
    if kind == "twin" and nO >= 2:
        o1, o2 = rng.sample(range(nO), 2)
        rest = [o for o in range(nO) if o not in (o1, o2)]
        rows = []
        for ns in range(n):
            h = rng.randint(0 if rest else 4, 4)           # each twin gets h/8
            row = []
            if h > 0:
                row += [[o1, str(F(h, 8))], [o2, str(F(h, 8))]]
            elif rng.random() < .5:
                row += [[o1, "0"]]
            left = 8 - 2 * h
            if left > 0:
                k = rng.randint(1, min(2, len(rest)))
                os_ = rng.sample(rest, k)
                if left < k:
                    os_, k = os_[:1], 1
                cuts = sorted(rng.sample(range(1, left), k - 1)) if k > 1 else []
                parts = [b - a for a, b in zip([0] + cuts, cuts + [left])]
                row += [[o, str(F(p, 8))] for o, p in zip(os_, parts)]
            rng.shuffle(row)
            rows.append(row)
        return rows
    return [_obs_row(rng, nO, den=den) for _ in range(n)]


def obs_arrays(case, action_list, state_list, obs_list):
    """exact Ob[a][ns][o] (Fractions) in the given index orders"""
    oidx = {o: i for i, o in enumerate(obs_list)}
    out = []
    for a in action_list:
        m = []
        for ns in state_list:
            row = [F(0)] * len(obs_list)
            for o, p in case["obs"]["%d,%d" % (a, ns)]:
                if o in oidx:
                    row[oidx[o]] = F(p)
                elif F(p) != 0:
                    raise KeyError("observation %r outside observation list" % o)
            m.append(row)
        out.append(m)
    return out


def _symmetric(mat):
    n = len(mat)
    return all(len(r) == n for r in mat) and all(mat[i][j] == mat[j][i] for i in range(n) for j in range(n))


def gen_pomdp(rng, nmax=5, amax=3, omax=4, gamma=None, min_states=2, zero_entries=True,
              nonpos=False, goal=True, absorbing_selfloop=.7, tiny=0.0, near_twin=0.0, big_rewards=0.0,
              force_reachable=True, ghosts=0.0, state_actions=0.0, nondyadic=0.0, tiny_trans=0.0, tiny_init=0.0,
              many_absorbing=0.0):
    """All of the following are OPT-IN (default off; when off they consume no randomness, so the
    default stream of cases is stable for every property that shares this generator):
    tiny        probability that the POMDP gets very rare (2^-30 / 2^-40) observation entries (obs_tiny)
    near_twin   probability that a "twin" kernel gets one column moved by 2^-30 in one row: two posteriors
                that differ by ~1e-9 relative and must NOT be merged (obs_near_twin = [[a, ns, o1, o2, k]])
    big_rewards probability that all rewards are scaled by 1000, 2^16 or 10^9 (exactly representable) and given ONE
                sign (a signed sum of huge terms that cancels is ill-conditioned in floats: not what C07 is about)
    nondyadic   probability that probabilities / rewards / initial distribution are thirds, sevenths and tenths
                instead of eighths (case["nondyadic"] = True): float rows do not sum to exactly 1.0, the doubles
                msdm gets differ from the rationals the model gets by ~1e-16 relative
    tiny_trans  probability of transition branches of probability 2^-30 / 2^-40 / 2^-50 (trans_tiny =
                [[s, a, ns, k], ...]), half of them carrying a reward of size 2^k (contribution O(1))
    many_absorbing probability that 2 .. n-1 states (instead of at most n/2) are absorbing, so that beliefs can
                spread their whole mass over three or four absorbing states
    tiny_init   probability that the initial distribution has an entry 2^-30 (init_tiny = [s])
    ghosts      probability that kernels LIST outcomes that are never possible, with explicit probability 0:
                obs_ghost = [ids >= nO]: observations listed with "0" in some observation rows and positive
                nowhere (so they are NOT in observation_list; nO does not count them);
                state_ghost = [n]: a successor state listed with "0" in some transition rows, reachable from
                nowhere (NOT in state_list; n does not count it); it has observation rows "a,n" because the
                dictionary filter asks for observation_dist(a, ns) of every LISTED successor
    state_actions probability that the action set depends on the state (case["actions"][s] a proper subset for
                some s; every action is offered somewhere) AND some positive-probability transition s --a--> ns
                enters a state ns that does not offer a.  "trans" / "obs" stay defined for EVERY (s, a) / (a, ns):
                the observation kernel is indexed by (action taken, state reached), whatever ns offers.
                Only (belief, action) pairs with the action offered in every state of the belief's support are
                meaningful (see admissible_actions); use full_arrays for the completed exact kernels.
    force_reachable=False  leaves states unreachable from the initial distribution (for POMDPs whose
                state list is given explicitly)"""
    while True:
        case = _gen_once(rng, nmax, amax, omax, gamma, min_states, zero_entries, nonpos, goal, absorbing_selfloop,
                         force_reachable, state_actions, nondyadic, many_absorbing)
        if case is not None:
            case["obs_tiny"] = []
            if tiny and rng.random() < tiny:
                _add_tiny(rng, case, omax)
            if near_twin and rng.random() < near_twin:
                _add_near_twin(rng, case)
            if ghosts and rng.random() < ghosts:
                _add_ghosts(rng, case)
            if tiny_trans and rng.random() < tiny_trans:
                _add_tiny_trans(rng, case)
            if tiny_init and rng.random() < tiny_init:
                _add_tiny_init(rng, case)
            if big_rewards and rng.random() < big_rewards:
                f = rng.choice([1000, 2 ** 16, 10 ** 9])
                sg = rng.choice([1, -1])
                big = set("%d,%d,%d" % (s, a, ns) for s, a, ns, k in case.get("trans_tiny", []))
                case["reward"] = {k: (r if k in big else str(sg * abs(F(r)) * f)) for k, r in case["reward"].items()}
                case["reward_scale"] = f
            return case


def _add_ghosts(rng, case):
    n, nA, nO = case["n"], case["nA"], case["nO"]
    case["obs_ghost"] = list(range(nO, nO + rng.randint(1, 2)))
    rows = sorted(case["obs"])
    for g in case["obs_ghost"]:
        for k in rng.sample(rows, rng.randint(1, min(3, len(rows)))):
            case["obs"][k].insert(rng.randint(0, len(case["obs"][k])), [g, "0"])
    if rng.random() < .5:
        case["state_ghost"] = [n]
        trows = sorted(case["trans"])
        for k in rng.sample(trows, rng.randint(1, min(3, len(trows)))):
            case["trans"][k].insert(rng.randint(0, len(case["trans"][k])), [n, "0"])
        for a in range(nA):
            case["obs"]["%d,%d" % (a, n)] = [list(e) for e in case["obs"]["%d,%d" % (a, rng.randrange(n))]]


def _add_tiny_trans(rng, case):
    n = case["n"]
    case["trans_tiny"] = []
    keys = sorted(k for k in case["trans"] if int(k.split(",")[0]) < n)
    for key in rng.sample(keys, min(len(keys), rng.randint(1, 2))):
        s, a = map(int, key.split(","))
        row = case["trans"][key]
        big = max(range(len(row)), key=lambda i: F(row[i][1]))
        zero = [x for x in range(n) if all(e[0] != x or F(e[1]) == 0 for e in row)]
        if not zero:
            continue
        ns = rng.choice(zero)
        k = rng.choice([30, 40, 50])
        eps = F(1, 2 ** k)
        row[big][1] = str(F(row[big][1]) - eps)
        row[:] = [e for e in row if e[0] != ns] + [[ns, str(eps)]]
        rng.shuffle(row)
        if rng.random() < .5:
            case["reward"]["%d,%d,%d" % (s, a, ns)] = str(rng.choice([1, -1]) * rng.randint(1, 4) * 2 ** k)
        else:
            case["reward"].pop("%d,%d,%d" % (s, a, ns), None)
        case["trans_tiny"].append([s, a, ns, k])


def _add_tiny_init(rng, case):
    n = case["n"]
    if n < 2:
        return
    init = case["init"]
    big = max(range(len(init)), key=lambda i: F(init[i][1]))
    s = rng.choice([x for x in range(n) if x != init[big][0]])
    eps = F(1, 2 ** 30)
    init[big][1] = str(F(init[big][1]) - eps)
    old = sum(F(p) for x, p in init if x == s)
    init[:] = [e for e in init if e[0] != s] + [[s, str(old + eps)]]
    case["init_tiny"] = [s]


def _add_near_twin(rng, case):
    n = case["n"]
    case["obs_near_twin"] = []
    for a in range(case["nA"]):
        if case["obs_kinds"][a] != "twin":
            continue
        M = obs_arrays(case, range(case["nA"]), range(n), range(case["nO"]))
        pairs = [(o1, o2) for o1 in range(case["nO"]) for o2 in range(o1 + 1, case["nO"])
                 if all(M[a][x][o1] == M[a][x][o2] for x in range(n)) and any(M[a][x][o1] > 0 for x in range(n))]
        if not pairs:
            continue
        o1, o2 = rng.choice(pairs)
        ns = rng.choice([x for x in range(n) if M[a][x][o1] > 0])
        eps = F(1, 2 ** 30)
        row = case["obs"]["%d,%d" % (a, ns)]
        for e in row:
            if e[0] == o1:
                e[1] = str(F(e[1]) - eps)
            elif e[0] == o2:
                e[1] = str(F(e[1]) + eps)
        case["obs_near_twin"].append([a, ns, o1, o2, 30])


def _add_tiny(rng, case, omax):
    """at most one rare entry per informative action (so that two observation columns never differ
    by tiny amounts only: distinct posteriors stay separated by far more than the comparison tolerance)"""
    n, nA = case["n"], case["nA"]
    acts = [a for a in range(nA) if case["obs_kinds"][a] == "informative"]
    rng.shuffle(acts)
    for a in acts[:rng.randint(1, 2)]:
        ns = rng.randrange(n)
        k = rng.choice([30, 40])
        row = case["obs"]["%d,%d" % (a, ns)]
        M = obs_arrays(case, range(nA), range(n), range(case["nO"]))
        big = max(range(len(row)), key=lambda i: F(row[i][1]))
        unused = [o for o in range(case["nO"]) if all(M[a][x][o] == 0 for x in range(n))]
        zero_here = [o for o in range(case["nO"]) if M[a][ns][o] == 0]
        if case["nO"] < omax and (not unused or rng.random() < .5):
            o = case["nO"]
            case["nO"] += 1
        elif unused:
            o = rng.choice(unused)
        elif zero_here:
            o = rng.choice(zero_here)
        else:
            continue
        eps = F(1, 2 ** k)
        row[big][1] = str(F(row[big][1]) - eps)
        row[:] = [e for e in row if e[0] != o] + [[o, str(eps)]]
        rng.shuffle(row)
        case["obs_tiny"].append([a, ns, o, k])


def _gen_once(rng, nmax, amax, omax, gamma, min_states, zero_entries, nonpos, goal, absorbing_selfloop,
              force_reachable=True, state_actions=0.0, nondyadic=0.0, many_absorbing=0.0):
    nd = bool(nondyadic) and rng.random() < nondyadic
    den = (lambda: rng.choice([3, 7, 10, 10])) if nd else None
    n = rng.randint(min_states, nmax)
    nA = rng.randint(1, amax)
    nO = rng.randint(1, omax)
    if gamma is None:
        gamma = rng.choice(GAMMAS_DISC)
    absorbing = [False] * n
    if goal and rng.random() < .8:
        for s in rng.sample(range(n), rng.randint(1, max(1, n // 2))):
            absorbing[s] = True
    if many_absorbing and n >= 3 and rng.random() < many_absorbing:
        absorbing = [False] * n
        for s in rng.sample(range(n), rng.randint(2, n - 1)):
            absorbing[s] = True
    if all(absorbing):
        absorbing[rng.randrange(n)] = False
    actions = [list(range(nA)) for _ in range(n)]
    trans, reward = {}, {}
    for s in range(n):
        selfloop = absorbing[s] and rng.random() < absorbing_selfloop
        for a in range(nA):
            if selfloop:
                trans["%d,%d" % (s, a)] = [[s, "1"]]
                continue
            k = rng.randint(1, min(3, n))
            succ = rng.sample(range(n), k)
            row = [[ns, str(p)] for ns, p in zip(succ, _split_prob(rng, k, den()) if nd else _split_prob(rng, k))]
            if zero_entries and rng.random() < .2:
                others = [x for x in range(n) if x not in succ]
                if others:
                    row.append([rng.choice(others), "0"])
            rng.shuffle(row)
            trans["%d,%d" % (s, a)] = row
            for ns, p in row:
                if rng.random() < .8:
                    r = F(rng.randint(-16, 0 if nonpos else 16), 4) if rng.random() < .3 \
                        else F(rng.randint(-4, 0 if nonpos else 4))
                    if nd and rng.random() < .5:
                        r = F(rng.randint(-30, 0 if nonpos else 30), rng.choice([3, 10]))
                    if r != 0:
                        reward["%d,%d,%d" % (s, a, ns)] = str(r)
    if state_actions and nA >= 2 and n >= 2 and rng.random() < state_actions:
        for _ in range(50):
            acts = [sorted(rng.sample(range(nA), rng.randint(1, nA))) if rng.random() < .6 else list(range(nA))
                    for _s in range(n)]
            if {a for x in acts for a in x} != set(range(nA)):
                continue
            if any(a not in acts[ns] for s in range(n) for a in acts[s]
                   for ns, p in trans["%d,%d" % (s, a)] if F(p) > 0):
                actions = acts
                break
    # observation kernels
    kinds, obs = [], {}
    for a in range(nA):
        r = rng.random()
        kind = "informative" if r < .6 else "uninformative" if r < .72 else "twin" if r < .9 else "deterministic"
        if kind == "twin" and nO < 2:
            kind = "uninformative"
        kinds.append(kind)
        for ns, row in enumerate(_obs_kernel(rng, n, nO, kind, den)):
            obs["%d,%d" % (a, ns)] = row
    if "informative" not in kinds:
        a = rng.randrange(nA)
        kinds[a] = "informative"
        for ns, row in enumerate(_obs_kernel(rng, n, nO, "informative", den)):
            obs["%d,%d" % (a, ns)] = row
    inf_actions = [a for a in range(nA) if kinds[a] == "informative"]
    case = {"n": n, "nA": nA, "actions": actions, "trans": trans, "reward": reward, "absorbing": absorbing,
            "init": None, "gamma": gamma, "nO": nO, "obs": obs, "obs_kinds": kinds}
    # every observation emitted somewhere; asymmetric; action dependent
    for _ in range(200):
        M = obs_arrays(case, range(nA), range(n), range(nO))
        missing = [o for o in range(nO) if not any(M[a][ns][o] > 0 for a in range(nA) for ns in range(n))]
        sym = [a for a in inf_actions if nO == n and n > 1 and _symmetric(M[a])]
        same = [a for a in inf_actions[1:] if M[a] == M[inf_actions[0]] and nO > 1]
        if not (missing or sym or same):
            break
        a = rng.choice(sym or same or inf_actions)
        ns = rng.randrange(n)
        obs["%d,%d" % (a, ns)] = _obs_row(rng, nO, must=rng.choice(missing) if missing else None, den=den)
    else:
        return None
    # initial distribution; then make every state reachable (msdm's reachable_states rule)
    k = rng.randint(1, min(3, n))
    starts = rng.sample(range(n), k)
    for _ in range(10 if force_reachable else 0):
        case["init"] = [[s, "1"] for s in starts]
        unreached = [s for s in range(n) if s not in gen_mdp.reachable(case)]
        if not unreached:
            break
        starts = starts + [unreached[0]]
    ps = _split_prob(rng, len(starts), rng.choice([7, 10])) if nd else _split_prob(rng, len(starts))
    init = [[s, str(p)] for s, p in zip(starts, ps)]
    if zero_entries and rng.random() < .1:
        others = [x for x in range(n) if x not in starts]
        if others:
            init.append([rng.choice(others), "0"])
    case["init"] = init
    if nd:
        case["nondyadic"] = True
    if force_reachable and len(gen_mdp.reachable(case)) != n:
        return None
    return case


# ----------------------------------------------------------------------------
# exact arithmetic on a case (oracle for violation searches; reachable beliefs)
# ----------------------------------------------------------------------------
def exact_arrays(case):
    """(P[s][a][ns], R[s][a][ns], absflag[s], init[s], Ob[a][ns][o]) over ids 0..n-1 etc."""
    sl, al = list(range(case["n"])), list(range(case["nA"]))
    P, R, av, absf, ini = gen_mdp.arrays(case, sl, al)
    Ob = obs_arrays(case, al, sl, list(range(case["nO"])))
    return P, R, absf, ini, Ob


def full_arrays(case, state_list, action_list):
    """like gen_mdp.arrays, but P / R rows are filled for EVERY (s, a) the case defines, offered or not
    (gen_mdp.arrays mirrors transition_matrix: zero rows for actions a state does not offer)"""
    nS, nA = len(state_list), len(action_list)
    sidx = {s: i for i, s in enumerate(state_list)}
    P = [[[F(0)] * nS for _ in range(nA)] for _ in range(nS)]
    R = [[[F(0)] * nS for _ in range(nA)] for _ in range(nS)]
    for si, s in enumerate(state_list):
        for ai, a in enumerate(action_list):
            for ns, p in case["trans"]["%d,%d" % (s, a)]:
                p = F(p)
                if ns not in sidx:
                    if p != 0:
                        raise KeyError("successor %r outside state list" % ns)
                    continue
                P[si][ai][sidx[ns]] = p
                if p != 0:
                    R[si][ai][sidx[ns]] = F(case["reward"].get("%d,%d,%d" % (s, a, ns), "0"))
    absf = [bool(case["absorbing"][s]) for s in state_list]
    ini = [F(0)] * nS
    for s, p in case["init"]:
        if s in sidx:
            ini[sidx[s]] = F(p)
    return P, R, absf, ini


def admissible_actions(case, b):
    """action ids offered in every state that carries belief mass (b: sequence over state ids)"""
    return [a for a in range(case["nA"]) if all(a in case["actions"][s] for s in range(case["n"]) if F(b[s]) > 0)]


def joint_exact(P, Ob, b, a, o):
    """W[ns] = Pr(ns, o | b, a), Z = Pr(o | b, a); o outside the kernel = never emitted"""
    n = len(P)
    W = [sum(b[s] * P[s][a][ns] for s in range(n)) * (Ob[a][ns][o] if o < len(Ob[a][ns]) else F(0))
         for ns in range(n)]
    return W, sum(W)


def bayes_exact(P, Ob, b, a, o):
    """exact posterior (list of Fractions) or None for an impossible observation"""
    W, Z = joint_exact(P, Ob, b, a, o)
    if Z == 0:
        return None
    return [w / Z for w in W]


def lr_float_sum(xs):
    """plain left-to-right double accumulation (Python >= 3.12's built-in sum() is compensated and hides the
    off-by-an-ulp totals this is used to look for)"""
    acc = 0.0
    for x in xs:
        acc += float(x)
    return acc


def _composition(rng, total, parts):
    """random composition of `total` into `parts` non-negative integers"""
    cuts = sorted(rng.randint(0, total) for _ in range(parts - 1))
    return [b - a for a, b in zip([0] + cuts, cuts + [total])]


def gen_beliefs(rng, case, n_grid=3, n_reach=3, tiny=False, nondyadic=False, absorbing_nd=False):
    """beliefs over states 0..n-1 as {"kind", "b": ["n/d"]*n, "dyadic": bool, "sparse": bool}:
    all vertices, faces (two-state beliefs), grid points k/8 with zero components, an interior
    grid point, beliefs with a tiny component 2^-30 (dyadic, so exact in floats), the initial distribution, beliefs supported on absorbing states (and one leaking
    off them), and exactly computed reachable beliefs (Bayes posteriors of the above)."""
    n = case["n"]
    P, R, absf, ini, Ob = exact_arrays(case)
    out = []

    def add(kind, b):
        assert sum(b) == 1 and all(x >= 0 for x in b)
        d = all((x.denominator & (x.denominator - 1)) == 0 and x.denominator <= 64 for x in b)
        out.append({"kind": kind, "b": [str(x) for x in b], "dyadic": d, "sparse": rng.random() < .5})

    for s in range(n):
        add("vertex", [F(int(i == s)) for i in range(n)])
    if n >= 2:
        i, j = rng.sample(range(n), 2)
        add("face", [F(1, 2) if x in (i, j) else F(0) for x in range(n)])
        i, j = rng.sample(range(n), 2)
        k = rng.randint(1, 7)
        add("face", [F(k, 8) if x == i else F(8 - k, 8) if x == j else F(0) for x in range(n)])
    for _ in range(n_grid):
        add("grid", [F(k, 8) for k in _composition(rng, 8, n)])
    extra = _composition(rng, 8 - n, n) if n <= 8 else None
    if extra is not None:
        add("interior", [F(1 + k, 8) for k in extra])
    add("initial", list(ini))
    A = [s for s in range(n) if absf[s]]
    if len(A) >= 2:
        ks = _composition(rng, 8 - len(A), len(A))
        add("absorbing-face", [F(1 + ks[A.index(s)], 8) if s in A else F(0) for s in range(n)])
    # whole mass on several absorbing states, in tenths / sevenths / thirds / ninths (opt-in): the float components,
    # summed in state order, preferably do NOT add up to exactly 1.0 (0.1 + 0.7 + 0.2 = 0.9999999999999999)
    if absorbing_nd and len(A) >= 2:
        for d in (10, 7, 9, 3):
            if d < len(A):
                continue
            b = None
            for _ in range(20):
                ks = _composition(rng, d - len(A), len(A))
                b = [F(1 + ks[A.index(s)], d) if s in A else F(0) for s in range(n)]
                if lr_float_sum(b) != 1.0:
                    break
            add("absorbing-nd", b)
    if A and len(A) < n:
        s0 = rng.choice([s for s in range(n) if not absf[s]])
        add("absorbing-leak", [F(7, 8) if s == A[0] else F(1, 8) if s == s0 else F(0) for s in range(n)])
    # non-dyadic grids (opt-in): thirds, sevenths, tenths -- float components do not sum to exactly 1.0
    if nondyadic:
        for d in (3, 7, 10):
            add("grid-%dths" % d, [F(k, d) for k in _composition(rng, d, n)])
    # tiny components (opt-in): positive mass far below any isclose tolerance
    if tiny and n >= 2:
        eps = F(1, 2 ** 30)
        i, j = rng.sample(range(n), 2)
        add("tiny", [1 - eps if x == i else eps if x == j else F(0) for x in range(n)])
        g = [F(k, 8) for k in _composition(rng, 8, n)]
        i = max(range(n), key=lambda x: g[x])
        j = rng.choice([x for x in range(n) if x != i])
        eps2 = F(1, 2 ** rng.choice([40, 50]))
        g[i] -= eps2
        g[j] += eps2
        add("tiny", g)
        if A and len(A) < n:
            s0 = rng.choice([s for s in range(n) if not absf[s]])
            add("absorbing-leak-tiny", [1 - eps if s == A[0] else eps if s == s0 else F(0) for s in range(n)])
    base = [[F(x) for x in e["b"]] for e in out]
    tries = 0
    reach = 0
    while reach < n_reach and tries < 30:
        tries += 1
        b = rng.choice(base)
        a, o = rng.randrange(case["nA"]), rng.randrange(case["nO"])
        nb = bayes_exact(P, Ob, b, a, o)
        if nb is None:
            continue
        if rng.random() < .4:          # two steps
            nb2 = bayes_exact(P, Ob, nb, rng.randrange(case["nA"]), rng.randrange(case["nO"]))
            nb = nb2 or nb
        if max(x.denominator for x in nb) > 10**6:
            continue
        add("reachable", nb)
        reach += 1
    return out


def features(case):
    f = gen_mdp.features(case)
    M = obs_arrays(case, range(case["nA"]), range(case["n"]), range(case["nO"]))
    f.update({
        "nO": case["nO"],
        "obs_tiny": bool(case.get("obs_tiny")),
        "enters_state_without_the_action_taken": any(
            a not in case["actions"][ns] for s in range(case["n"]) for a in case["actions"][s]
            for ns, p in case["trans"]["%d,%d" % (s, a)] if F(p) > 0 and ns < case["n"]),
        "absorbing_states_ge_3": sum(case["absorbing"]) >= 3, "absorbing_states_ge_2": sum(case["absorbing"]) >= 2,
        "nondyadic": bool(case.get("nondyadic")), "trans_tiny": bool(case.get("trans_tiny")),
        "trans_tiny_with_large_reward": any("%d,%d,%d" % (s, a, ns) in case["reward"] for s, a, ns, k in case.get("trans_tiny", [])),
        "init_tiny": bool(case.get("init_tiny")),
        "nS_eq_nO": case["n"] == case["nO"], "nS_eq_nA": case["n"] == case["nA"], "nA_eq_nO": case["nA"] == case["nO"],
        "nS_eq_nA_eq_nO": case["n"] == case["nA"] == case["nO"],
        "obs_near_twin": bool(case.get("obs_near_twin")),
        "obs_ghost": bool(case.get("obs_ghost")), "state_ghost": bool(case.get("state_ghost")),
        "big_rewards": bool(case.get("reward_scale")),
        "single_state": case["n"] == 1, "single_observation": case["nO"] == 1, "single_action": case["nA"] == 1,
        "unreachable_states": len(gen_mdp.reachable(case)) < case["n"],
        "obs_zero_entries": any(M[a][ns][o] == 0 for a in range(case["nA"]) for ns in range(case["n"]) for o in range(case["nO"])),
        "obs_action_dependent": any(M[a] != M[0] for a in range(case["nA"])),
        "obs_uninformative_action": "uninformative" in case["obs_kinds"],
        "obs_twin_action": "twin" in case["obs_kinds"],
        "obs_deterministic_action": "deterministic" in case["obs_kinds"],
        "absorbing_with_exit": any(case["absorbing"][s] and any(
            any(ns != s and F(p) > 0 for ns, p in case["trans"]["%d,%d" % (s, a)]) for a in range(case["nA"]))
            for s in range(case["n"])),
    })
    return f
