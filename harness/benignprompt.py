#!/usr/bin/env python3
"""prints the prompt for a fresh sub-agent that produces behaviour-PRESERVING changes for property <id> (to test that the
check raises no alarm on code where the property holds) and creates its scratch worktree"""
import json, os, subprocess, sys
pid = sys.argv[1]
tag = sys.argv[2] if len(sys.argv) > 2 else ""
ROOT = os.path.dirname(os.path.dirname(os.path.abspath(__file__)))
p = [json.loads(l) for l in open(os.path.join(ROOT, "properties.jsonl")) if json.loads(l)["id"] == pid][0]
wt = "/tmp/ben_%s%s" % (pid, tag)
out = wt + "_out"
if not os.path.exists(wt):
    subprocess.run(["git", "-C", "/repo", "worktree", "add", "-q", "--detach", wt, "HEAD"], check=True)
files = ", ".join(p["anchors"]["files"])
print(f"""You are a maintainer of the Python library msdm (MDP/POMDP/stochastic-game models with planning and RL algorithms). You have your own scratch git worktree of the library at {wt} (work ONLY there and in {out}; never touch /repo or /verif; do not read anything under /verif). Python with all dependencies: `/venv/bin/python`; run code against your worktree with `PYTHONPATH={wt} /venv/bin/python …` (importing msdm takes ~6 s). The existing test suite is run with: `cd {wt} && /venv/bin/python -m pytest -q -p no:cacheprovider --timeout=900 msdm/tests` (~1 min; a couple of tests fail already on the unmodified tree — note which ones first).

A semantic property of the library that users rely on:

"{p['title']}. {p['statement']}"
Quantified over: {p['quantifier']['text']}.
Relevant files: {files}.

Produce THREE different realistic changes to those files (each a separate patch against the clean worktree) of the kind maintainers make all the time and that keep this property TRUE for every input — the opposite of a bug. Each change must:
 * be a genuine, non-cosmetic code change in the code paths the property is about (not comments/whitespace/renaming a local variable): e.g. a refactor into helpers, vectorising a loop or un-vectorising one, a different but equivalent algorithmic formulation, a different evaluation order of floating-point sums/products (results may differ in the last bits), a different container type or cache, an early exit or fast path that returns the same result, a different iteration order or tie-breaking order WHERE THE PROPERTY DOES NOT FIX IT, a different (still private, still seeded, still reproducible) way of drawing random numbers where the property does not fix the random stream, extra validation that rejects only inputs outside the property's quantifier, performance work;
 * keep the library importable and keep every test that passes on the clean worktree passing (run the suite; report counts);
 * keep the property true: argue it in notes.md, and write a `demo.py` that checks the property's clauses with an independent computation on a spread of inputs (including unusual ones) and exits 0 BOTH on the clean tree and with the patch applied (verify both);
 * be different in kind from the other two, and at least one of the three should change some observable-but-unspecified detail (last-bit float results, number of iterations, order of dictionary keys, which of several equally valid answers is returned, private attribute names, how many random numbers are consumed) that the property does not constrain — say precisely which detail changes.
For each change write, in {out}/<k>/ (k = 1,2,3): `patch.diff` (output of `git diff` in the worktree), `demo.py`, and `notes.md` (what changed, why the property still holds for all inputs, which unspecified observable details differ from the clean tree, what you ran and saw). Switch between clean and patched with `git diff > p.diff; git checkout -- .` and `git apply p.diff` — do NOT use `git stash` (the stash stack is shared with other engineers' worktrees). Reset the worktree to clean at the end. Final answer: a short summary of the three changes, the unspecified details each one changes, and the verification you did.""")
