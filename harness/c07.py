"""C07 — POMDP belief updates follow Bayes' rule and the belief MDP is consistent.

Correspondence: generated POMDPs (harness/gen_pomdp.py) x beliefs (vertices, faces, grid points k/8,
initial, absorbing-supported, exactly computed reachable beliefs) x every (action, observation) incl.
impossible observations and an observation the POMDP never emits -> msdm (harness/impl/c07_impl.py):
state_estimator, state_estimator_vec, predictive_observation_dist/_vec, observation_matrix,
BeliefMDP.next_state_dist / reward / is_absorbing, ValueBasedTabularPOMDPPolicy.next_agentstate.
Every output goes, as the exact rational of the float, into model/POMDP.v:check_ba / check_b /
obs_matrix_eq, evaluated by vm_compute on Q against the mirror functions the theorems of
props/C07.v are about (tolerance 1e-13, purely relative for probabilities, absolute + relative for the reward).  A failed comparison is then decided
by an independent exact oracle (fractions.Fraction) that tests the property's clauses directly.
"""
from fractions import Fraction as F

import vlib
from vlib import q, qlist, qmat, qten, nat, blist, coqlist, b as cb_
import gen_mdp
import gen_pomdp

INFO = {
    "level": "proof",
    "coq_files": ["model/POMDP.v", "theory/POMDPTransfer.v"],
    "trusted_base": [
        "model/POMDP.v mirror functions and comparators are evaluated on Q (NumQ); theorems are on R; tied by paramcoq transfer (theory/POMDPTransfer.v)",
        "generated probabilities/rewards/beliefs reach the model exactly and msdm as nearest doubles (dyadic except reachable beliefs)",
        "comparison tolerance 1e-13 (purely relative for every probability, so posteriors of very rare observations are checked as ratios; absolute + relative for the signed reward sum) between msdm's floats and the exact mirror values",
        "harness literals: 53-bit float mantissas enter Coq as primitive Uint63 literals converted by Uint63.to_Z (harness-side only; no theorem depends on it)",
    ],
    "assumptions": [
        "state-dependent action sets: a (belief, action) pair is compared only when the action is offered in every state of the belief's support (otherwise the action cannot be taken there; msdm's vectorised filter reads transition_matrix, which has zero rows for actions a state does not offer); the model's transition rows of (state, action) pairs that are not offered are the generator's rows, which such pairs never use (multiplied by b(s) = 0)",
        "POMDP arrays of the model are built from the generator's definition in the state/action/observation order msdm reports",
    ],
}

PRE = """From Coq Require Import QArith List Bool Uint63.
From MSDM Require Import base.Num base.NumInst model.MDP model.POMDP.
Import ListNotations.
Local Open Scope Q_scope.
(* msdm's floats m / 2^k with the 53-bit mantissa as a primitive integer literal (a unary-binary
   positive literal of that size costs ~1 ms to parse and type-check; there are ~10^5 per run) *)
Definition fp (m : int) (k : N) : Q := Qred (Qmake (Uint63.to_Z m) (Pos.shiftl 1 k)).
Definition fn (m : int) (k : N) : Q := Qred (Qmake (- Uint63.to_Z m) (Pos.shiftl 1 k)).
Definition mk := @mk_pomdp Q NumQ.
Definition wf := @wfpb Q NumQ.
Definition ome := @obs_matrix_eq Q NumQ.
Definition cb := @check_b Q NumQ.
Definition cba := @check_ba Q NumQ.
Definition tol : Q := 1 # 10000000000000.
"""

CLAUSES = ["est_dict", "est_vec", "next_agentstate", "pred_dict", "pred_vec", "belief_next",
           "belief_next_count", "belief_reward"]
OTOL = F(1, 10**9)          # the oracle's tolerance when it decides that a property clause fails


def _labels(rng, p):
    """label scheme for states / actions / observations (tagged JSON, see impl/build_pomdp.py:dec_label);
    None = the integer ids.  Sorted label order differs from id order (random permutation)."""
    scheme = rng.choice(["int"] * 3 + ["str", "tuple", "falsy", "mixed"])
    if scheme == "int":
        return None

    def perm(k):
        x = list(range(k))
        rng.shuffle(x)
        return x
    # never-possible outcomes listed with explicit 0 (obs_ghost / state_ghost) need labels too
    n, nA, nO = p["n"] + len(p.get("state_ghost", [])), p["nA"], p["nO"] + len(p.get("obs_ghost", []))
    ps, pa, po = perm(n), perm(nA), perm(nO)
    if scheme == "str":
        return {"scheme": scheme, "S": [["s", "s%d" % ps[i]] for i in range(n)],
                "A": [["s", "a%d" % pa[i]] for i in range(nA)], "O": [["s", "o%d" % po[i]] for i in range(nO)]}
    if scheme == "tuple":
        return {"scheme": scheme, "S": [["t", [["i", ps[i] // 2], ["s", "xy"[ps[i] % 2]]]] for i in range(n)],
                "A": [["t", [["s", "act"], ["i", pa[i]]]] for i in range(nA)],
                "O": [["t", [["i", po[i]]]] for i in range(nO)]}
    if scheme == "falsy":       # "", (), False / 0.0 are legitimate labels
        Sp = [["s", ""], ["s", "a"], ["s", "b"], ["s", "c"], ["s", "d"], ["s", "e"]]
        Ap = [["t", []], ["t", [["i", 0]]], ["t", [["i", 1]]]]
        Op = rng.choice([[["b", False], ["b", True], ["i", 2], ["i", 3], ["s", ""], ["t", []]],
                         [["f", 0.0], ["f", 0.5], ["i", 2], ["i", 3], ["s", ""], ["t", []]]])
    else:                       # unsortable: msdm falls back to set order
        Sp = [["i", 0], ["s", "q"], ["i", 7], ["s", ""], ["i", 3], ["s", "zz"]]
        Ap = [["i", 0], ["s", "go"], ["t", []]]
        Op = [["i", 0], ["s", "x"], ["t", [["i", 1]]], ["n"], ["i", 5], ["s", "y"]]
    return {"scheme": scheme, "S": [Sp[ps[i]] for i in range(n)], "A": [Ap[pa[i]] for i in range(nA)],
            "O": [Op[po[i]] for i in range(nO)]}


def gen_case(rng, tier):
    explicit = rng.random() < .3
    single = rng.random() < .04
    p = gen_pomdp.gen_pomdp(rng, nmax=1 if single else 5, min_states=1 if single else 2, tiny=.4, near_twin=.6, ghosts=.3, state_actions=.3, nondyadic=.25,
                            tiny_trans=.3, tiny_init=.15, many_absorbing=.3,
                            big_rewards=.1, force_reachable=not (explicit and rng.random() < .8))
    beliefs = gen_pomdp.gen_beliefs(rng, p, n_grid=2, tiny=True, nondyadic=bool(p.get("nondyadic")), absorbing_nd=True)
    for be in beliefs:          # how the belief is handed to msdm
        perm = list(range(p["n"]))
        if rng.random() < .5:
            rng.shuffle(perm)
        be.update({"perm": perm, "rep": "dist" if rng.random() < .3 else "dict",
                   "vec": rng.choice(["ndarray", "ndarray", "list", "tuple", "intarray", "float32"]),
                   "npidx": rng.random() < .3, "int01": rng.random() < .3,
                   "own_initial": be["kind"] == "initial" and rng.random() < .7})
    declare = None
    if rng.random() < .3:       # the class declares observation_list (and maybe state_list / action_list), permuted
        def shuffled(k):
            x = list(range(k))
            rng.shuffle(x)
            return x
        declare = {"O": shuffled(p["nO"])}
        if rng.random() < .5:
            declare.update({"S": shuffled(p["n"]), "A": shuffled(p["nA"])})
    # multi-step filtering histories on ONE belief object updated in place: same action repeated, alternating, random
    histories = []
    for kind in ("vec", "dict"):
        for _h in range(2):
            pat = rng.choice(["same", "alternate", "random"])
            a0, a1 = rng.randrange(p["nA"]), rng.randrange(p["nA"])
            steps = [[a0 if pat == "same" else (a0, a1)[t % 2] if pat == "alternate" else rng.randrange(p["nA"]),
                      rng.randrange(p["nO"])] for t in range(rng.randint(3, 6))]
            histories.append({"kind": kind, "pattern": pat, "start": rng.randrange(len(beliefs)), "steps": steps,
                              "sparse": rng.random() < .5})
    variant = {"declare": declare, "shared_belief_objects": rng.random() < .5, "labels": _labels(rng, p), "int01": rng.random() < .3, "dist_types": rng.random() < .3, "share_objects": rng.random() < .4,
               "order": rng.choice(["matrix-first", "belief-first", "dict-first"])}
    return {"pomdp": p, "beliefs": beliefs, "explicit_lists": explicit, "variant": variant, "histories": histories}


# ---- literals -----------------------------------------------------------------
def fq(x):
    """Q literal of an implementation float: big dyadic mantissas go through a primitive integer"""
    f = vlib.frac(x)
    n, d = abs(f.numerator), f.denominator
    if n < 10**6 or (d & (d - 1)) or n >= 2**62:
        return q(f)
    return "(%s %d %d)" % ("fn" if f < 0 else "fp", n, d.bit_length() - 1)


def fqlist(xs):
    return coqlist(fq(x) for x in xs)


def fqmat(m):
    return coqlist(fqlist(r) for r in m)


def dlit(d):
    return coqlist("(%s, %s)" % (nat(k), fq(v)) for k, v in d)


def bnlit(l):
    return coqlist("(%s, %s)" % (fqlist(nb), fq(p)) for nb, p in l)


def has_error(x):
    if isinstance(x, dict):
        return x.get("error") if "error" in x else next((e for e in map(has_error, x.values()) if e), None)
    if isinstance(x, list):
        return next((e for e in map(has_error, x) if e), None)
    return None


def nonfinite(x):
    if isinstance(x, str):
        return x in ("nan", "inf", "-inf")
    if isinstance(x, dict):
        return any(nonfinite(v) for k, v in x.items() if k not in ("error",))
    if isinstance(x, list):
        return any(nonfinite(v) for v in x)
    return False


def model_arrays(case, res):
    p = case["pomdp"]
    sl, al, ol = res["state_list"], res["action_list"], res["observation_list"]
    # transition rows of EVERY (s, a), offered or not: rows of actions a state does not offer are never used by
    # msdm for an admissible (belief, action) pair and are multiplied by b(s) = 0 in the model
    P, R, absf, ini = gen_pomdp.full_arrays(p, sl, al)
    Ob = gen_pomdp.obs_arrays(p, al, sl, ol)
    return P, R, absf, ini, Ob


def case_term(case, res):
    p = case["pomdp"]
    sl, al, ol = res["state_list"], res["action_list"], res["observation_list"]
    P, R, absf, ini, Ob = model_arrays(case, res)
    mk = "mk %s %s %s %s %s %s %s %s %s" % (nat(len(sl)), nat(len(al)), nat(len(ol)), qten(P), qten(R),
                                           blist(absf), qlist(ini), q(p["gamma"]), qten(Ob))
    bterms = []
    for be, bo in zip(case["beliefs"], res["beliefs"]):
        bl = qlist([F(be["b"][s]) for s in sl])
        aterms = []
        for r in bo["actions"]:
            aterms.append("cba m tol %s %s %s %s %s %s %s %s %s" % (
                bl, nat(r["ai"]), coqlist(dlit(d) for d in r["est_dict"]), fqmat(r["est_vec"]),
                fqmat(r["next_agentstate"]), dlit(r["pred_dict"]), fqlist(r["pred_vec"]),
                bnlit(r["belief_next"]), fq(r["belief_reward"])))
        bterms.append("(cb m %s %s, %s)" % (bl, cb_(bo["is_absorbing"]), coqlist(aterms) if aterms else "(@nil (list bool))"))
    # observation_matrix: compared bit-exactly against the doubles msdm was given in run() (every case); the Coq
    # comparison against the model's rationals is the same statement only when those are doubles (k/8, 2^-k)
    ome = "true" if p.get("nondyadic") else "ome m %s" % qten(res["observation_matrix"])
    return "let m := %s in (wf m, %s, %s)" % (mk, ome, coqlist(bterms))


# ---- exact oracle: the property's clauses, tested directly on the implementation's output ----
def close(x, y):
    """probabilities: RELATIVE (posteriors of rare observations are ratios of tiny numbers; 0 must be 0)"""
    return abs(vlib.frac(x) - y) <= OTOL * abs(y)


def close_abs(x, y):
    return abs(vlib.frac(x) - y) <= OTOL * (1 + abs(y))


def oracle_ba(case, res, bi, j, only=None):
    """first failing property clause for belief bi and its j-th evaluated action (None if all hold)"""
    sl, al, ol = res["state_list"], res["action_list"], res["observation_list"]
    P, R, absf, ini, Ob = model_arrays(case, res)
    n, nO = len(sl), len(ol)
    b = [F(case["beliefs"][bi]["b"][s]) for s in sl]
    r = res["beliefs"][bi]["actions"][j]
    ai = r["ai"]
    pred = [sum(b[s] * P[s][ai][ns] for s in range(n)) for ns in range(n)]
    WZ = [gen_pomdp.joint_exact(P, Ob, b, ai, o) for o in range(nO + 1)]
    post = [([w / Z for w in W] if Z > 0 else None) for W, Z in WZ]

    def want(name):
        return only is None or name in only

    for o in range(nO + 1):
        W, Z = WZ[o]
        what = "observation index %d%s" % (o, " (never emitted)" if o == nO else "")
        if want("est_dict"):
            d = {k: vlib.frac(v) for k, v in r["est_dict"][o]}
            if Z == 0 and d:
                return {"clause": "dictionary posterior not empty for an impossible observation", "at": what}
            if Z > 0:
                if set(d) != {ns for ns in range(n) if W[ns] > 0}:
                    return {"clause": "dictionary posterior has the wrong support", "at": what,
                            "got": sorted(d), "bayes": [str(x) for x in post[o]]}
                if any(not close(d[ns], post[o][ns]) for ns in d):
                    return {"clause": "dictionary posterior is not the Bayes posterior", "at": what,
                            "got": {k: float(v) for k, v in d.items()}, "bayes": [str(x) for x in post[o]]}
        if want("next_agentstate"):
            v = [vlib.frac(x) for x in r["next_agentstate"][o]]
            ref = post[o] if Z > 0 else [F(0)] * n
            if len(v) != n or any(not close(x, y) for x, y in zip(v, ref)):
                return {"clause": "next_agentstate is not the Bayes posterior", "at": what,
                        "got": [float(x) for x in v], "bayes": [str(x) for x in ref]}
        if o < nO and want("est_vec"):
            v = [vlib.frac(x) for x in r["est_vec"][o]]
            ref = post[o] if Z > 0 else [F(0)] * n
            if len(v) != n or any(not close(x, y) for x, y in zip(v, ref)):
                return {"clause": "vectorised posterior is not the Bayes posterior", "at": what,
                        "got": [float(x) for x in v], "bayes": [str(x) for x in ref]}
    Zs = [WZ[o][1] for o in range(nO)]
    if want("pred_dict"):
        d = {k: vlib.frac(v) for k, v in r["pred_dict"]}
        if set(d) != {o for o in range(nO) if Zs[o] > 0} or any(not close(d[o], Zs[o]) for o in d):
            return {"clause": "dictionary predictive observation distribution is not the exact marginal",
                    "got": {k: float(v) for k, v in d.items()}, "marginal": [str(z) for z in Zs]}
    if want("pred_vec"):
        v = [vlib.frac(x) for x in r["pred_vec"]]
        if len(v) != nO or any(not close(x, y) for x, y in zip(v, Zs)):
            return {"clause": "vectorised predictive observation distribution is not the exact marginal",
                    "got": [float(x) for x in v], "marginal": [str(z) for z in Zs]}
    if want("belief_next") or want("belief_next_count"):
        bn = [([vlib.frac(x) for x in nb], vlib.frac(p)) for nb, p in r["belief_next"]]
        if not close(sum(p for _, p in bn), F(1)) or any(p <= 0 for _, p in bn):
            return {"clause": "belief-MDP transition is not a normalised distribution",
                    "total": float(sum(p for _, p in bn))}
        for nb, p in bn:
            if len(nb) != n or any(x < 0 for x in nb) or not close(sum(nb), F(1)):
                return {"clause": "belief-MDP successor is not a normalised belief", "belief": [float(x) for x in nb]}
        for ns in range(n):
            if not close(sum(p * nb[ns] for nb, p in bn), pred[ns]):
                return {"clause": "probability-weighted mean of successor beliefs differs from the one-step state prediction",
                        "state_index": ns, "mean": float(sum(p * nb[ns] for nb, p in bn)), "prediction": str(pred[ns])}
        # each successor is the Bayes posterior of the observations that lead to it, with their total probability
        for nb, p in bn:
            # matching at 1e-11 relative: float error is ~1e-15, distinct posteriors of near-twin kernels are ~1e-9 apart
            os_ = [o for o in range(nO) if Zs[o] > 0 and
                   all(abs(x - y) <= F(1, 10**11) * abs(y) for x, y in zip(nb, post[o]))]
            if not os_ or not close(p, sum(Zs[o] for o in os_)):
                return {"clause": "belief-MDP successor / probability is not (Bayes posterior, total probability of its observations)",
                        "belief": [float(x) for x in nb], "prob": float(p)}
    if want("belief_reward"):
        ref = sum(b[s] * P[s][ai][ns] * R[s][ai][ns] for s in range(n) for ns in range(n))
        if not close_abs(r["belief_reward"], ref):
            return {"clause": "belief-MDP reward is not the belief-expected immediate reward",
                    "got": float(vlib.frac(r["belief_reward"])), "expected": str(ref)}
    return None


HTOL = F(1, 10**12)       # in-place histories: relative, against the exact Bayes quantities of the CURRENT contents


def oracle_history(case, res, steps):
    """first step of an in-place filtering history whose outputs are not the Bayes quantities of the belief object's
    contents at the time of the call (contents are floats: exact rationals, normalised only up to rounding; the
    posterior does not depend on the scale, the predictive distribution is compared with the marginal of the contents)"""
    P, R, absf, ini, Ob = model_arrays(case, res)
    n, nO = len(res["state_list"]), len(res["observation_list"])

    def rel(x, y):
        return abs(vlib.frac(x) - y) <= HTOL * abs(y)
    for t, st in enumerate(steps):
        b = [vlib.frac(x) for x in st["contents"]]
        ai = st["ai"]
        WZ = [gen_pomdp.joint_exact(P, Ob, b, ai, o) for o in range(nO)]
        at = {"step": t, "action_index": ai, "contents": [float(x) for x in b]}
        if st["kind"] == "vec":
            if len(st["pred_vec"]) != nO or any(not rel(x, Z) for x, (W, Z) in zip(st["pred_vec"], WZ)):
                return dict(at, cmp="pred_vec", clause="vectorised predictive observation distribution is not the exact marginal",
                            got=[float(vlib.frac(x)) for x in st["pred_vec"]], marginal=[str(Z) for W, Z in WZ])
            for o, (W, Z) in enumerate(WZ):
                ref = [w / Z for w in W] if Z > 0 else [F(0)] * n
                if len(st["est_vec"][o]) != n or any(not rel(x, y) for x, y in zip(st["est_vec"][o], ref)):
                    return dict(at, cmp="est_vec", clause="vectorised posterior is not the Bayes posterior", observation_index=o,
                                got=[float(vlib.frac(x)) for x in st["est_vec"][o]], bayes=[float(x) for x in ref])
        else:
            d = {k: vlib.frac(v) for k, v in st["pred_dict"]}
            if set(d) != {o for o in range(nO) if WZ[o][1] > 0} or any(not rel(d[o], WZ[o][1]) for o in d):
                return dict(at, cmp="pred_dict", clause="dictionary predictive observation distribution is not the exact marginal",
                            got={k: float(v) for k, v in d.items()}, marginal=[str(Z) for W, Z in WZ])
            for o, (W, Z) in enumerate(WZ):
                d = {k: vlib.frac(v) for k, v in st["est_dict"][o]}
                ref = {ns: W[ns] / Z for ns in range(n) if W[ns] > 0} if Z > 0 else {}
                if set(d) != set(ref) or any(not rel(d[k], ref[k]) for k in d):
                    return dict(at, cmp="est_dict", clause="dictionary posterior is not the Bayes posterior", observation_index=o,
                                got={k: float(v) for k, v in d.items()}, bayes={k: float(v) for k, v in ref.items()})
    return None


def stats_ba(case, res, bi, ai, cnt):
    """input-distribution counters from the exact model"""
    sl, ol = res["state_list"], res["observation_list"]
    P, R, absf, ini, Ob = model_arrays(case, res)
    b = [F(case["beliefs"][bi]["b"][s]) for s in sl]
    posts = []
    for o in range(len(ol)):
        nb = gen_pomdp.bayes_exact(P, Ob, b, ai, o)
        cnt["bao_triples"] += 1
        if nb is None:
            cnt["impossible_observations"] += 1
        else:
            Z = gen_pomdp.joint_exact(P, Ob, b, ai, o)[1]
            if Z <= F(1, 10**8):
                cnt["rare_observations_Z_le_1e-8"] += 1
            if any(0 < x <= F(1, 10**8) for x in nb):
                cnt["posteriors_with_tiny_component"] += 1
            posts.append(tuple(nb))
            if any(x == 0 for x in nb) and sum(1 for x in nb if x > 0) > 1:
                cnt["posteriors_with_zero_and_mixed_support"] += 1
    if len(set(posts)) < len(posts):
        cnt["belief_next_with_merged_posteriors"] += 1
    if len(set(posts)) > 1:
        cnt["belief_next_with_several_successors"] += 1


def run(ctx):
    tier = ctx.tier
    # at most 3 replay files per signature (a systematic defect fails thousands of generated cases)
    seen = {}
    raw_violation = ctx.violation

    def violation(sig, detail, found=True):
        seen[sig] = seen.get(sig, 0) + 1
        if seen[sig] <= 3:
            return raw_violation(sig, detail, found=found)
        return False
    ctx.violation = violation
    try:
        _run(ctx, tier)
    finally:
        ctx.violation = raw_violation
        ctx.coverage["violations_by_signature"] = dict(seen)


def _run(ctx, tier):
    ncases = 150 if tier == "quick" else 2500
    if ctx.replay_case:
        cases = [ctx.replay_case["detail"]["case"]]
    else:
        cases = [gen_case(ctx.rng, tier) for _ in range(ncases)]
    impl = ctx.impl("c07_impl.py", {"cases": cases}, shards=4 if tier == "quick" else 8)["results"]
    terms, meta = [], []
    feats, cnt = {}, {k: 0 for k in ("bao_triples", "impossible_observations", "rare_observations_Z_le_1e-8", "posteriors_with_tiny_component", "posteriors_with_zero_and_mixed_support",
                                     "belief_next_with_merged_posteriors", "belief_next_with_several_successors",
                                     "absorbing_beliefs", "beliefs", "belief_action_checks", "absorbing_beliefs_on_2plus_states_float_sum_not_1",
                                     "absorbing_successor_beliefs_on_2plus_states", "absorbing_successor_beliefs_float_sum_not_1",
                                     "belief_action_pairs_skipped_action_not_offered_on_support")}
    kinds = {}
    for i, (case, res) in enumerate(zip(cases, impl)):
        err = has_error(res)
        if err and isinstance(res.get("observation_matrix"), list) and isinstance(res.get("observation_list"), list):
            # a raise downstream (e.g. the predictive distribution's own assert) is often the consequence of a
            # wrong observation tensor: compare it exactly here, the Coq comparison is skipped for this case
            try:
                Ob_ = model_arrays(case, res)[4]
                if [[[vlib.frac(x) for x in r] for r in m] for m in res["observation_matrix"]] != \
                        [[[F(float(x)) for x in r] for r in m] for m in Ob_]:
                    ctx.violation("C07:observation_matrix:differs-from-observation_dist",
                                  {"case": case, "observation_matrix": res["observation_matrix"],
                                   "clause": "observation_matrix[a, ns, o] is not observation_dist(a, ns).prob(o)"}, found=True)
            except Exception:
                pass
        if err:
            # which quantity raised?  (inside the quantifier nothing may raise: the predictive
            # distribution's own  assert isclose(sum, 1)  is part of the property)
            where = res.get("stage", "setup")
            for bo in res.get("beliefs", []):
                for r in bo.get("actions", []) if isinstance(bo, dict) else []:
                    for k, v in r.items():
                        if has_error(v):
                            where = k
            sig = "C07:%s:raises:%s" % (where, err.split(":")[0])
            detail = {"case": case, "error": err, "impl": res}
            if where == "observation_matrix" and case["pomdp"].get("obs_ghost"):
                sig += ":explicit-zero-observation"
                detail["clause"] = ("the dictionary and vectorised versions agree: the kernel lists an observation with explicit "
                                    "probability 0 that is possible nowhere; the dictionary filter handles it, the observation "
                                    "matrix (hence the vectorised filter and predictive distribution) cannot be built")
            ctx.violation(sig, detail, found=not err.startswith("HarnessError"))
            continue
        if nonfinite(res):
            ctx.violation("C07:nonfinite-output", {"case": case, "impl": res}, found=True)
            continue
        p = case["pomdp"]
        if sorted(res["state_list"]) != list(range(p["n"])) or sorted(res["action_list"]) != list(range(p["nA"])) \
                or sorted(res["observation_list"]) != list(range(p["nO"])):
            ctx.violation("C07:index-lists-differ-from-generator",
                          {"case": case, "lists": [res["state_list"], res["action_list"], res["observation_list"]]}, found=False)
            continue
        # not clauses of the property, but the same objects: initial belief, action set, repeatability
        sl = res["state_list"]
        P_, R_, absf_, ini_, Ob_ = model_arrays(case, res)
        bi0 = res["belief_initial"]
        if len(bi0) != 1 or bi0[0][0] != sl or [vlib.frac(x) for x in bi0[0][1]] != [F(float(x)) for x in ini_] \
                or vlib.frac(bi0[0][2]) != 1:
            ctx.violation("C07:belief-mdp-initial-state-is-not-the-initial-distribution",
                          {"case": case, "belief_initial": bi0}, found=False)
        if any(r["belief_actions"] != res["action_list"] for bo in res["beliefs"] for r in bo["actions"]):
            ctx.violation("C07:belief-mdp-actions-differ-from-action-list", {"case": case}, found=False)
        # "holds the numbers the functions return": bit-exact against the doubles msdm was given
        if [[[vlib.frac(x) for x in r] for r in m] for m in res["observation_matrix"]] != \
                [[[F(float(x)) for x in r] for r in m] for m in Ob_]:
            ctx.violation("C07:observation_matrix:differs-from-observation_dist",
                          {"case": case, "observation_matrix": res["observation_matrix"],
                           "clause": "observation_matrix[a, ns, o] is not observation_dist(a, ns).prob(o)"}, found=True)
        for hi, steps in enumerate(res.get("histories", [])):
            feats["in_place_history_steps"] = feats.get("in_place_history_steps", 0) + len(steps)
            for t in range(1, len(steps)):
                feats["in_place_steps_same_action_as_previous"] = feats.get("in_place_steps_same_action_as_previous", 0) \
                    + int(steps[t]["ai"] == steps[t - 1]["ai"])
            why = oracle_history(case, res, steps)
            if why:
                ctx.violation("C07:%s:%s" % (why["cmp"], why["clause"]),
                              {"case": case, "in_place_history": case["histories"][hi], "history_index": hi,
                               "failing_clause": why, "impl_steps": steps,
                               "note": "one belief object updated in place between calls; every call is judged against "
                                       "the object's contents at the time of the call"}, found=True)
        if res.get("mutated_inputs"):
            ctx.violation("C07:caller-objects-mutated", {"case": case, "mutated": res["mutated_inputs"]}, found=False)
        if not res.get("stale_results_unchanged", True):
            ctx.violation("C07:object-reuse:earlier-results-changed-by-later-calls", {"case": case}, found=False)
        if res.get("rebuild_first_equal", True) is not True:
            ctx.violation("C07:object-reuse:same-pomdp-rebuilt-later-in-the-process-differs",
                          {"case": case, "rebuild_first_equal": res.get("rebuild_first_equal")}, found=False)
        feats["rebuild_first_checks"] = feats.get("rebuild_first_checks", 0) + int("rebuild_first_equal" in res)
        if not all(res["repeat_equal"]):
            ctx.violation("C07:object-reuse:second-evaluation-on-the-same-objects-differs",
                          {"case": case, "repeat_equal": res["repeat_equal"]}, found=False)
        v_ = case.get("variant", {})
        dk = "declared_lists=%s" % ("none" if not v_.get("declare") else "obs+state+action" if v_["declare"].get("S") else "obs")
        feats[dk] = feats.get(dk, 0) + 1
        for k_ in ("order", "int01", "dist_types", "share_objects", "shared_belief_objects"):
            key = "variant_%s=%s" % (k_, v_.get(k_))
            feats[key] = feats.get(key, 0) + 1
        key = "labels=%s" % ((v_.get("labels") or {}).get("scheme", "int"))
        feats[key] = feats.get(key, 0) + 1
        feats["explicit_lists"] = feats.get("explicit_lists", 0) + int(bool(case.get("explicit_lists")))
        terms.append(case_term(case, res))
        meta.append(i)
        for k, v in gen_pomdp.features(p).items():
            if isinstance(v, bool):
                feats[k] = feats.get(k, 0) + int(v)
        for bi, be in enumerate(case["beliefs"]):
            kinds[be["kind"]] = kinds.get(be["kind"], 0) + 1
            cnt["beliefs"] += 1
            cnt["absorbing_beliefs"] += int(bool(res["beliefs"][bi]["is_absorbing"]))
            fb = [float(F(be["b"][s_])) for s_ in res["state_list"]]
            ab_ = [bool(p["absorbing"][s_]) for s_ in res["state_list"]]
            if sum(1 for x in fb if x > 0) >= 2 and all(ab_[k_] for k_, x in enumerate(fb) if x > 0) and gen_pomdp.lr_float_sum(fb) != 1.0:
                cnt["absorbing_beliefs_on_2plus_states_float_sum_not_1"] += 1
            for r_ in res["beliefs"][bi]["actions"]:
                for nb_, _p in r_["belief_next"]:
                    fx = [float(vlib.frac(x)) for x in nb_]
                    if sum(1 for x in fx if x > 0) >= 2 and all(ab_[k_] for k_, x in enumerate(fx) if x > 0):
                        cnt["absorbing_successor_beliefs_on_2plus_states"] += 1
                        cnt["absorbing_successor_beliefs_float_sum_not_1"] += int(gen_pomdp.lr_float_sum(fx) != 1.0)
            for r in res["beliefs"][bi]["actions"]:
                cnt["belief_action_checks"] += 1
                stats_ba(case, res, bi, r["ai"], cnt)
            cnt["belief_action_pairs_skipped_action_not_offered_on_support"] += \
                len(res["action_list"]) - len(res["beliefs"][bi]["actions"])
    vals = ctx.coq(PRE, terms, shard=max(1, -(-len(terms) // (4 * ctx.jobs))) if terms else 1)
    distinct = set()
    nevals = 0
    for i, v in zip(meta, vals):
        case, res = cases[i], impl[i]
        if isinstance(v, vlib.CoqError):
            ctx.violation("C07:coq-evaluation-failed", {"case": case, "error": str(v)[:800]}, found=False)
            continue
        distinct.add(vlib.structural_hash(case["pomdp"]))
        wf, ome, bres = v
        if not wf:
            ctx.violation("C07:generated-pomdp-outside-quantifier", {"case": case}, found=False)
            continue
        if not ome:
            ctx.violation("C07:observation_matrix:differs-from-observation_dist",
                          {"case": case, "observation_matrix": res["observation_matrix"],
                           "clause": "observation_matrix[a, ns, o] is not observation_dist(a, ns).prob(o)"}, found=True)
        for bi, (bb, ares) in enumerate(bres):
            be = case["beliefs"][bi]
            nevals += 1
            if not bb[0]:
                ctx.violation("C07:generated-belief-outside-quantifier", {"case": case, "belief_index": bi}, found=False)
                continue
            if not bb[1]:
                sl = res["state_list"]
                absf = [bool(case["pomdp"]["absorbing"][s]) for s in sl]
                exact = all(absf[j] for j, s in enumerate(sl) if F(be["b"][s]) > 0)
                ctx.violation("C07:is_absorbing:not-iff-all-mass-on-absorbing-states",
                              {"case": case, "belief_index": bi, "belief": be, "impl": res["beliefs"][bi]["is_absorbing"],
                               "all_mass_on_absorbing": exact,
                               "clause": "a belief is absorbing exactly when all its mass is on absorbing states"},
                              found=(exact != bool(res["beliefs"][bi]["is_absorbing"])))
            for j, flags in enumerate(ares):
                ai = res["beliefs"][bi]["actions"][j]["ai"]
                nevals += 1
                failed = [c for c, okv in zip(CLAUSES, flags) if not okv]
                rj = res["beliefs"][bi]["actions"][j]
                absf_sl = [bool(case["pomdp"]["absorbing"][s]) for s in res["state_list"]]
                for (nb, _p), got in zip(rj["belief_next"], rj["belief_next_absorbing"]):
                    exact = all(absf_sl[k_] for k_, x in enumerate(nb) if vlib.frac(x) > 0)
                    if bool(got) != exact:
                        ctx.violation("C07:is_absorbing:not-iff-all-mass-on-absorbing-states",
                                      {"case": case, "belief_index": bi, "belief": be, "action_index": ai,
                                       "successor_belief": [float(vlib.frac(x)) for x in nb], "impl": got,
                                       "all_mass_on_absorbing": exact,
                                       "clause": "a belief (here: a successor belief produced by BeliefMDP.next_state_dist) is "
                                                 "absorbing exactly when all its mass is on absorbing states"}, found=True)
                        break
                rws = res["beliefs"][bi]["actions"][j]["belief_reward_by_successor"]
                if any(x != rws[0] for x in rws):
                    ctx.violation("C07:belief_reward:depends-on-the-successor-belief",
                                  {"case": case, "belief_index": bi, "belief": be, "action_index": ai, "rewards": rws,
                                   "clause": "the belief-MDP reward is the belief-expected immediate reward (one number per belief and action)"},
                                  found=True)
                if "belief_next_count" in failed and (not be["dyadic"] or any(
                        case["pomdp"].get(k_) for k_ in ("obs_tiny", "obs_near_twin", "nondyadic", "trans_tiny", "init_tiny"))):
                    # float arithmetic is exact only for k/8 data: otherwise rounding may split an exact tie
                    failed.remove("belief_next_count")
                if not failed:
                    continue
                why = oracle_ba(case, res, bi, j, only=failed)
                detail = {"case": case, "belief_index": bi, "belief": be, "action_index": ai,
                          "failed_comparisons": failed, "impl": res["beliefs"][bi]["actions"][j]}
                if why:
                    detail["failing_clause"] = why
                    ctx.violation("C07:%s:%s" % (failed[0], why["clause"]), detail, found=True)
                else:
                    detail["correspondence"] = "msdm's output differs from the mirror model/POMDP.v beyond 1e-13 (relative) but the exact oracle finds every property clause satisfied to 1e-9"
                    ctx.violation("C07:mirror-differs:%s" % "+".join(failed), detail, found=False)
    ctx.coverage.update({
        "evaluations": nevals,
        "distinct_nontrivial": len(distinct),
        "rule": "POMDPs from harness/gen_pomdp.py (1..5 states (1 state: 4%), 1..3 actions, 1..4 observations, k/8 probabilities with zero entries, "
                "action-dependent asymmetric observation kernels incl. uninformative / twin-column / deterministic ones, absorbing flags with and "
                "without exits, rewards, multi-state initial distributions; 40% of the POMDPs have observation entries 2^-30 / 2^-40 = possible but very rare observations; twin kernels with one column moved by 2^-30 = posteriors ~1e-9 apart that must stay distinct; 10% rewards scaled by 1000 / 2^16; unreachable states under explicit lists); beliefs per POMDP: all vertices, two faces, 2 grid points k/8, beliefs with a component 2^-30, an interior "
                "point, the initial distribution, absorbing-supported and leaking beliefs, 3 exactly computed reachable beliefs; for every belief all "
                "actions and all observations incl. impossible ones and one never emitted; distinct = structural hash of the POMDP; non-trivial = "
                "at least 2 states (all generated cases)",
        "samples": [{"case": cases[0], "impl": impl[0]}] if cases else [],
        "representations": "labels int/str/tuple/falsy (\"\", (), False, 0.0)/unsortable with sorted order != id order; explicit lists in id order "
                           "incl. unreachable states; whole-number probabilities/rewards as ints; Deterministic/Uniform/Dict distributions for kernels "
                           "and beliefs; belief dictionaries/tuples dense, sparse, permuted; vectors as ndarray/list/tuple/int array; numpy indices; "
                           "BeliefMDP's own initial Belief object; one POMDP class for all objects in a process, three orders of first use, "
                           "first beliefs re-evaluated at the end on the same objects",
        "pomdps": len(cases), "belief_kinds": kinds, "input_features": feats, **cnt,
    })
