"""C16 — multichain policy iteration, when it reports convergence, is gain/value optimal.

Correspondence: generated MDPs without dead ends (discounted with rewards of either sign; undiscounted
unichain / multichain, with and without absorbing states, rewards of either sign) -> msdm's
MultichainPolicyIteration (harness/impl/c16_impl.py) -> the proved-sound certificate checkers
model/Multichain.v:c16_gain_check / c16_disc_check evaluated by vm_compute on the returned tables
(exact rationals of the floats).

Undiscounted certificate (found here, checked in Coq, origin irrelevant for soundness):
  (g', h') = exact gain and bias of the returned policy (uniform on its support), by exact linear algebra on Fractions;
  w  = h_returned + M * g', M the least integer making the second dual family hold at non-gain-tight actions.
Independent oracles, used for the violation search only: an exact, self-certifying multichain policy
iteration on Fractions, and the multichain LP solved by scipy.optimize.linprog in the impl process.
When msdm reports converged=False the property says nothing; those cases are counted.
"""
import json
import math
import os
from fractions import Fraction as F
import vlib
from vlib import q, qlist, qmat, qten, nat, bmat, blist
import gen_mdp
import c01 as _c01   # exact-oracle helpers of the worked example: solve_linear, exact_vstar, model_masks

INFO = {
    "level": "proof",
    "coq_files": ["model/Multichain.v"],
    "trusted_base": [
        "model/Multichain.v c16_gain_check / c16_disc_check are evaluated on Q (NumQ); theorems are on R; tied by paramcoq transfer (theory/MultichainTransfer.v)",
        "generated parameters (gamma, probabilities, rewards) reach the model exactly and msdm as nearest doubles",
        "long-run average reward is expressed through the T-step expected total reward Jn of history-dependent randomised policies, for every T (model/Multichain.v)",
    ],
    "assumptions": ["MDP arrays of the model are built from the generator's definition in the state/action order msdm reports",
                    "the property is silent when converged=False (those runs are counted, not judged)"],
}

PRE = """From Coq Require Import QArith List Bool.
From MSDM Require Import base.Num base.NumInst model.MDP model.VI model.Multichain.
Import ListNotations.
Local Open Scope Q_scope.
Definition chkg nS nA P R av ab ini gm g h Pi ig iv g' w h' dup dlo gt pt it dt :=
  let m := mk_mdp nS nA P R av ab ini gm in
  let o := mk_mc g h Pi ig iv in
  let c := mk_gc g' w h' dup dlo gt pt it in
  (@c16_gain_check Q NumQ m o c, @c16_tight_check Q NumQ m o c dt).
Definition chkd nS nA P R av ab ini gm g h Pi ig iv e1 e2 e3 e4 e5 :=
  @c16_disc_check Q NumQ (mk_mdp nS nA P R av ab ini gm) (mk_mc g h Pi ig iv) (mkDT e1 e2 e3 e4 e5).
"""

GCLAUSES = ["wfb", "gamma=1", "gain_cert", "gain_attained_cert", "gain_close", "policy_dist", "initial"]
DCLAUSES = ["wfb", "gamma<1", "bellman_residual", "policy_support", "gain_zero", "policy_dist", "initial"]


# ----------------------------------------------------------------------------
# generation
# ----------------------------------------------------------------------------
def _either_sign(rng, **kw):
    """gen_mdp forces non-positive rewards when gamma = 1; the property allows either sign:
    generate as discounted, then set gamma."""
    m = gen_mdp.gen_mdp(rng, gamma="1/2", **kw)
    m["gamma"] = "1"
    return m


def gen_blocks(rng, nmax):
    """explicitly multichain: 2-3 closed blocks with their own reward level, optional terminal state,
    and transient states whose actions enter different blocks"""
    nb = rng.randint(2, 3)
    sizes = [rng.randint(1, 2) for _ in range(nb)]
    nterm = rng.choice([0, 0, 1])
    ntrans = rng.randint(1, max(1, nmax - sum(sizes) - nterm))
    n = sum(sizes) + nterm + ntrans
    nA = rng.randint(2, 3)
    blocks, k = [], 0
    for sz in sizes:
        blocks.append(list(range(k, k + sz)))
        k += sz
    term = list(range(k, k + nterm))
    k += nterm
    trans_states = list(range(k, n))
    actions, trans, reward = [None] * n, {}, {}
    absorbing = [s in term for s in range(n)]

    def row(s, a, succ):
        ps = gen_mdp._split_prob(rng, len(succ))
        trans["%d,%d" % (s, a)] = [[ns, str(p)] for ns, p in zip(succ, ps)]
        for ns in succ:
            if rng.random() < .8:
                r = F(rng.randint(-16, 16), 4) if rng.random() < .3 else F(rng.randint(-4, 4))
                if r != 0:
                    reward["%d,%d,%d" % (s, a, ns)] = str(r)
    for b in blocks:
        for s in b:
            actions[s] = sorted(rng.sample(range(nA), rng.randint(1, nA)))
            for a in actions[s]:
                row(s, a, rng.sample(b, rng.randint(1, len(b))))
    for s in term:
        actions[s] = sorted(rng.sample(range(nA), rng.randint(1, nA)))
        for a in actions[s]:
            trans["%d,%d" % (s, a)] = [[s, "1"]]
            if rng.random() < .4:
                reward["%d,%d,%d" % (s, a, s)] = str(rng.choice([-3, 2, 5]))
    for s in trans_states:
        actions[s] = sorted(rng.sample(range(nA), rng.randint(2, nA)))
        for a in actions[s]:
            pool = [x for x in range(n) if x != s or rng.random() < .3]
            row(s, a, rng.sample(pool, rng.randint(1, min(3, len(pool)))))
    # start in transient states so that everything is reachable with high probability
    starts = rng.sample(trans_states, rng.randint(1, min(2, len(trans_states))))
    extra = [b[0] for b in blocks if rng.random() < .7]
    starts = list(dict.fromkeys(starts + extra))[:3]
    ps = gen_mdp._split_prob(rng, len(starts))
    return {"n": n, "nA": nA, "actions": actions, "trans": trans, "reward": reward, "absorbing": absorbing,
            "init": [[s, str(p)] for s, p in zip(starts, ps)], "gamma": "1"}


def gen_farms(rng):
    """gain-class choice with exact (or near, or no) bias ties: 2-3 closed "farms" of different gain
    (a self-loop, or a deterministic 2-cycle entered at its lowest-index state, whose bias is the
    reference 0), an optional terminal state (gain 0), and 1-2 choice states whose actions enter
    different farms for a one-off reward -- or stay put for a per-step reward.  With equal one-off
    rewards the action values of the bias TIE EXACTLY across farms of different gain, so only the
    gain criterion separates the optimal action from one that leads into a lower-gain class."""
    nA = rng.randint(2, 3)
    gains = rng.sample([F(x, 2) for x in range(-6, 9)], rng.randint(2, 3))
    trans, reward, actions, entries = {}, {}, [], []
    k = 0
    for gval in gains:
        a = rng.randrange(nA)
        if rng.random() < .6:
            actions.append([a])
            trans["%d,%d" % (k, a)] = [[k, "1"]]
            if gval != 0:
                reward["%d,%d,%d" % (k, a, k)] = str(gval)
            else:                      # a zero-reward certain self-loop would be an (implicit) terminal state
                reward["%d,%d,%d" % (k, a, k)] = "1"
            entries.append(k)
            k += 1
        else:
            x = F(rng.randint(-8, 8), 2)
            y = 2 * gval - x
            b = rng.randrange(nA)
            actions += [[a], [b]]
            trans["%d,%d" % (k, a)] = [[k + 1, "1"]]
            trans["%d,%d" % (k + 1, b)] = [[k, "1"]]
            if x != 0:
                reward["%d,%d,%d" % (k, a, k + 1)] = str(x)
            if y != 0:
                reward["%d,%d,%d" % (k + 1, b, k)] = str(y)
            entries.append(k)
            k += 2
    absorbing = [False] * k
    if rng.random() < .3:
        a = rng.randrange(nA)
        actions.append([a])
        trans["%d,%d" % (k, a)] = [[k, "1"]]
        absorbing.append(True)
        entries.append(k)
        k += 1
    nchoice = rng.randint(1, 2)
    choice = list(range(k, k + nchoice))
    n = k + nchoice
    absorbing += [False] * nchoice
    mode = rng.choice(["exact", "exact", "exact", "near", "none"])
    for s in choice:
        acts = sorted(rng.sample(range(nA), rng.randint(2, nA)))
        actions.append(acts)
        c = F(rng.randint(-8, 12), 2)
        for j, a in enumerate(acts):
            if mode == "exact":
                cj = c
            elif mode == "near":
                cj = c + rng.choice([F(0), F(1, 10**11), F(-1, 10**11), F(1, 10**9)])
            else:
                cj = F(rng.randint(-8, 12), 2)
            u = rng.random()
            if u < .2 and c != 0:
                # stay: the choice state is its own class paying c per step (bias action value c when it is the policy)
                trans["%d,%d" % (s, a)] = [[s, "1"]]
                reward["%d,%d,%d" % (s, a, s)] = str(cj if cj != 0 else c)
            elif u < .4 and len(entries) >= 2:
                e1, e2 = rng.sample(entries, 2)
                p = rng.choice([F(1, 2), F(1, 4), F(3, 8)])
                trans["%d,%d" % (s, a)] = [[e1, str(p)], [e2, str(1 - p)]]
                if cj != 0:
                    reward["%d,%d,%d" % (s, a, e1)] = str(cj)
                    reward["%d,%d,%d" % (s, a, e2)] = str(cj)
            elif u < .5 and s != choice[0]:
                trans["%d,%d" % (s, a)] = [[choice[0], "1"]]
                if cj != 0:
                    reward["%d,%d,%d" % (s, a, choice[0])] = str(cj)
            else:
                e = entries[(j + rng.randrange(len(entries))) % len(entries)] if rng.random() < .5 else rng.choice(entries)
                trans["%d,%d" % (s, a)] = [[e, "1"]]
                if cj != 0:
                    reward["%d,%d,%d" % (s, a, e)] = str(cj)
    ps = gen_mdp._split_prob(rng, len(choice))
    init = [[s, str(p)] for s, p in zip(choice, ps)]
    return {"n": n, "nA": nA, "actions": actions, "trans": trans, "reward": reward, "absorbing": absorbing,
            "init": init, "gamma": "1"}


def gen_components(rng):
    """discounted MDPs made of many disconnected components (paying self-loops, 2-state components,
    the odd terminal state), 5-8 states, all components initial: every policy has many closed classes,
    so the rows of (gamma*P - I) are individually small (1-gamma) and their Gram determinant is tiny"""
    n = rng.randint(5, 8)
    nA = rng.randint(1, 2)
    actions, trans, reward = [None] * n, {}, {}
    absorbing = [False] * n
    s = 0
    while s < n:
        size = 1 if (rng.random() < .65 or s == n - 1) else 2
        comp = list(range(s, s + size))
        for u in comp:
            actions[u] = sorted(rng.sample(range(nA), rng.randint(1, nA)))
            if size == 1 and rng.random() < .1:
                absorbing[u] = True
            for a in actions[u]:
                if size == 1 or rng.random() < .3:
                    row = [[u, F(1)]] if size == 1 else [[comp[0], F(1, 2)], [comp[1], F(1, 2)]]
                else:
                    p = rng.choice([F(1), F(1, 4), F(5, 8)])
                    other = comp[1] if u == comp[0] else comp[0]
                    row = [[other, p]] + ([[u, 1 - p]] if p != 1 else [])
                trans["%d,%d" % (u, a)] = [[ns, str(p)] for ns, p in row]
                for ns, p in row:
                    r = F(rng.randint(-4, 4)) or F(1)
                    reward["%d,%d,%d" % (u, a, ns)] = str(r)
        s += size
    starts = list(range(n))
    ps = gen_mdp._split_prob(rng, n) if n <= 8 else None
    return {"n": n, "nA": nA, "actions": actions, "trans": trans, "reward": reward, "absorbing": absorbing,
            "init": [[u, str(p)] for u, p in zip(starts, ps)], "gamma": rng.choice(["9/10", "19/20", "49/50", "99/100"])}


def nondyadic(rng, m):
    """same support and structure, NON-DYADIC numbers: every transition row re-split into thirds / sevenths / tenths
    (e.g. 1/3 1/3 1/3, 7/10 2/10 1/10: float row sums are not exactly 1.0), rewards moved onto tenths / thirds"""
    import copy
    b = copy.deepcopy(m)
    memo = {}
    for k, row in b["trans"].items():
        key = json.dumps(row)
        if key in memo:                                   # duplicate rows stay exact duplicates
            b["trans"][k] = copy.deepcopy(memo[key])
            continue
        pos = [i for i, (ns, p) in enumerate(row) if F(p) != 0]
        if len(pos) >= 2:
            den = rng.choice([d_ for d_ in (3, 7, 10) if d_ >= len(pos)])
            cuts = sorted(rng.sample(range(1, den), len(pos) - 1))
            parts = [y - x for x, y in zip([0] + cuts, cuts + [den])]
            for i, q_ in zip(pos, parts):
                row[i][1] = str(F(q_, den))
        memo[key] = copy.deepcopy(row)
    rmap = {}
    for k, r in list(b["reward"].items()):
        if r not in rmap:
            rmap[r] = str(F(r) + rng.choice([F(0), F(1, 10), F(-3, 10), F(1, 3), F(7, 10)]))
        if F(rmap[r]) != 0:
            b["reward"][k] = rmap[r]
    return b


def _dy(rng, lo, hi, den=4):
    """a dyadic rational in [lo, hi]"""
    return F(rng.randint(lo * den, hi * den), den)


def gen_large_costs(rng):
    """undiscounted, NO terminal state, state-dependent action sets, per-step costs of large magnitude
    (level 100 .. 1000, dyadic): a recurrent core whose every action costs about -level per step, and
    1-2 pure entry states (never re-entered) that lack at least one action id used elsewhere.
    Gains and bias look-aheads are far below any finite stand-in for "minus infinity"."""
    level = rng.choice([100, 400, 800, 900, 1000])
    nA = rng.randint(2, 3)
    ncore = rng.randint(1, 3)
    nentry = rng.randint(1, 2)
    n = ncore + nentry
    core, entry = list(range(ncore)), list(range(ncore, n))
    actions, trans, reward = [None] * n, {}, {}

    def row(s, a, succ):
        ps = gen_mdp._split_prob(rng, len(succ))
        trans["%d,%d" % (s, a)] = [[ns, str(p)] for ns, p in zip(succ, ps)]
        for ns in succ:
            reward["%d,%d,%d" % (s, a, ns)] = str(-_dy(rng, int(level * .8), int(level * 1.2)))
    for s in core:
        actions[s] = sorted(rng.sample(range(nA), rng.randint(1, nA)))
        for a in actions[s]:
            row(s, a, rng.sample(core, rng.randint(1, len(core))))
    for s in entry:
        k = rng.randint(1, nA - 1)                      # lacks at least one action id
        actions[s] = sorted(rng.sample(range(nA), k))
        for a in actions[s]:
            pool = core + [x for x in entry if x < s]   # never back into itself: a pure entry state
            row(s, a, rng.sample(pool, rng.randint(1, min(2, len(pool)))))
    # make sure every action id is used by some state (else the id disappears from action_list)
    used = {a for acts in actions for a in acts}
    for a in range(nA):
        if a not in used:
            s = rng.choice(core)
            actions[s] = sorted(actions[s] + [a])
            row(s, a, rng.sample(core, rng.randint(1, len(core))))
    ps = gen_mdp._split_prob(rng, len(entry))
    return {"n": n, "nA": nA, "actions": actions, "trans": trans, "reward": reward, "absorbing": [False] * n,
            "init": [[s, str(p)] for s, p in zip(entry, ps)], "gamma": "1"}


# discount rates within 1e-5 of 1 (and one just outside), exact rationals
BOUNDARY = ["1048575/1048576", "199999/200000", "131071/131072", "16383/16384"]


def gen_episodic_near_one(rng, tier):
    """EPISODIC problems with a discount rate within about 1e-5 of 1: a stochastic corridor of 8-24 cells
    ending in a terminal state (forward with probability p >= 1/2, else stay / slip back), dyadic per-step costs
    (sometimes of large magnitude).  Long horizons make the discounted optimum visibly different from the
    undiscounted one ((1-gamma)*H^2/2*|cost|).  Choices, where present, have LARGE gaps (a second action
    with the same row and a clearly worse cost) or are exact duplicates: no action-value gap lies inside
    the improvement test's relative band, so values are judged at 1e-7 relative."""
    L = rng.randint(8, 16 if tier == "quick" else 24)
    nA = rng.randint(1, 2)
    n = L + 1
    cost = _dy(rng, 1, 8) if rng.random() < .7 else _dy(rng, 100, 1000)
    actions, trans, reward = [None] * n, {}, {}
    absorbing = [False] * L + [True]
    for s in range(L):
        # expected horizon stays <= ~2.5 L steps (|V*| <= ~60 |cost|): the evaluation step is accurate there
        # (much longer horizons run into the Gram-system conditioning recorded for continuing problems)
        p = F(rng.randint(4, 7), 8)
        back = s - 1 if (s > 0 and p >= F(3, 4) and rng.random() < .3) else s
        row = [[s + 1, p], [back, 1 - p]]
        c = cost * rng.choice([1, 1, 2]) if rng.random() < .2 else cost
        actions[s] = [0]
        trans["%d,0" % s] = [[ns, str(q)] for ns, q in row]
        for ns, q in row:
            reward["%d,0,%d" % (s, ns)] = str(-c)
        if nA == 2 and rng.random() < .5:
            actions[s] = [0, 1]
            trans["%d,1" % s] = [[ns, str(q)] for ns, q in row]
            worse = c if rng.random() < .3 else 2 * c        # exact duplicate, or clearly worse
            for ns, q in row:
                reward["%d,1,%d" % (s, ns)] = str(-worse)
    actions[L] = [0]
    trans["%d,0" % L] = [[L, "1"]]
    return {"n": n, "nA": nA, "actions": actions, "trans": trans, "reward": reward, "absorbing": absorbing,
            "init": [[0, "1"]], "gamma": rng.choice(BOUNDARY)}


def perturb(rng, m):
    """same states / actions / labels, perturbed transitions: probabilities turned to 0 (a successor
    removed), from 0 (a leak to a new successor), or re-split -- changes the recurrent-class structure"""
    import copy
    b = copy.deepcopy(m)
    rows = [k for k in b["trans"] if not b["absorbing"][int(k.split(",")[0])]]
    # certain rows (self-loops, deterministic cycles) are what closed classes are made of: leaking out of one
    # turns a closed class into a transient one -- always include one when there is one
    certain = [k for k in rows if len([1 for ns, p in b["trans"][k] if F(p) != 0]) == 1]
    chosen = rng.sample(rows, min(len(rows), rng.randint(1, 3)))
    if certain:
        k0 = rng.choice(certain)
        chosen = [k0] + [k for k in chosen if k != k0]
    for idx, k in enumerate(chosen):
        s, a = map(int, k.split(","))
        row = [[ns, F(p)] for ns, p in b["trans"][k] if F(p) != 0]
        op = "leak" if (idx == 0 and certain) else rng.choice(["leak", "leak", "drop", "resplit"])
        succ = [ns for ns, _ in row]
        others = [x for x in range(b["n"]) if x not in succ]
        if op == "leak" and others:
            j = max(range(len(row)), key=lambda i: row[i][1])
            if row[j][1] > F(1, 8):
                dp = F(rng.randint(1, int(row[j][1] * 8) - 1 if row[j][1] * 8 > 1 else 1), 8)
                dp = min(dp, row[j][1] - F(1, 8))
                if dp > 0:
                    ns = rng.choice(others)
                    row[j][1] -= dp
                    row.append([ns, dp])
                    r = F(rng.randint(-4, 4))
                    if r != 0:
                        b["reward"]["%d,%d,%d" % (s, a, ns)] = str(r)
        elif op == "drop" and len(row) >= 2:
            j = rng.randrange(len(row))
            ns, p = row.pop(j)
            row[rng.randrange(len(row))][1] += p
            b["reward"].pop("%d,%d,%d" % (s, a, ns), None)
        elif len(row) >= 2:
            ps = gen_mdp._split_prob(rng, len(row))
            row = [[ns, p] for (ns, _), p in zip(row, ps)]
        b["trans"][k] = [[ns, str(p)] for ns, p in row]
    return b


def gen_sweep(rng, tier):
    """multi-step scenario: ONE planner object plans on A, then B (A with perturbed transitions), then A
    again (sometimes a further perturbation C): undiscounted, every state initial (so all problems of the
    sweep have the same state list)"""
    nmax = 5 if tier == "quick" else 7
    base = rng.choice(["blocks", "recurrent", "farms", "farms"])
    if base == "blocks":
        a = gen_blocks(rng, nmax)
    elif base == "farms":
        a = gen_farms(rng)
    else:
        a = _either_sign(rng, nmax=nmax, amax=3, min_states=3, goal=False, implicit_absorbing=False)
    if a["n"] <= 8:
        ps = gen_mdp._split_prob(rng, a["n"])
        a["init"] = [[s, str(p)] for s, p in zip(range(a["n"]), ps)]
    b = perturb(rng, a)
    if rng.random() < .5:
        a, b = b, a        # either direction: closed -> leaky (too few equations reused) or leaky -> closed (too many)
    more = [b, a] if rng.random() < .6 else [b, perturb(rng, b), a]
    if rng.random() < .35:
        # an unrelated problem of a DIFFERENT size (and discounting) planned by the same object in between
        other = gen_mdp.gen_mdp(rng, nmax=nmax + 2, amax=3, min_states=2, gamma=rng.choice(["1", "9/10"]), proper=True)
        other["init"] = [[s_, p_] for s_, p_ in other["init"] if F(p_) != 0]
        more.insert(rng.randrange(len(more)), other)
    return a, more


# ordinary discount rates, incl. [.98, .995]: BELOW the gamma-near-one class (1-gamma <= 2^-10), judged at full strength
DISC_GAMMAS = ["0", "1/4", "1/2", "9/10", "19/20", "49/50", "99/100", "199/200"]


def gen_discount_decides(rng):
    """the DISCOUNT RATE decides between actions.  Two independent gadgets per MDP: at a choice state 'now' pays A and ends,
    'later' walks k steps (reward 0) and then collects B: Q(now) = A, Q(later) = gamma^k * B.  In one gadget A is a factor
    m = (1+gamma)/2 INSIDE gamma^k*B (later is optimal; any DECREASE of the effective discount by more than (1-gamma)/2
    relative -- in the evaluation or in the improvement step -- flips it), in the other a factor 1/m OUTSIDE (now is
    optimal; an INCREASE flips it).  gamma in {0, 1/4, 1/2, 4/5, 9/10, 19/20}; a random feeder state starts the episode."""
    gam = F(rng.choice(["0", "0", "1/4", "1/2", "1/2", "4/5", "4/5", "9/10", "19/20"]))
    m = (1 + gam) / 2 if gam > 0 else F(1, 2)
    actions, trans, reward, absorbing, choice = [], {}, {}, [], []
    for inside in (True, False):
        base = len(actions)
        k = rng.randint(1, 3)
        B = F(rng.randint(2, 12)) * rng.choice([1, 1, -1])
        target = gam ** k * B
        if gam == 0:
            A = F(rng.choice([-2, -1, 1, 2]))        # 'later' is worth exactly 0
        elif (B > 0) == inside:
            A = target * m                           # later optimal for B > 0 (resp. now optimal for B < 0)
        else:
            A = target / m
        term = base + k + 1
        now_id, later_id = rng.sample([0, 1], 2)
        actions.append([0, 1])
        trans["%d,%d" % (base, now_id)] = [[term, "1"]]
        if A != 0:
            reward["%d,%d,%d" % (base, now_id, term)] = str(A)
        trans["%d,%d" % (base, later_id)] = [[base + 1, "1"]]
        for i in range(base + 1, base + k + 1):
            a = rng.randrange(2)
            actions.append([a])
            trans["%d,%d" % (i, a)] = [[i + 1, "1"]]
            if i == base + k:
                reward["%d,%d,%d" % (i, a, i + 1)] = str(B)
        actions.append([0])
        trans["%d,0" % term] = [[term, "1"]]
        absorbing += [False] * (k + 1) + [True]
        choice.append(base)
    x = len(actions)                                  # feeder: enters either gadget, sometimes lingers
    p = F(rng.randint(1, 3), 8)
    q_ = F(rng.randint(1, 3), 8)
    actions.append([0])
    row = [[choice[0], str(p)], [choice[1], str(q_)], [x, str(1 - p - q_)]]
    trans["%d,0" % x] = row
    r = F(rng.randint(-3, 3))
    if r != 0:
        for ns, _ in row:
            reward["%d,0,%d" % (x, ns)] = str(r)
    absorbing.append(False)
    return {"n": len(actions), "nA": 2, "actions": actions, "trans": trans, "reward": reward, "absorbing": absorbing,
            "init": [[x, "1"]], "gamma": str(gam)}


def gen_near_tie(rng, worse_first=False):
    """discounted, value scale ~1e3, and a NEAR TIE: at one state the optimal action a has a clone b (same
    transition row) whose reward is smaller by delta = rho*|Q*(s,a)|, rho in [1e-6, 1e-5] -- inside the
    relative band of np.isclose, far above an absolute 1e-10.  By default b has a higher action id than a, so
    policy iteration never sits on b (it starts on the lowest available id and only moves to strict float
    maximisers); worse_first=True makes b the lowest id of that state (the initial policy)."""
    for _ in range(50):
        m = gen_mdp.gen_mdp(rng, nmax=4, amax=2, min_states=2, gamma=rng.choice(["9/10", "19/20", "49/50", "99/100"]),
                            zero_entries=False, implicit_absorbing=False)
        m["init"] = [[s_, p_] for s_, p_ in m["init"] if F(p_) != 0]
        n = m["n"]
        sl, al = list(range(n)), list(range(3))
        P, R, av, absf, ini = gen_mdp.arrays(m, sl, al)
        gam = F(m["gamma"])
        absorbing, _ = _c01.model_masks(P, R, av, absf, gam)
        Vs = _c01.exact_vstar(P, R, av, absorbing, gam)
        if Vs is None or max(abs(x) for x in Vs) == 0:
            continue
        K = F(max(1, int(1000 / max(abs(x) for x in Vs))))
        reach = gen_mdp.reachable(m)
        cands = [s_ for s_ in range(n) if not absorbing[s_] and s_ in reach and len(m["actions"][s_]) <= 2]
        if not cands:
            continue
        s0 = rng.choice(cands)
        qs = {a: sum(P[s0][a][k] * (R[s0][a][k] + gam * Vs[k]) for k in range(n)) for a in m["actions"][s0]}
        a = max(qs, key=lambda x: qs[x])
        if sum(1 for x in qs.values() if x == qs[a]) > 1 or qs[a] == 0:
            continue
        # relabel the actions of s0 so that the clone gets the wanted position
        others = [x for x in m["actions"][s0] if x != a]
        ids = [0, 1, 2]
        if worse_first:
            b_id, a_id = 0, rng.choice([1, 2])
        else:
            a_id = rng.choice([0, 1]); b_id = rng.choice([x for x in ids if x > a_id])
        o_id = [x for x in ids if x not in (a_id, b_id)][0]
        ren = {a: a_id}
        if others:
            ren[others[0]] = o_id
        rho = F(rng.randint(1, 10), 10**6)
        delta = rho * abs(qs[a]) * K
        delta = F(int(delta * 10**6) + 1, 10**6)            # a short decimal, > 0
        trans, reward = {}, {}
        for key, row in m["trans"].items():
            s_, a_ = map(int, key.split(","))
            a2 = ren[a_] if s_ == s0 else a_
            trans["%d,%d" % (s_, a2)] = row
        for key, r_ in m["reward"].items():
            s_, a_, ns = map(int, key.split(","))
            a2 = ren[a_] if s_ == s0 else a_
            reward["%d,%d,%d" % (s_, a2, ns)] = str(F(r_) * K)
        row = [[ns, p_] for ns, p_ in m["trans"]["%d,%d" % (s0, a)]]
        trans["%d,%d" % (s0, b_id)] = row
        for ns, p_ in row:
            reward["%d,%d,%d" % (s0, b_id, ns)] = str(F(m["reward"].get("%d,%d,%d" % (s0, a, ns), "0")) * K - delta)
        actions = [list(x) for x in m["actions"]]
        actions[s0] = sorted(set(ren.values()) | {b_id})
        return dict(m, nA=3, actions=actions, trans=trans, reward=reward), {"state": s0, "better": a_id, "worse": b_id, "rho": str(rho)}
    return gen_mdp.gen_mdp(rng, nmax=4, amax=2, gamma="9/10"), None


def gen_gain_near_tie(rng):
    """undiscounted: a choice state enters one of two closed self-loops whose per-step rewards (gains) differ by a
    RELATIVE 1e-6..1e-5 (at scale 1, 50 or 1000), for EQUAL one-off rewards (exact bias tie): only an absolute /
    exact comparison of the gains separates the optimal action from the other one"""
    G = F(rng.choice([1, 50, 1000]))
    rho = F(rng.randint(1, 9), 10**6)
    lo = G * (1 - rho)
    better_first = rng.random() < .5
    g1, g2 = (G, lo) if better_first else (lo, G)
    c = F(rng.randint(-4, 4))
    trans = {"0,0": [[1, "1"]], "0,1": [[2, "1"]], "1,0": [[1, "1"]], "2,0": [[2, "1"]]}
    reward = {"1,0,1": str(g1), "2,0,2": str(g2)}
    if c != 0:
        reward["0,0,1"] = str(c); reward["0,1,2"] = str(c)
    return {"n": 3, "nA": 2, "actions": [[0, 1], [0], [0]], "trans": trans, "reward": reward,
            "absorbing": [False, False, False], "init": [[0, "1"]], "gamma": "1"}


def gen_absorbing_exits(rng):
    """states FLAGGED absorbing (is_absorbing) that still have SEVERAL actions whose next-state distributions lead to other
    states (what msdm's own grid domains do for goal cells): the planner must ignore those rows, yet its action-gain table
    sees them.  Around them: self-loop classes of different gain and 2-state cycles whose better action (same transition,
    higher reward) is only found by the BIAS step; the worse action and the lower-gain exit come first with probability .7.
    Every state is initial, so every successor of a flagged state is in the state list anyway."""
    nA = rng.randint(2, 3)
    actions, trans, reward, absorbing, entries, egain = [], {}, {}, [], [], {}
    def add(acts):
        actions.append(sorted(acts)); absorbing.append(False); return len(actions) - 1
    for _ in range(rng.randint(1, 2)):                 # paying self-loops
        a = rng.randrange(nA); s = add([a])
        trans["%d,%d" % (s, a)] = [[s, "1"]]
        gval = F(rng.choice([x for x in range(-3, 6) if x != 0]), rng.choice([1, 2]))
        reward["%d,%d,%d" % (s, a, s)] = str(gval)
        entries.append(s); egain[s] = gval
    for _ in range(rng.randint(1, 2)):                 # cycles u <-> v, u chooses its reward
        a1, a2 = rng.sample(range(nA), 2)
        lo, hi = sorted(rng.sample([F(x, 2) for x in range(-6, 12)], 2))
        if (a1 < a2) != (rng.random() < .7):
            a1, a2 = a2, a1                            # w.p. .7 the lower action id carries the LOWER reward
        u = add([a1, a2]); b = rng.randrange(nA); v = add([b])
        trans["%d,%d" % (u, a1)] = [[v, "1"]]; trans["%d,%d" % (u, a2)] = [[v, "1"]]
        if lo != 0: reward["%d,%d,%d" % (u, a1, v)] = str(lo)
        if hi != 0: reward["%d,%d,%d" % (u, a2, v)] = str(hi)
        trans["%d,%d" % (v, b)] = [[u, "1"]]
        back = F(rng.randint(-2, 2))
        if back != 0: reward["%d,%d,%d" % (v, b, u)] = str(back)
        entries.append(u); egain[u] = (hi + back) / 2
    for _ in range(rng.randint(1, 2)):                 # flagged terminal states with exits
        k = rng.randint(2, min(nA, len(entries) + 1))
        acts = sorted(rng.sample(range(nA), k))
        t = add(acts); absorbing[t] = True
        targets = rng.sample(entries, min(k, len(entries)))
        while len(targets) < k:
            targets.append(rng.choice(entries))
        if rng.random() < .7:
            targets.sort(key=lambda e_: egain[e_])     # the lowest-gain exit is the first action (the initial policy)
        for a, e in zip(acts, targets):
            if rng.random() < .25:
                e2 = rng.choice(entries)
                trans["%d,%d" % (t, a)] = [[e, "1/2"], [e2, "1/2"]] if e2 != e else [[e, "1"]]
            else:
                trans["%d,%d" % (t, a)] = [[e, "1"]]
            if rng.random() < .5:                      # rewards "in" the terminal state must be ignored
                for ns, _ in trans["%d,%d" % (t, a)]:
                    reward["%d,%d,%d" % (t, a, ns)] = str(rng.choice([-5, 3, 7]))
    if rng.random() < .25:                             # a transient chooser that may also step into a terminal state
        acts = sorted(rng.sample(range(nA), rng.randint(2, nA)))
        c = add(acts)
        pool = list(range(c))
        for a in acts:
            succ = rng.sample(pool, rng.randint(1, min(2, len(pool))))
            ps = gen_mdp._split_prob(rng, len(succ))
            trans["%d,%d" % (c, a)] = [[ns, str(p_)] for ns, p_ in zip(succ, ps)]
            r = F(rng.randint(-4, 4))
            if r != 0:
                for ns in succ: reward["%d,%d,%d" % (c, a, ns)] = str(r)
    n = len(actions)
    ps = gen_mdp._split_prob(rng, n) if n <= 8 else [F(1, n)] * n
    return {"n": n, "nA": nA, "actions": actions, "trans": trans, "reward": reward, "absorbing": absorbing,
            "init": [[s, str(p_)] for s, p_ in zip(range(n), ps)], "gamma": "1" if rng.random() < .8 else rng.choice(["9/10", "1/2"])}


def degenerate_rewards(rng, m):
    """same MDP, DEGENERATE rewards: every state-action pair has expected reward exactly 0 once absorbing rows are zeroed --
    (zero) no reward at all, (terminal-only) rewards only on rows of flagged-absorbing states, (lottery) zero-mean lotteries
    r_i = c*p_j, r_j = -c*p_i on two successors.  Every policy is optimal (all gains / values 0): what remains to be right is
    the SUPPORT (state-dependent action sets) and the zero tables."""
    import copy
    b = copy.deepcopy(m)
    mode = rng.choice(["zero", "terminal-only", "lottery", "lottery"])
    keep = {}
    if mode == "terminal-only":
        keep = {k_: v_ for k_, v_ in b["reward"].items() if b["absorbing"][int(k_.split(",")[0])]}
        for s_ in range(b["n"]):
            if b["absorbing"][s_]:
                for a in b["actions"][s_]:
                    for ns, p_ in b["trans"]["%d,%d" % (s_, a)]:
                        if F(p_) != 0 and rng.random() < .7:
                            keep["%d,%d,%d" % (s_, a, ns)] = str(rng.choice([-4, 2, 9]))
    elif mode == "lottery":
        memo = {}
        for k_, row in b["trans"].items():
            s_, a = map(int, k_.split(","))
            pos = [(ns, F(p_)) for ns, p_ in row if F(p_) != 0]
            key = json.dumps(row)
            if len(pos) >= 2 and not b["absorbing"][s_]:
                if key not in memo:
                    memo[key] = F(rng.choice([-8, -2, 1, 4, 6]))
                c = memo[key]
                (i, pi_), (j, pj) = pos[0], pos[1]
                keep["%d,%d,%d" % (s_, a, i)] = str(c * pj)
                keep["%d,%d,%d" % (s_, a, j)] = str(-c * pi_)
    b["reward"] = keep
    return b, mode


TINY_K = [8, 10, 20, 27, 30, 40, 52]


def gen_tiny(rng):
    """transition probabilities 2^-k and 1 - 2^-k, k in {8,10,20,27,30,40,52}: almost absorbing self-loops, almost
    unreachable exits, almost disconnected recurrent classes, multi-state classes with a tiny leak; mostly undiscounted"""
    e = F(1, 2 ** rng.choice(TINY_K))
    e2 = e if rng.random() < .6 else F(1, 2 ** rng.choice(TINY_K))
    h = F(1, 2)
    shape = rng.choice(["leak-selfloop", "two-selfloops", "asym", "exit-terminal", "tiny-exit", "cycle-leak",
                        "pair-leak", "cycle-leak-terminal", "chain-selfloops", "choice", "cycle-leak", "pair-leak",
                        "tiny-init", "tiny-init", "tiny-init", "tiny-init", "big-reward", "big-reward"]
                       + ["zero-reward-leak"] * 9)
    term = set()
    if shape == "tiny-init":
        # a closed class that is reachable ONLY through an initial-distribution entry of probability 2^-k
        kk = rng.choice([27, 30, 40, 52, 60])
        r0, r1 = rng.sample([F(x) for x in range(-4, 6) if x != 0], 2)
        return {"n": 3, "nA": 1, "actions": [[0], [0], [0]],
                "trans": {"0,0": [[1, "1/2"], [0, "1/2"]], "1,0": [[0, "1"]], "2,0": [[2, "1"]]},
                "reward": {"0,0,1": str(r0), "0,0,0": str(r0), "1,0,0": "1", "2,0,2": str(r1)},
                "absorbing": [False, False, False],
                "init": [[0, str(1 - F(1, 2**kk))], [2, str(F(1, 2**kk))]], "gamma": rng.choice(["1", "9/10", "19/20"])}
    if shape == "zero-reward-leak":
        # a ZERO-reward state that leaves itself with probability 2^-k (it is NOT absorbing: the exact rule wants a certain
        # self-loop) into a closed class paying r: its gain is r (undiscounted), its value gamma-discounted r-stream
        kk = rng.choice([14, 17, 17, 20, 20, 27])
        ee = F(1, 2 ** kk)
        r1 = F(rng.choice([x for x in range(-4, 6) if x != 0]))
        two = rng.random() < .4
        trans = {"0,0": [[0, str(1 - ee)], [1, str(ee)]], "1,0": [[1, "1"]]}
        acts = [[0], [0]]
        if two:
            trans["0,1"] = [[0, str(1 - ee)], [1, str(ee)]]
            acts = [[0, 1], [0]]
        return {"n": 2, "nA": 2 if two else 1, "actions": acts, "trans": trans, "reward": {"1,0,1": str(r1)},
                "absorbing": [False, False], "init": [[0, "1"]], "gamma": rng.choice(["1", "1", "9/10", "1/2"])}
    if shape == "big-reward":
        # the branch of probability 2^-k carries a reward ~ 2^k: it contributes O(1) to the expected reward
        c = F(rng.randint(1, 5)) * rng.choice([1, -1])
        und = rng.random() < .5
        return {"n": 3, "nA": 2, "actions": [[0, 1], [0], [0]],
                "trans": {"0,0": [[1, str(1 - e)], [2, str(e)]], "0,1": [[1, "1"]], "1,0": [[1, "1"]], "2,0": [[2, "1"]]},
                "reward": {"0,0,2": str(c / e), "0,1,1": str(c / 2), "1,0,1": "0" if und else "1", "2,0,2": "0" if und else "2"},
                "absorbing": [False, True, True] if und else [False, False, False],
                "init": [[0, "1"]], "gamma": "1" if und else rng.choice(["9/10", "19/20"])}
    if shape == "leak-selfloop":
        rows = {(0, 0): {0: 1 - e, 1: e}, (1, 0): {1: F(1)}}
    elif shape == "two-selfloops":
        rows = {(0, 0): {0: 1 - e, 1: e}, (1, 0): {1: 1 - e2, 0: e2}}
    elif shape == "asym":
        rows = {(0, 0): {0: 1 - e, 1: e}, (1, 0): {1: h, 0: h}}
    elif shape == "exit-terminal":
        rows = {(0, 0): {0: 1 - e, 1: e}, (1, 0): {1: F(1)}}
        term = {1}
    elif shape == "tiny-exit":
        rows = {(0, 0): {1: 1 - e, 2: e}, (1, 0): {1: F(1)}, (2, 0): {2: F(1)}}
    elif shape in ("cycle-leak", "cycle-leak-terminal"):
        rows = {(0, 0): {1: F(1)}, (1, 0): {0: 1 - e, 2: e}, (2, 0): {2: F(1)}}
        term = {2} if shape == "cycle-leak-terminal" else set()
    elif shape == "pair-leak":
        rows = {(0, 0): {0: h, 1: h}, (1, 0): {0: h - e, 1: h, 2: e}, (2, 0): {2: F(1)}}
    elif shape == "chain-selfloops":
        rows = {(0, 0): {0: 1 - e, 1: e}, (1, 0): {1: 1 - e2, 2: e2}, (2, 0): {2: F(1)}}
    else:
        rows = {(0, 0): {0: 1 - e, 2: e}, (0, 1): {1: F(1)}, (1, 0): {1: F(1)}, (2, 0): {2: F(1)}}
    n = 1 + max(s for s, _ in rows)
    nA = 1 + max(a for _, a in rows)
    perm = list(range(n))
    rng.shuffle(perm)                      # which state is the lowest index (reference state) varies
    start = perm[0]
    vals = rng.sample([F(x) for x in range(-4, 6) if x != 0], n)
    actions = [[] for _ in range(n)]
    trans, reward = {}, {}
    for (s, a), row in sorted(rows.items()):
        ps, r = perm[s], vals[s] + (a if a else 0)
        actions[ps].append(a)
        trans["%d,%d" % (ps, a)] = [[perm[ns], str(p)] for ns, p in row.items()]
        if s not in term:
            for ns in row:
                reward["%d,%d,%d" % (ps, a, perm[ns])] = str(r)
    absorbing = [False] * n
    for s in term:
        absorbing[perm[s]] = True
    return {"n": n, "nA": nA, "actions": actions, "trans": trans, "reward": reward, "absorbing": absorbing,
            "init": [[start, "1"]], "gamma": "1" if rng.random() < .8 else "9/10"}


# 1 - 2^-10, 1 - 2^-14, 1 - 2^-17, 1 - 10^-6 (exact rationals to the model, nearest doubles to msdm)
NEAR_ONE = ["1023/1024", "16383/16384", "131071/131072", "999999/1000000"]

def gen_case(rng, tier):
    nmax = 6 if tier == "quick" else 8
    r = rng.random()
    more = None
    if r < .13:
        kind = "discounted"
        m = gen_mdp.gen_mdp(rng, nmax=nmax, amax=3, gamma=rng.choice(DISC_GAMMAS))
    elif r < .18:
        kind = "discounted-components"        # many disconnected components / paying self-loops, 5-8 states
        m = gen_components(rng)
    elif r < .23:
        # continuing problems (no terminal states) with a discount rate very close to 1: |V*| ~ 1/(1-gamma)
        kind = "discounted-near-one"
        m = gen_mdp.gen_mdp(rng, nmax=4, amax=2, min_states=2, goal=False, implicit_absorbing=False,
                            gamma=rng.choice(NEAR_ONE))
    elif r < .28:
        kind = "discounted-episodic-near-one"  # long stochastic corridors, gamma within ~1e-5 of 1
        m = gen_episodic_near_one(rng, tier)
    elif r < .32:
        kind = "undisc-proper-nonpos"        # every policy reaches a terminal state
        m = gen_mdp.gen_mdp(rng, nmax=nmax, amax=3, gamma="1", proper=True)
    elif r < .37:
        kind = "undisc-terminal-either-sign"  # terminal states exist but need not be reached
        m = _either_sign(rng, nmax=nmax, amax=3, min_states=2)
    elif r < .42:
        kind = "undisc-recurrent"             # no explicit terminal states: unichain or multichain by chance
        m = _either_sign(rng, nmax=nmax, amax=3, min_states=2, goal=False)
    elif r < .47:
        kind = "undisc-blocks"                # multichain by construction
        m = gen_blocks(rng, nmax)
    elif r < .54:
        kind = "undisc-farms"                 # gain-class choice with exact / near bias ties
        m = gen_farms(rng)
    elif r < .59:
        kind = "undisc-large-costs"           # costs ~ -1000 .. -100, state-dependent action sets, no terminal state
        m = gen_large_costs(rng)
    elif r < .66:
        kind = "tiny-probabilities"           # probabilities 2^-k / 1-2^-k, k in {8,10,20,27,30,40,52}
        m = gen_tiny(rng)
    elif r < .71:
        kind = "discounted-discount-decides"  # the discount rate decides between 'now' and 'later' (incl. gamma = 0)
        m = gen_discount_decides(rng)
    elif r < .76:
        kind = "discounted-near-tie"          # values ~1e3, a clone of the optimal action worse by 1e-6..1e-5 relative
        # 40%: the slightly worse clone is the INITIAL policy (lowest action id): there the unchanged code keeps it
        # (relative tie band of the improvement test) and reports values up to 1e-4 relative below the optimum --
        # recorded as known finding, class rule NEAR_TIE_RULE; C16_WORSE_FIRST=0 switches the sub-class off
        wf = os.environ.get("C16_WORSE_FIRST", "1") != "0" and rng.random() < .4
        m, _info = gen_near_tie(rng, worse_first=wf)
    elif r < .84:
        kind = "absorbing-exits"              # flagged-absorbing states with several actions leading elsewhere
        m = gen_absorbing_exits(rng)
    elif r < .89:
        # expected reward exactly 0 everywhere (no rewards / rewards only in terminal states / zero-mean lotteries)
        base = gen_mdp.gen_mdp(rng, nmax=nmax, amax=3, min_states=2, gamma=rng.choice(["1", "1", "9/10", "1/2"]))
        if F(base["gamma"]) == 1 and rng.random() < .5:
            base = gen_blocks(rng, nmax)
        m, _mode = degenerate_rewards(rng, base)
        kind = "degenerate-rewards"
    else:
        kind = "undisc-sweep"                 # one planner object: A, perturbed B, (C,) A again
        m, more = gen_sweep(rng, tier)
    if kind == "undisc-farms" and os.environ.get("C16_GAIN_NEAR_TIE", "1") != "0" and rng.random() < .4:
        # gains inside np.isclose's band with exactly tied biases (recorded known finding, class rule GAIN_TIE_RULE;
        # C16_GAIN_NEAR_TIE=0 switches the sub-class off)
        kind = "undisc-gain-near-tie"
        m = gen_gain_near_tie(rng)
    nd = False
    if kind in ("discounted", "undisc-proper-nonpos", "undisc-terminal-either-sign", "undisc-recurrent", "undisc-blocks") \
            and rng.random() < .35:
        m, nd = nondyadic(rng, m), True
    # msdm's result assembly raises StateActionIndexError when the initial distribution lists a
    # zero-probability state that reachability left out of the state list (reported separately;
    # a raise is not a "reports convergence" run): keep such entries out of the generated cases
    m["init"] = [[s, p] for s, p in m["init"] if F(p) != 0]
    case = {"mdp": m, "kind": kind, "max_iterations": rng.choice([200, 500, 1000]),
            "explicit_lists": rng.random() < .2, "nondyadic": nd,
            # how the problem is handed to msdm (harness/impl/c16_impl.py:build_c16)
            "opts": {"shared": rng.random() < .3, "int_typed": rng.random() < .25, "fresh_repeat": rng.random() < .15}}
    if more:
        case["more"] = more
    return case


# ----------------------------------------------------------------------------
# exact linear algebra / oracles (certificate construction and violation search; untrusted)
# ----------------------------------------------------------------------------
def solve_general(A, b):
    """a particular solution of the (possibly singular, assumed consistent) system A x = b over
    Fractions, free variables set to 0; None when inconsistent"""
    rows, cols = len(A), len(A[0])
    M = [list(A[i]) + [b[i]] for i in range(rows)]
    piv_cols, r = [], 0
    for c in range(cols):
        p = next((i for i in range(r, rows) if M[i][c] != 0), None)
        if p is None:
            continue
        M[r], M[p] = M[p], M[r]
        pv = M[r][c]
        M[r] = [x / pv for x in M[r]]
        for i in range(rows):
            if i != r and M[i][c] != 0:
                f = M[i][c]
                M[i] = [x - f * y for x, y in zip(M[i], M[r])]
        piv_cols.append(c)
        r += 1
        if r == rows:
            break
    for i in range(r, rows):
        if M[i][cols] != 0:
            return None
    x = [F(0)] * cols
    for i, c in enumerate(piv_cols):
        x[c] = M[i][cols]
    return x


def masked_arrays(P, R, av, absorbing):
    n, nA = len(P), len(P[0])
    Pa = [[[F(0) if absorbing[s] else P[s][a][k] for k in range(n)] for a in range(nA)] for s in range(n)]
    Ra = [[F(0) if absorbing[s] else sum(P[s][a][k] * R[s][a][k] for k in range(n)) for a in range(nA)] for s in range(n)]
    return Pa, Ra


def eval_policy(Pa, Ra, pi):
    """exact (gain, bias) of the stationary policy pi (matrix of Fractions): any solution of
    (I-P)g = 0, g + (I-P)h = r has g = the gain of pi"""
    n, nA = len(Pa), len(Pa[0])
    Pp = [[sum(pi[s][a] * Pa[s][a][k] for a in range(nA)) for k in range(n)] for s in range(n)]
    rp = [sum(pi[s][a] * Ra[s][a] for a in range(nA)) for s in range(n)]
    A, b = [], []
    for s in range(n):
        A.append([(F(1) if s == k else F(0)) - Pp[s][k] for k in range(n)] + [F(0)] * n)
        b.append(F(0))
    for s in range(n):
        A.append([F(1) if s == k else F(0) for k in range(n)] + [(F(1) if s == k else F(0)) - Pp[s][k] for k in range(n)])
        b.append(rp[s])
    x = solve_general(A, b)
    if x is None:
        return None, None
    return x[:n], x[n:]


def ex(Pa, f, s, a):
    return sum(Pa[s][a][k] * f[k] for k in range(len(f)))


def find_M(Pa, Ra, av, g, h, d):
    """least integer M >= 0 with  Ra + P_a(h + M g) <= g + h + M g + d  at every available action,
    None if impossible (a gain-tight action violates bias feasibility)"""
    n, nA = len(Pa), len(Pa[0])
    M = F(0)
    for s in range(n):
        for a in range(nA):
            if not av[s][a]:
                continue
            sigma = g[s] - ex(Pa, g, s, a)
            viol = Ra[s][a] + ex(Pa, h, s, a) - g[s] - h[s] - d
            if viol > 0:
                if sigma <= 0:
                    return None
                M = max(M, viol / sigma)
    return F(math.ceil(M))


def exact_optimal_gain(Pa, Ra, av):
    r = exact_optimal(Pa, Ra, av)
    return None if r is None else r[0]


def exact_optimal(Pa, Ra, av):
    """exact multichain policy iteration on Fractions (bias improvement restricted to gain-tight
    actions), self-certified: returns g only if (g, h + M g) is exactly dual feasible and the final
    policy is exactly tight -- which by C16_dual_certificate_upper/_tight_policy_lower makes g THE optimal gain"""
    n, nA = len(Pa), len(Pa[0])
    pol = [next(a for a in range(nA) if av[s][a]) for s in range(n)]
    for _ in range(300):
        pi = [[F(1) if a == pol[s] else F(0) for a in range(nA)] for s in range(n)]
        g, h = eval_policy(Pa, Ra, pi)
        if g is None:
            return None
        changed = False
        for s in range(n):
            vals = {a: ex(Pa, g, s, a) for a in range(nA) if av[s][a]}
            if vals[pol[s]] < max(vals.values()):
                pol[s] = max(vals, key=lambda a: vals[a])
                changed = True
        if changed:
            continue
        for s in range(n):
            tight = [a for a in range(nA) if av[s][a] and ex(Pa, g, s, a) == g[s]]
            vals = {a: Ra[s][a] + ex(Pa, h, s, a) for a in tight}
            if vals[pol[s]] < max(vals.values()):
                pol[s] = max(vals, key=lambda a: vals[a])
                changed = True
        if not changed:
            ok1 = all(ex(Pa, g, s, a) <= g[s] for s in range(n) for a in range(nA) if av[s][a])
            M = find_M(Pa, Ra, av, g, h, F(0)) if ok1 else None
            if M is not None:
                return g, h, M
            return None
    return None


# ----------------------------------------------------------------------------
# per case: Coq term
# ----------------------------------------------------------------------------
def fr(x):
    return None if isinstance(x, str) or x is None else vlib.frac(x)


def prepare(case, res):
    """-> dict with exact arrays, the returned tables as Fractions, tolerances, certificate, Coq term"""
    sl, al = res["state_list"], res["action_list"]
    P, R, av, absf, ini = gen_mdp.arrays(case["mdp"], sl, al)
    gam = F(case["mdp"]["gamma"])
    n, nA = len(sl), len(al)
    absorbing, _ = _c01.model_masks(P, R, av, absf, gam)
    Pa, Ra = masked_arrays(P, R, av, absorbing)
    out = res["out"]
    g, h = [fr(x) for x in out["g"]], [fr(x) for x in out["h"]]
    pi = [[fr(x) for x in row] for row in out["pi"]]
    ig, iv = fr(out["initial_gain"]), fr(out["initial_value"])
    d = {"P": P, "R": R, "av": av, "absf": absf, "ini": ini, "gamma": gam, "n": n, "nA": nA,
         "absorbing": absorbing, "Pa": Pa, "Ra": Ra, "g": g, "h": h, "pi": pi, "ig": ig, "iv": iv}
    if any(x is None for x in g + h + [ig, iv]) or any(x is None for row in pi for x in row):
        d["nonfinite"] = True
        return d
    scale = max([F(1)] + [abs(x) for x in h]) + max(abs(x) for x in g)
    band = F(1, 10**8) + F(1, 10**5) * scale          # np.isclose defaults used by the improvement tests
    tiny = F(1, 10**9) * scale
    d["scale"], d["band"] = scale, band
    mt = " ".join([nat(n), nat(nA), qten(P), qten(R), bmat(av), blist(absf), qlist(ini), q(gam)])
    ot = " ".join([qlist(g), qlist(h), qmat(pi), q(ig), q(iv)])
    if gam < 1:
        # residual tolerance: the improvement test's band, but never so wide that the value bound
        # d_eps/(1-gamma) of C16_discounted_values exceeds 1e-3 of the value scale (bites only for
        # gamma > 0.98: for the usual discount rates this is the band itself)
        d_eps = min(2 * band, F(1, 1000) * (1 - gam) * scale)
        # ... and never wider than ~30-80x the residual the evaluation step attains on the unchanged code
        # (measured max |h - T h| / scale over 150 MDPs per rate: 2e-15 at 1/2, 2e-13 at .9, 3e-12 at .95, 3e-11 at
        # .98, 1e-10 at .99, 3e-9 at .995 ~ 1e-16/(1-gamma)^3): values are judged at d_eps/(1-gamma), i.e. 1e-10
        # relative at .9, 1e-6 at .99 -- not at a blanket 1e-5
        d_eps = min(d_eps, scale * max(F(1, 10**13), F(1, 10**14) / (1 - gam) ** 3))
        # reported gain (0 in a discounted problem; not part of the property): solver noise eps_g in the gain
        # shows up as eps_g/(1-gamma) in the values, so near gamma = 1 it is judged at the residual tolerance
        d_gz = max(10 * tiny, d_eps) if 1 - gam <= F(1, 2**10) else 10 * tiny
        tol = [d_eps, F(1001, 10**13) + tiny, d_gz, F(1, 10**12), tiny]
        d["tols"] = tol
        d["term"] = "chkd %s %s %s" % (mt, ot, " ".join(q(x) for x in tol))
        return d
    # undiscounted: exact evaluation of the returned policy, uniform on its support
    supp = [[x > 0 for x in row] for row in pi]
    d["supp"] = supp
    cnt = [sum(row) for row in supp]
    if min(cnt) == 0:
        gq, hq = None, None
    else:
        upol = [[F(1, cnt[s]) if supp[s][a] else F(0) for a in range(nA)] for s in range(n)]
        gq, hq = eval_policy(Pa, Ra, upol)
    if gq is None:
        gq, hq = [F(0)] * n, [F(0)] * n     # no exact evaluation available: the checker decides
    dup = 2 * band
    # the reported gain is judged relative to the GAIN scale (per-step rewards), not the bias scale: a bias of
    # magnitude 2^k (almost closed classes) must not widen the tolerance on the gain
    gscale = max([F(1)] + [abs(x) for x in g] + [abs(x) for x in gq])
    gband = F(1, 10**8) + F(1, 10**5) * gscale
    d["gscale"], d["gband"] = gscale, gband
    gt = min(2 * band, 2 * gband)
    dlo = F(0)                               # the evaluation equations of (g', h') hold exactly
    M = find_M(Pa, Ra, av, gq, h, dup)
    wbase, d["dual_from"] = h, "reported bias"
    if M is None:
        # the reported bias cannot be completed to a dual vector (the bias is not part of the property at
        # gamma = 1): fall back to the exact bias of the returned policy, then to the exact optimal pair
        M2 = find_M(Pa, Ra, av, gq, hq, dup)
        if M2 is not None:
            M, wbase, d["dual_from"] = M2, hq, "exact bias of the returned policy"
        else:
            opt = exact_optimal(Pa, Ra, av)
            if opt is not None and list(opt[0]) == list(gq):
                M, wbase, d["dual_from"] = opt[2], opt[1], "exact optimal gain/bias pair"
    d["M"] = M
    w = [wbase[s] + (M if M is not None else 0) * gq[s] for s in range(n)]
    d["gq"], d["w"], d["hq"] = gq, w, hq
    tol = [dup, dlo, gt, F(1, 10**12), tiny, 2 * band]
    d["tols"] = tol
    d["term"] = "chkg %s %s %s %s %s %s" % (mt, ot, qlist(gq), qlist(w), qlist(hq), " ".join(q(x) for x in tol))
    return d


# ----------------------------------------------------------------------------
# violation search (only when a checker rejects): independent exact / LP oracles
# ----------------------------------------------------------------------------
TINY_RULE = ("signature class: UNDISCOUNTED MDP in which some available action of a non-absorbing state has a positive "
             "transition probability <= 2^-10; every other gain mismatch / raise keeps its ordinary signature")


def tiny_probability(P, av, absorbing):
    """smallest positive transition probability over available actions of non-absorbing states if it is <= 2^-10, else None"""
    ps = [P[s][a][k] for s in range(len(P)) if not absorbing[s] for a in range(len(P[0])) if av[s][a]
          for k in range(len(P)) if P[s][a][k] > 0]
    if ps and min(ps) <= F(1, 2**10):
        return min(ps)
    return None


def tiny_class_case(mdpcase, state_list):
    if F(mdpcase["gamma"]) != 1:
        return None
    al = sorted({a for acts in mdpcase["actions"] for a in acts})
    P, R, av, absf, ini = gen_mdp.arrays(mdpcase, state_list, al)
    absorbing, _ = _c01.model_masks(P, R, av, absf, F(1))
    return tiny_probability(P, av, absorbing)

GAIN_TIE_RULE = ("signature class: UNDISCOUNTED MDP (no transition probability <= 2^-10) in which, at some non-absorbing state, an "
                 "available action has an exact action gain (P_a g*)(s) that is smaller than the optimal gain g*(s) but within "
                 "1e-8 + 1e-5*|g*(s)| of it (inside np.isclose's default band) AND is played by the returned policy with positive probability")


def gain_inside_band(Pa, av, absorbing, gstar, pi=None):
    """an available action whose exact action gain is below the optimal gain but inside np.isclose's band -- and (pi given)
    which the returned policy actually plays with positive probability"""
    n, nA = len(Pa), len(Pa[0])
    for s in range(n):
        if absorbing[s]:
            continue
        for a in range(nA):
            if av[s][a] and (pi is None or pi[s][a] > 0):
                gap = gstar[s] - ex(Pa, gstar, s, a)
                if 0 < gap <= F(1, 10**8) + F(1, 10**5) * abs(gstar[s]):
                    return {"state_index": s, "action_index": a, "gain_gap": str(float(gap)), "optimal_gain": str(float(gstar[s]))}
    return None

NEAR_TIE_RULE = ("signature class: discounted MDP with 1 - gamma > 2^-10 that has a NON-optimal deterministic policy -- optimal except for "
                 "a lower-index action at one non-absorbing state -- which is stable under the improvement test at its own exact "
                 "values: max_a Q(s,a) - Q(s,policy(s)) <= 1e-8 + 1e-5*|max_a Q(s,a)| at every state (np.isclose's default band), AND the "
                 "reported state values are the exact values of that policy (up to the value bound)")


def inside_band_lower_index(Pa, Ra, av, absorbing, gam, Vs, h=None, hb=None):
    """a NON-optimal deterministic policy -- optimal except for a lower-index action b at one state -- that is stable
    under the code's improvement test evaluated at its own exact values: max_a Q_b(s,a) - Q_b(s,b) <= 1e-8 + 1e-5*|max Q_b|
    -- and (h given) whose exact values ARE the reported values h up to hb: only then is the mismatch the known one"""
    if 1 - gam <= F(1, 2**10):
        return None
    n, nA = len(Pa), len(Pa[0])
    opt = []
    for s in range(n):
        qs = {a: Ra[s][a] + gam * ex(Pa, Vs, s, a) for a in range(nA) if av[s][a]}
        opt.append(min(a for a in qs if qs[a] == max(qs.values())))
    for s in range(n):
        if absorbing[s]:
            continue
        qs = {a: Ra[s][a] + gam * ex(Pa, Vs, s, a) for a in range(nA) if av[s][a]}
        best = max(qs.values())
        for b in sorted(qs):
            if b < opt[s] and 0 < best - qs[b] <= 4 * (F(1, 10**8) + F(1, 10**5) * abs(best)):
                pol = list(opt); pol[s] = b
                A = [[(F(1) if i == j else F(0)) - gam * Pa[i][pol[i]][j] for j in range(n)] for i in range(n)]
                Vb = _c01.solve_linear(A, [Ra[i][pol[i]] for i in range(n)])
                if Vb is None:
                    continue
                stable = True
                for t in range(n):
                    qb = {a: Ra[t][a] + gam * ex(Pa, Vb, t, a) for a in range(nA) if av[t][a]}
                    mx = max(qb.values())
                    if mx - qb[pol[t]] > F(1, 10**8) + F(1, 10**5) * abs(mx):
                        stable = False
                        break
                if stable and (h is None or max(abs(x - y) for x, y in zip(h, Vb)) <= hb):
                    return {"state_index": s, "action_index": b, "optimal_action_index": opt[s],
                            "q_gap": str(float(best - qs[b])), "q_optimal": str(float(best)),
                            "value_loss_of_that_policy": str(float(max(x - y for x, y in zip(Vs, Vb))))}
    return None

NEAR_ONE_RULE = ("signature class: discounted MDP with 1 - gamma <= 2^-10 that has a CONTINUING part (some state of the state list "
                 "from which no absorbing state is reachable with positive probability); every other value mismatch / raise keeps "
                 "its ordinary signature")


def near_one_continuing(mdpcase, absorbing, state_list=None, arrays=None):
    g = F(mdpcase["gamma"])
    if not (g < 1 and 1 - g <= F(1, 2**10)):
        return False
    if arrays is None:
        sl = state_list if state_list is not None else list(range(mdpcase["n"]))
        al = sorted({a for acts in mdpcase["actions"] for a in acts})
        P, R, av, absf, ini = gen_mdp.arrays(mdpcase, sl, al)
        absorbing, _ = _c01.model_masks(P, R, av, absf, g)
    else:
        P, av = arrays
    n, nA = len(P), len(P[0])
    can = list(absorbing)
    for _ in range(n):
        can = [can[s] or any(av[s][a] and P[s][a][k] > 0 and can[k] for a in range(nA) for k in range(n)) for s in range(n)]
    return not all(can)


def search_failing(case, res, d):
    n, nA, av, pi, g, h = d["n"], d["nA"], d["av"], d["pi"], d["g"], d["h"]
    for s in range(n):
        for a in range(nA):
            if pi[s][a] < 0 or pi[s][a] > 1:
                return {"clause": "policy entry not a probability", "state_index": s, "action_index": a}
            if pi[s][a] > 0 and not av[s][a]:
                return {"clause": "policy gives positive probability to an unavailable action",
                        "state_index": s, "action_index": a}
        if not any(pi[s][a] > 0 for a in range(nA)):
            return {"clause": "policy row has empty support", "state_index": s}
    gam, Pa, Ra = d["gamma"], d["Pa"], d["Ra"]
    slack = F(1, 10**6) * d["scale"]
    if gam < 1:
        Vs = _c01.exact_vstar(d["P"], d["R"], av, d["absorbing"], gam)
        if Vs is None:
            return None
        vscale = max([F(1)] + [abs(x) for x in Vs])
        bound = d["tols"][0] / (1 - gam) + F(1, 10**12) * vscale     # the bound C16_discounted_values would give
        if near_one_continuing(case["mdp"], d["absorbing"], arrays=(d["P"], d["av"])):
            # the certificate (residual cap) already failed; a value off by more than 1e-5 relative is reported
            # as the value mismatch it is (the proved bound 1e-3 is sufficient, not necessary)
            bound = min(bound, F(1, 10**5) * vscale)
        episodic_near_one = case.get("kind") == "discounted-episodic-near-one"
        if episodic_near_one:
            # by construction no action-value gap lies inside the improvement band: the values are those
            # of an exactly optimal policy, known to the solver's accuracy; judged at 1e-7 relative
            bound = F(1, 10**7) * vscale
        for s in range(n):
            if abs(h[s] - Vs[s]) > bound:
                why = {"clause": "state value differs from the exact optimal discounted value",
                       "state_index": s, "reported": str(float(h[s])), "optimal": str(float(Vs[s])),
                       "relative_error": str(float(abs(h[s] - Vs[s]) / vscale)), "one_minus_gamma": str(1 - gam)}
                if near_one_continuing(case["mdp"], d["absorbing"], arrays=(d["P"], d["av"])):
                    # discount rate very close to 1: the evaluation step solves the Gram (normal-equations)
                    # system, whose condition number is the square of the stacked system's ~ 1/(1-gamma)^2
                    why["signature"] = "C16:discounted:gamma-near-one:values-not-optimal"
                    why["class_rule"] = NEAR_ONE_RULE
                    why["reported_gain"] = [str(float(x)) for x in g]
                elif inside_band_lower_index(Pa, Ra, av, d["absorbing"], gam, Vs, h, bound) is not None:
                    # the improvement test np.isclose(bias_q[policy], bias_q[new]) is RELATIVE (1e-8 + 1e-5|Q|): a current
                    # action within that band of the best one is kept, so the iteration can stop below the optimum
                    why["signature"] = "C16:discounted:near-tie-inside-improvement-band:values-not-optimal"
                    why["class_rule"] = NEAR_TIE_RULE
                    why["near_tie"] = inside_band_lower_index(Pa, Ra, av, d["absorbing"], gam, Vs, h, bound)
                elif 1 - gam > F(1, 2**10) and max(abs(x) for x in g) > F(1, 10**6) * d["scale"]:
                    # a discounted evaluation system forces gain 0: a clearly non-zero reported gain means
                    # equations (gamma*P - I) g = 0 were dropped by independent_row_indices (np.isclose(det, 0)
                    # is scale dependent: the Gram determinant of several small rows falls below 1e-8)
                    why["signature"] = "C16:discounted:independent-rows-test-drops-equations"
                    why["reported_gain"] = [str(float(x)) for x in g]
                return why
        # the returned policy (uniform on its support) evaluated EXACTLY, against the exact optimum, at the bound
        # C16_discounted_policy_return would give: d_loss/(1-gamma), d_loss = d_eta + 2 gamma d_eps/(1-gamma)
        cnt = [sum(1 for a in range(nA) if pi[s][a] > 0) for s in range(n)]
        up = [[F(1, cnt[s]) if pi[s][a] > 0 else F(0) for a in range(nA)] for s in range(n)]
        A = [[(F(1) if i == j else F(0)) - gam * sum(up[i][a] * Pa[i][a][j] for a in range(nA)) for j in range(n)] for i in range(n)]
        Vpi = _c01.solve_linear(A, [sum(up[i][a] * Ra[i][a] for a in range(nA)) for i in range(n)])
        d_loss = d["tols"][1] + 2 * gam * d["tols"][0] / (1 - gam)
        pbound = d_loss / (1 - gam) + F(1, 10**12) * vscale
        if Vpi is not None:
            for s in range(n):
                if Vs[s] - Vpi[s] > pbound:
                    return {"clause": "returned policy evaluated exactly does not attain the optimal discounted values",
                            "state_index": s, "policy_value": str(float(Vpi[s])), "optimal": str(float(Vs[s])),
                            "relative_loss": str(float((Vs[s] - Vpi[s]) / vscale)), "bound": str(float(pbound)),
                            "policy": [[str(x) for x in row] for row in up]}
        for s in range(n):
            qs = [Ra[s][a] + gam * ex(Pa, Vs, s, a) for a in range(nA)]
            best = max(qs[a] for a in range(nA) if av[s][a])
            for a in range(nA):
                if pi[s][a] > 0 and qs[a] < best - 3 * bound:
                    return {"clause": "policy gives positive probability to a sub-optimal action",
                            "state_index": s, "action_index": a, "q_opt": str(qs[a]), "best": str(best)}
        # near-tie class, error small against the GLOBAL value scale: show that the reported values are (to solver
        # accuracy) the exact values of the non-optimal policy that keeps the in-band lower-index action
        nt = inside_band_lower_index(Pa, Ra, av, d["absorbing"], gam, Vs)
        if nt is not None:
            pol = []
            for s in range(n):
                qs = {a: Ra[s][a] + gam * ex(Pa, Vs, s, a) for a in range(nA) if av[s][a]}
                pol.append(min(a for a in qs if qs[a] == max(qs.values())))
            pol[nt["state_index"]] = nt["action_index"]
            A = [[(F(1) if i == j else F(0)) - gam * Pa[i][pol[i]][j] for j in range(n)] for i in range(n)]
            Vb = _c01.solve_linear(A, [Ra[i][pol[i]] for i in range(n)])
            if Vb is not None:
                e_b = max(abs(x - y) for x, y in zip(h, Vb))
                e_s = max(abs(x - y) for x, y in zip(h, Vs))
                gap = max(abs(x - y) for x, y in zip(Vs, Vb))
                if gap > 0 and e_b <= bound and 4 * e_b < e_s:
                    return {"clause": "state values are those of a policy that keeps a slightly worse action, not the optimal discounted values",
                            "signature": "C16:discounted:near-tie-inside-improvement-band:values-not-optimal",
                            "class_rule": NEAR_TIE_RULE, "near_tie": nt,
                            "distance_to_that_policy_values": str(float(e_b)), "distance_to_optimal_values": str(float(e_s)),
                            "relative_to_value_scale": str(float(e_s / vscale))}
        return None
    gstar, src = exact_optimal_gain(Pa, Ra, av), "exact self-certified multichain policy iteration"
    if gstar is None:
        lp = res.get("lp", {})
        if lp.get("status") != 0:
            return None
        gstar, src = [fr(x) for x in lp["g"]], "multichain LP (scipy linprog)"
    bound = min(4 * d["band"] + slack, 4 * d["gband"] + F(1, 10**6) * d["gscale"])
    if src.startswith("exact"):
        bound = d["tols"][2]      # exact optimum: the very tolerance the gain_close clause is judged at
    for s in range(n):
        if abs(g[s] - gstar[s]) > bound:
            why = {"clause": "state gain differs from the optimal long-run average reward", "oracle": src,
                   "state_index": s, "reported": str(float(g[s])), "optimal": str(gstar[s]),
                   "reported_gain": [str(float(x)) for x in g], "optimal_gain": [str(x) for x in gstar]}
            tp = tiny_probability(d["P"], av, d["absorbing"])
            if tp is not None:
                # almost closed classes: (i) scipy's dense-graph convention drops edges <= 1e-8 in the Floyd-Warshall
                # reachability, so recurrent-class detection disagrees with the equation system that keeps them;
                # (ii) rows of (P - I) scaled by eps make the Gram (normal-equations) system ~ eps^-4 conditioned
                why["signature"] = "C16:undiscounted:tiny-probabilities:gain-not-optimal"
                why["class_rule"] = TINY_RULE
                why["smallest_positive_probability"] = str(tp)
            return why
    # every deterministic selection inside the support must attain the optimal gain: check the
    # uniform policy and the first-action selection exactly
    for name, pol in (("uniform on support", d.get("supp")),):
        cnt = [sum(row) for row in pol]
        up = [[F(1, cnt[s]) if pol[s][a] else F(0) for a in range(nA)] for s in range(n)]
        gp, _ = eval_policy(Pa, Ra, up)
        if gp is not None:
            for s in range(n):
                # both sides exact when the oracle is exact: any shortfall beyond 1e-9 of the gain scale is real
                pb = F(1, 10**9) * d["gscale"] if src.startswith("exact") else bound
                if gp[s] < gstar[s] - pb:
                    why = {"clause": "returned policy evaluated exactly does not attain the optimal gain",
                           "policy": name, "oracle": src, "state_index": s, "policy_gain": str(gp[s]), "optimal": str(gstar[s]),
                           "relative_shortfall": str(float((gstar[s] - gp[s]) / d["gscale"]))}
                    nt = gain_inside_band(Pa, av, d["absorbing"], gstar, pi) if src.startswith("exact") else None
                    if nt is not None and tiny_probability(d["P"], av, d["absorbing"]) is None:
                        # plan_on keeps every action whose action gain is np.isclose (1e-8 + 1e-5|g|) to the best one,
                        # and the gain improvement step keeps a current action inside that band
                        why["signature"] = "C16:undiscounted:near-tie-inside-gain-band:policy-not-gain-optimal"
                        why["class_rule"] = GAIN_TIE_RULE
                        why["near_tie"] = nt
                    return why
    if abs(d["ig"] - sum(d["ini"][s] * g[s] for s in range(n))) > slack:
        return {"clause": "initial gain is not the initial-distribution expectation of the state gains"}
    return None


# ----------------------------------------------------------------------------
def run(ctx):
    tier = ctx.tier
    ncases = 200 if tier == "quick" else 2500
    if ctx.replay_case:
        cases = [ctx.replay_case["detail"]["case"]]
    else:
        cases = [gen_case(ctx.rng, tier) for _ in range(ncases)]
    jobs = max(1, min(ctx.jobs, 16))
    impl = ctx.impl("c16_impl.py", {"cases": cases}, shards=min(jobs, 4 if tier == "quick" else 12))["results"]
    stats = {"converged": 0, "not_converged": 0, "impl_raised": 0, "kinds": {}, "gammas": {},
             "undisc_nonconstant_gain": 0, "undisc_M_positive": 0, "undisc_nonzero_gain": 0,
             "undisc_with_terminal": 0, "undisc_pos_and_neg_rewards": 0, "stochastic_policy_rows": 0,
             "not_converged_by_kind": {}, "lp_agrees": 0, "lp_compared": 0,
             "undisc_support_tight_for_reported_bias": 0, "absorbing_vec_differs_from_model": 0,
             "undisc_bias_tie_with_lower_gain_action": 0, "planner_reuse_steps": 0,
             "undisc_gain_below_minus_708": 0, "state_dependent_action_sets": 0,
             "undisc_dual_vector_not_from_reported_bias": 0, "reuse_steps_of_different_size": 0,
             "shared_mutable_caller_objects": 0, "int_typed_inputs": 0, "nondyadic_numbers": 0,
             "first_result_requeried_after_later_calls": 0, "same_problem_replanned_by_fresh_planner": 0,
             "one_state": 0, "one_action": 0, "n_states_equals_n_actions": 0, "value_scale_ge_1e3": 0,
             "tiny_initial_entry": 0, "tiny_transition_probability": 0, "reward_magnitude_ge_1e6": 0,
             "near_tie_inside_relative_band": 0, "max_states": 0}
    # one judged item per planning step: (case index, step index, the case with "mdp" := that step's MDP, step result)
    items = []
    for i, (case, res) in enumerate(zip(cases, impl)):
        stats["kinds"][case["kind"]] = stats["kinds"].get(case["kind"], 0) + 1
        if "error" in res:
            ctx.violation("C16:impl-error:" + res["error"].split(":")[0], {"case": case, "error": res["error"]}, found=True)
            continue
        steps = [(case["mdp"], res)] + list(zip(case.get("more", []), res.get("more", [])))
        for j, (m, r) in enumerate(steps):
            if "error" in r and "out" not in r:
                ctx.violation("C16:impl-error:" + r["error"].split(":")[0], {"case": case, "step": j, "error": r["error"]}, found=True)
                continue
            items.append((i, j, dict(case, mdp=m), r))
            stats["planner_reuse_steps"] += int(j > 0)
            stats["reuse_steps_of_different_size"] += int(j > 0 and len(r.get("state_list", [])) != len(res.get("state_list", [])))
            if r.get("problem_mutated"):
                ctx.violation("C16:planner-mutates-the-callers-problem", {"case": case, "step": j}, found=True)
            if not case.get("explicit_lists"):
                missing = sorted(set(gen_mdp.reachable(m)) - set(r.get("state_list", [])))
                if missing:
                    ctx.violation("C16:reachable-state-missing-from-result", {"case": case, "step": j, "missing_states": missing,
                                  "state_list": r.get("state_list")}, found=True)
        opts = case.get("opts", {})
        stats["shared_mutable_caller_objects"] += int(bool(opts.get("shared")))
        stats["int_typed_inputs"] += int(bool(opts.get("int_typed")))
        stats["nondyadic_numbers"] += int(bool(case.get("nondyadic")))
        if "first_result_requeried_equal" in res:
            stats["first_result_requeried_after_later_calls"] += int(bool(case.get("more")))
            if not res["first_result_requeried_equal"]:
                ctx.violation("C16:first-result-changed-after-later-calls", {"case": case, "requery_error": res.get("requery_error")}, found=True)
        if "fresh_repeat_equal" in res:
            stats["same_problem_replanned_by_fresh_planner"] += 1
            if not res["fresh_repeat_equal"]:
                ctx.violation("C16:same-problem-different-result-in-one-process", {"case": case}, found=True)
    terms, meta, prepared = [], [], {}
    distinct = set()
    for k, (i, j, pc, res) in enumerate(items):
        case = cases[i]
        stats["gammas"][pc["mdp"]["gamma"]] = stats["gammas"].get(pc["mdp"]["gamma"], 0) + 1
        out = res["out"]
        if "error" in out or not out.get("converged", False):
            # masks first, also for runs that raise / do not converge (a wrong mask can be the reason)
            try:
                P_, R_, av_, absf_, ini_ = gen_mdp.arrays(pc["mdp"], res["state_list"], res["action_list"])
                mab, _ = _c01.model_masks(P_, R_, av_, absf_, F(pc["mdp"]["gamma"]))
                if "absorbing_vec" in res and list(res["absorbing_vec"]) != list(mab):
                    stats["absorbing_vec_differs_from_model"] += 1
                    ctx.violation("C16:masks:absorbing-mask-differs-from-model",
                                  {"case": case, "step": j, "msdm_absorbing_state_vec": res["absorbing_vec"], "model_absorbing": list(mab),
                                   "state_list": res["state_list"], "impl": out}, found=False)
                    continue
            except KeyError:
                pass
        if "error" in out:
            stats["impl_raised"] += 1
            etype = out["error"].split(":")[0]
            sl = res["state_list"]
            absorbing_decl = [bool(pc["mdp"]["absorbing"][s_]) for s_ in sl]
            detail = {"case": case, "step": j, "error": out["error"]}
            sig = "C16:raises:" + etype
            # inside the two recorded classes the evaluation system is numerically singular / inconsistent: the finding
            # is that singularity, not the exception class it surfaces as (LinAlgError from the Gram solve,
            # UnboundLocalError when the noisy gain keeps the gain step switching for all max_iterations, "expected
            # square matrix" from a QR-based solve, ...).  ANY exception type raised inside a class gets the class's
            # `raises` signature; the three (class, type) pairs recorded first keep their typed signature.
            TYPED = {("tiny", "LinAlgError"), ("near-one", "LinAlgError"), ("near-one", "UnboundLocalError")}
            cls = None
            if tiny_class_case(pc["mdp"], sl) is not None:
                cls, base, rule = "tiny", "C16:undiscounted:tiny-probabilities:raises", TINY_RULE
            elif near_one_continuing(pc["mdp"], None, state_list=sl):
                cls, base, rule = "near-one", "C16:discounted:gamma-near-one:raises", NEAR_ONE_RULE
            if cls is not None:
                sig = base + (":" + etype if (cls, etype) in TYPED else "")
                detail["class_rule"] = rule + "; any exception type raised inside the class"
                detail["exception_type"] = etype
            ctx.violation(sig, detail, found=True)
            continue
        if not out["converged"]:
            stats["not_converged"] += 1
            stats["not_converged_by_kind"][case["kind"]] = stats["not_converged_by_kind"].get(case["kind"], 0) + 1
            continue
        stats["converged"] += 1
        d = prepare(pc, res)
        prepared[k] = d
        if d.get("nonfinite"):
            # a converged result with nan/inf entries: the policy cannot be "evaluated exactly"
            nanrow = any(x == "nan" for row in out["pi"] for x in row)
            ctx.violation("C16:policy:nan-row" if nanrow else "C16:nonfinite-result",
                          {"case": case, "step": j, "impl": out, "state_list": res["state_list"], "action_list": res["action_list"],
                           "failing_clause": {"clause": "converged result has a policy row of NaNs (no action is both a gain- and a bias-maximiser at 1e-10)"
                                              if nanrow else "converged result has non-finite entries"}}, found=True)
            continue
        terms.append(d["term"])
        meta.append(k)
    vals = ctx.coq(PRE, terms, shard=10 if tier == "quick" else 40)
    nchk = 0
    for k, v in zip(meta, vals):
        i, j, pc, res = items[k]
        case, d = cases[i], prepared[k]
        out = res["out"]
        if isinstance(v, vlib.CoqError):
            ctx.violation("C16:coq-evaluation-failed", {"case": case, "step": j, "error": str(v)[:800]}, found=False)
            continue
        nchk += 1
        undisc = d["gamma"] == 1
        if undisc:
            v, tight = v
            # non-gating: every action of the support is gain-conserving and bias-tight for the reported
            # bias (then EVERY policy inside the support attains the gain, C16_gain_attained_by_every_supported_policy)
            stats["undisc_support_tight_for_reported_bias"] += int(bool(tight))
        names = GCLAUSES if undisc else DCLAUSES
        failed = [c for c, okv in zip(names, v) if not okv]
        if not all(d["absorbing"]):       # non-trivial: at least one non-terminal state
            distinct.add(vlib.structural_hash(pc["mdp"]))
        stats["state_dependent_action_sets"] += int(len({tuple(r_) for r_ in d["av"]}) > 1)
        stats["one_state"] += int(d["n"] == 1)
        stats["one_action"] += int(d["nA"] == 1)
        stats["n_states_equals_n_actions"] += int(d["n"] == d["nA"])
        stats["max_states"] = max(stats["max_states"], d["n"])
        stats["value_scale_ge_1e3"] += int(d["scale"] >= 1000)
        stats["tiny_initial_entry"] += int(any(0 < x <= F(1, 2**27) for x in d["ini"]))
        stats["tiny_transition_probability"] += int(any(0 < x <= F(1, 2**27) for t_ in d["P"] for r_ in t_ for x in r_))
        stats["reward_magnitude_ge_1e6"] += int(any(abs(x) >= 10**6 for t_ in d["R"] for r_ in t_ for x in r_))
        stats["near_tie_inside_relative_band"] += int(case["kind"] in ("discounted-near-tie", "undisc-gain-near-tie"))
        if undisc:
            gq = d["gq"]
            live = [gq[s] for s in range(d["n"]) if not d["absorbing"][s]]
            stats["undisc_nonconstant_gain"] += int(len(set(live)) > 1)
            stats["undisc_nonzero_gain"] += int(any(x != 0 for x in gq))
            stats["undisc_gain_below_minus_708"] += int(any(x < -709 for x in gq))
            stats["undisc_M_positive"] += int(bool(d["M"]))
            stats["undisc_dual_vector_not_from_reported_bias"] += int(d.get("dual_from") != "reported bias")
            stats["undisc_with_terminal"] += int(any(d["absorbing"]))
            f = gen_mdp.features(pc["mdp"])
            stats["undisc_pos_and_neg_rewards"] += int(f["neg_rewards"] and f["pos_rewards"])
            lp = res.get("lp", {})
            if lp.get("status") == 0:
                stats["lp_compared"] += 1
                stats["lp_agrees"] += int(all(abs(fr(x) - y) <= F(1, 10**6) * d["scale"] for x, y in zip(lp["g"], d["g"])))
        stats["stochastic_policy_rows"] += int(any(sum(1 for x in row if x > 0) > 1 for row in d["pi"]))
        # drift counter: the model's absorbing set (computed from the arrays) vs msdm's absorbing_state_vec
        mask_differs = list(res.get("absorbing_vec", [])) != list(d["absorbing"])
        stats["absorbing_vec_differs_from_model"] += int(mask_differs)
        if undisc:
            # an available action OUTSIDE the support ties (1e-10) with the best reported action bias but has
            # a clearly lower action gain: only the gain filter of the result assembly keeps it out
            tie = False
            for si in range(d["n"]):
                if d["absorbing"][si]:
                    continue
                qh = [fr(x) for x in out["Qh"][si]]
                qg = [fr(x) for x in out["Qg"][si]]
                av_a = [a for a in range(d["nA"]) if d["av"][si][a] and qh[a] is not None and qg[a] is not None]
                if not av_a:
                    continue
                bh, bg = max(qh[a] for a in av_a), max(qg[a] for a in av_a)
                tie = tie or any(d["pi"][si][a] == 0 and abs(qh[a] - bh) <= F(1, 10**10) and qg[a] < bg - F(1, 10**6) for a in av_a)
            stats["undisc_bias_tie_with_lower_gain_action"] += int(tie)
        if mask_differs:
            # msdm's absorbing_state_vec against the model's exact rule (explicit flag, or: every available action is a certain
            # self-loop (probability exactly 1) and every reward of the state is 0): a wrong mask is its own defect and is
            # reported BEFORE any classification into the known numerical classes (whose findings are about the evaluation
            # solve on MDPs whose masks are right)
            why = search_failing(pc, res, d) if failed else None
            if why:
                why.pop("signature", None); why.pop("class_rule", None)
            ctx.violation("C16:masks:absorbing-mask-differs-from-model",
                          {"case": case, "step": j, "msdm_absorbing_state_vec": res.get("absorbing_vec"), "model_absorbing": list(d["absorbing"]),
                           "state_list": res["state_list"], "failed_clauses": failed, "failing_clause": why, "impl": out},
                          found=bool(why))
            continue
        if failed:
            why = search_failing(pc, res, d)
            detail = {"case": case, "step": j, "failed_clauses": failed, "impl": out,
                      "state_list": res["state_list"], "action_list": res["action_list"],
                      "certificate": {kk: [str(x) for x in d[kk]] for kk in ("gq", "w", "hq") if kk in d},
                      "M": str(d.get("M"))}
            if j > 0:
                detail["scenario"] = "step %d of a sequence planned with ONE planner object (case['mdp'], then case['more'][...])" % j
            if why:
                detail["failing_clause"] = why
                ctx.violation(why.get("signature", "C16:%s" % why["clause"]), detail, found=True)
            else:
                detail["correspondence"] = "model/Multichain.v checker (theorems props/C16.v) rejects the implementation's output"
                ctx.violation("C16:certificate-rejects:%s:%s" % ("undiscounted" if undisc else "discounted", "+".join(failed)),
                              detail, found=False)
    nmax = 6 if tier == "quick" else 8
    ctx.coverage.update({
        "evaluations": nchk,
        "distinct_nontrivial": len(distinct),
        "rule": "MDPs without dead ends, state-dependent action sets, k/8 probabilities, zero entries, duplicate rows (exact ties), explicit/implicit "
                "terminal states, multi-state initial distributions.  Families: discounted (gen_mdp, 1..%d states, gamma in {1/2,9/10,19/20}, rewards of either sign); "
                "discounted 'components' (5-8 states in many disconnected components, paying self-loops, gamma 9/10 or 19/20); discounted continuing 'near-one' "
                "(2-4 states, gamma in {1-2^-10,1-2^-14,1-2^-17,1-10^-6}); discounted EPISODIC near-one (stochastic corridors of 8-16/24 cells, gamma in "
                "{1-2^-20, 0.999995, 1-2^-17, 1-2^-14}, dyadic costs up to 1000, judged at 1e-7 relative); undiscounted: proper non-positive, terminal states with "
                "rewards of either sign, recurrent (unichain/multichain by chance), block-structured multichain, gain-class-choice 'farms' (exact / near bias ties across "
                "classes of different gain), 'large costs' (per-step costs -1200..-80, no terminal state, pure entry states lacking an action id), 'absorbing-exits' (flagged-absorbing states with "
                "2-3 actions leading to classes of different gain, 2-cycles improved only by the bias step, worse choices first), 'degenerate rewards' (expected "
                "reward exactly 0 everywhere: none / only in terminal states / zero-mean lotteries, with state-dependent action sets), 'tiny probabilities' "
                "(2-3 states, transition probabilities 2^-k and 1-2^-k for k in {8,10,20,27,30,40,52}: almost absorbing self-loops, almost unreachable exits, "
                "almost disconnected classes, multi-state classes with a tiny leak; 80%% undiscounted), and 'sweeps' "
                "(ONE planner object plans on A, a perturbation B with probabilities turned to/from 0, (C,) and A again; every step judged).  Residual tolerance = "
                "min(improvement band, 1e-3*(1-gamma)*scale, scale*max(1e-13, 1e-14/(1-gamma)^3)): discounted values are judged at 1e-10 relative at gamma .9, "
                "1e-6 at .99 (30-80x the accuracy measured on the unchanged code).  MultichainPolicyIteration(max_iterations in {200,500,1000}); "
                "only converged=True runs are judged; distinct = structural hash of the MDP; non-trivial = at least one non-terminal state" % nmax,
        "samples": [{"case": cases[items[meta[0]][0]], "impl": impl[items[meta[0]][0]]}] if meta else [],
        "cases": len(cases), "planning_steps": len(items), "certificate_checks": nchk, **stats,
        "input_features": {k_: stats[k_] for k_ in ("one_state", "one_action", "n_states_equals_n_actions", "max_states", "value_scale_ge_1e3",
                           "tiny_initial_entry", "tiny_transition_probability", "reward_magnitude_ge_1e6", "near_tie_inside_relative_band",
                           "nondyadic_numbers", "shared_mutable_caller_objects", "int_typed_inputs", "planner_reuse_steps",
                           "reuse_steps_of_different_size", "first_result_requeried_after_later_calls",
                           "same_problem_replanned_by_fresh_planner", "state_dependent_action_sets", "undisc_gain_below_minus_708")},
        "observations": [
            "non-convergence (outside the property): bias improvement is not restricted to gain-maximising actions, so the iteration 2-cycles on "
            "most genuinely multichain MDPs; those runs report converged=False and are counted (not_converged), not judged",
            "the Gram-system conditioning recorded as known finding for gamma-near-one continuing MDPs also degrades EPISODIC problems whose expected "
            "horizon is ~2000+ steps (corridor with forward probability 1/8 and back-slips, gamma 0.999995: V = -9813 vs V* = -9882, 0.7%); the "
            "episodic near-one family stays inside the accurate range (expected horizon <= ~2.5 L), so the check does not report it",
            "plan_on raises StateActionIndexError when the initial distribution lists a zero-probability state outside the reachable state "
            "list; the generator strips such entries",
        ],
    })
