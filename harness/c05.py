"""C05 — A* and breadth-first search return valid minimum-cost / minimum-step paths.

Correspondence: generated deterministic shortest-path problems -> msdm AStarSearch / BreadthFirstSearch
(harness/impl/c05_impl.py, the four representations of a deterministic MDP) -> what they return
(path, policy actions along the path, path_value, or None) is judged by the proved certificate
model/Search.v:cert_clauses / bfs_cert_clauses (theory/SearchTheory.v: path_cert_sound, bfs_cert_sound,
bf_dist_correct) evaluated by vm_compute; in addition the mirror models `astar` / `bfs` are run on the
same graph with the recorded shuffles / tie-break draws and compared exactly (path, actions, value,
visited) — a mirror difference that the certificate covers is drift, not a violation.
"""
import glob
import os
import vlib
from fractions import Fraction
from vlib import nat, natlist, zlit, zlist, blist, coqlist

INFO = {
    "level": "proof",
    "coq_files": ["model/Search.v"],
    "trusted_base": [
        "model/Search.v cert_clauses / bfs_cert_clauses / astar / bfs are the very functions the theorems of props/C05.v speak about (no transfer step)",
        "the graph given to Coq is (actions(s), next_state, -reward, is_absorbing) of the generated problem; msdm receives the same problem through its public MDP interface",
        "recording wrapper around random.Random instances inside msdm.algorithms.search (shuffle / random logged, generator stream unchanged)",
        "mirror theorems (bfs_*, astar_*) quantify over every enumeration order `ord` and every tie-break sequence `tbs`; the mirror runs instantiate them with the recorded shuffles / draws",
    ],
    "assumptions": ["states are the integers 0..n-1, actions are integers; edge costs are integers (floats in msdm: sums are exact)",
                    "the A* theorems are for finite integer heuristics (cost convention); with +inf heuristic values (exact heuristic on dead states) results are judged by the certificate, and the mirror (keys in Z+{inf}, stale-node skip) is compared without an optimality theorem",
                    "BFS queue / visited entries of the mirror carry a ghost depth that the control flow never reads"],
}

PRE = """From Coq Require Import List ZArith Bool.
From MSDM Require Import model.Search.
Import ListNotations.
Definition chk succs goals start pa pb :=
  let G := graph_of succs goals in (wf_graphb G, cert_clauses G start pa, bfs_cert_clauses G start pb).
Definition chk_a succs goals start pa :=
  let G := graph_of succs goals in (wf_graphb G, cert_clauses G start pa).
Definition chk_b succs goals start pb :=
  let G := graph_of succs goals in (wf_graphb G, bfs_cert_clauses G start pb).
Definition mir_a succs goals start orders hs tbs :=      (* finite heuristic: the form the theorems are stated for *)
  let G := graph_of succs goals in let h := fun s => Some (hz_of hs s) in
  (consistentb G h, astar G start (ord_of orders) h tbs).
Definition mir_ai succs goals start orders hs tbs :=     (* heuristic with +inf entries (None) *)
  let G := graph_of succs goals in (consistentb G (h_of hs), astar G start (ord_of orders) (h_of hs) tbs).
Definition mir_b succs goals start orders := bfs (graph_of succs goals) start (ord_of orders).
Local Open Scope Z_scope.
Definition pchk_a succs goals start phi pa :=
  let G := graph_of succs goals in (wf_graphb G, pot_clauses G start (hz_of phi) pa).
Definition pchk_b succs goals start phi pb :=
  let G := graph_of succs goals in (wf_graphb G, bfs_pot_clauses G start (hz_of phi) pb).
Definition reads := (from_mdp_read (DDet 1), from_mdp_read (DDict 1), from_mdp_read (DUnif 1)).
"""

CLAUSES = ["path does not start at the initial state",
           "path does not follow real transitions under the returned policy",
           "path does not end at an absorbing state",
           "reported path value is not the total cost of the path",
           "not minimal"]
BIG = 10 ** 13          # heuristic cost of states that cannot reach a goal (above every finite distance, exact in doubles)


# ---------------------------------------------------------------------------
# generator
# ---------------------------------------------------------------------------
def exact_dist(case, unit=False):
    """least cost (or number of steps) from every state to the goal set; None = unreachable
    (Dijkstra on the reversed graph: independent of the Coq reference, fast on graphs with thousands of states)"""
    import heapq
    n = case["n"]
    rev = [[] for _ in range(n)]
    for s in range(n):
        for a, t, c in case["succ"][s]:
            rev[t].append((s, 1 if unit else c))
    d = [None] * n
    heap = [(0, s) for s in range(n) if case["goal"][s]]
    heapq.heapify(heap)
    while heap:
        ds, s = heapq.heappop(heap)
        if d[s] is not None:
            continue
        d[s] = ds
        for u, c in rev[s]:
            if d[u] is None:
                heapq.heappush(heap, (ds + c, u))
    return d


def gen_long_case(rng):
    """long corridor / comb: the only plans have 1200..2000 steps (no forward shortcuts), with dead-end or returning
    teeth, back edges, self-loops, varying costs.  Judged by the potential certificate (pot_clauses)."""
    L = rng.randint(1200, 2000)
    comb = rng.random() < .6
    unit = rng.random() < .3
    succ = [[] for _ in range(L + 1)]
    for i in range(L):
        labels = rng.sample(range(4), 4)
        row = [[labels[0], i + 1, 1 if unit else rng.choice([0, 1, 1, 2, 3])]]
        if rng.random() < .1:
            row.append([labels[1], max(0, i - rng.randint(1, 30)), rng.choice([0, 1, 2])])
        if rng.random() < .05:
            row.append([labels[2], i, rng.choice([0, 1])])
        if comb and rng.random() < .3:
            t = len(succ)
            succ.append([[0, i, 1]] if rng.random() < .5 else [])          # tooth: returns to the spine, or dead end
            row.append([labels[3], t, rng.choice([0, 1, 2])])
        rng.shuffle(row)
        succ[i] = row
    n = len(succ)
    goal = [s == L for s in range(n)]
    case = {"n": n, "succ": succ, "goal": goal, "start": 0, "family": "long", "long": True, "plan_steps": L}
    kinds = ["det", "det", "uniform", "uniform", "dict"]
    case["repr"] = rng.choice(["next_state", "dspdist", rng.choice(kinds) + "/" + rng.choice(kinds), rng.choice(kinds) + "/" + rng.choice(kinds)])
    d = exact_dist(case)
    hk = rng.choice(["zero", "exact", "half", "exact_inf"])
    case["heuristic"] = hk
    case["h"] = ([0] * n if hk == "zero" else [BIG if x is None else x for x in d] if hk == "exact" else
                 [BIG if x is None else x // 2 for x in d] if hk == "half" else ["inf" if x is None else x for x in d])
    case["scenario"] = "plain"
    case["tie"] = rng.choice(["lifo", "fifo", "random"])
    case["shuffle"] = rng.random() < .5
    case["seed"] = rng.randrange(10 ** 6) if (case["tie"] == "random" or case["shuffle"]) else None
    case["bfs_seed"] = rng.randrange(10 ** 6) if case["shuffle"] else None
    case["labels"] = rng.choice(["int", "perm", "str", "tuple"])
    if case["labels"] == "perm":
        case["perm"] = [3 * x - 4 for x in rng.sample(range(n), n)]
    case["alabels"] = rng.choice(["int", "str"])
    case["num_type"] = rng.choice(["float", "int"])
    case["actions_container"] = rng.choice(["tuple", "list"])
    case["shared_dists"], case["tabular"], case["replan"], case["assert_monotone"] = False, False, rng.random() < .3, True
    assert consistent(case)
    return case


def gen_big_graph(rng):
    """larger / denser graphs whose A* queue fills with superseded nodes (many states re-reached more cheaply while
    still queued): out-degree up to n-1, wide cost ranges.  `repush`: reaching j from i costs about |j-i|^p, so every
    extra hop is cheaper and each expansion re-pushes most of the frontier; `dense`: random targets, costs 0..100."""
    kind = rng.choice(["repush", "repush", "repush", "dense"])
    if kind == "repush":
        n = rng.randint(10, 22)
        p_, noise = rng.choice([2, 2, 3]), rng.choice([2, 5, 5, 20])
        maxdeg = rng.choice([n - 1, n - 1, 12, 8])
        back = rng.random() < .5
        order = rng.sample(range(n), n)                 # position along the line -> state index
        succ = [[] for _ in range(n)]
        for i in range(n):
            js = [j for j in range(n) if j != i and (back or j > i)]
            rng.shuffle(js)
            js = js[:maxdeg]
            for a, j in zip(rng.sample(range(max(len(js), 1) + 3), len(js)), js):
                c = abs(j - i) ** p_ + rng.randint(0, noise) if j > i else rng.randint(0, 30)
                succ[order[i]].append([a, order[j], c])
        goal = [False] * n
        goal[order[n - 1]] = True
        if rng.random() < .3:
            goal[order[rng.randrange(n // 2, n)]] = True
        start = order[rng.choice([0, 0, 0, 1])]
    else:
        n = rng.randint(7, 16)
        succ = []
        for s in range(n):
            deg = rng.randint(2, 8)
            succ.append([[a, rng.randrange(n), rng.choice([0, 1, 2, 5, 10, 20, 50, 100, rng.randint(0, 100)])]
                         for a in rng.sample(range(10), deg)])
        goal = [False] * n
        for g_ in rng.sample(range(n), rng.choice([1, 1, 2])):
            goal[g_] = True
        start = rng.randrange(n)
    return n, succ, goal, start, kind


def gen_case(rng, scenario=None):
    big = rng.random() < .2
    n = rng.choice([1, 2, 3, 3, 4, 4, 5, 5, 6, 6, 7, 8, 9])
    shape = rng.choice(["random", "random", "forward", "ring", "chain"])
    costmode = rng.choice(["mixed", "mixed", "mixed", "unit", "zero", "zeroheavy", "large", "neartie"])
    tie_base = rng.choice([10 ** 5, 10 ** 6, 10 ** 7, 10 ** 9])
    succ = []
    for s in range(n):
        deg = rng.choice([0, 1, 1, 2, 2, 2, 3, 3])
        labels = rng.sample(range(4), deg)
        row = []
        for a in labels:
            if shape == "forward" and rng.random() < .8:
                t = min(n - 1, s + rng.choice([1, 1, 2, 3]))
            elif shape == "ring" and rng.random() < .7:
                t = (s + rng.choice([1, 1, 2])) % n
            else:
                t = rng.randrange(n)          # self-loops and back edges included
            if costmode == "unit":
                c = 1
            elif costmode == "zero":
                c = 0
            elif costmode == "large":       # big magnitudes, gaps of 1 between totals that must be told apart
                c = rng.choice([0, 1, 10 ** 6, 10 ** 6 + 1, 10 ** 9, 10 ** 9 + 1])
            elif costmode == "neartie":     # every edge about B: routes with the same number of hops differ by a relative 1e-5..1e-9
                c = tie_base + rng.choice([0, 0, 1, 2, 3])
            elif costmode == "zeroheavy":
                c = rng.choice([0, 0, 0, 1, 2])
            else:
                c = rng.choice([0, 1, 1, 2, 2, 3, 4])
            row.append([a, t, c])
        succ.append(row)
    if shape == "chain" and n > 1:      # one forward action per state (+ a few back edges): every plan has n-1 steps
        succ = [[[rng.randrange(4), i + 1, succ[i][0][2] if succ[i] else 1]] for i in range(n - 1)] + [[]]
        for i in range(1, n - 1):
            if rng.random() < .3:
                succ[i].append([(succ[i][0][0] + 1) % 4, rng.randrange(i + 1), rng.choice([0, 1, 2])])
    r = rng.random()
    if shape == "chain" and n > 1:
        goal = [s == n - 1 for s in range(n)]
    elif r < .08:
        goal = [False] * n
    else:
        k = rng.choice([1, 1, 1, 2, 2, 3])
        gs = set(rng.sample(range(n), min(k, n)))
        if shape == "forward" and rng.random() < .7:
            gs = {n - 1} | (set(rng.sample(range(n), 1)) if rng.random() < .3 else set())
        goal = [s in gs for s in range(n)]
    start = 0 if (shape == "chain" or (shape == "forward" and rng.random() < .8)) else rng.randrange(n)
    nongoal = [s for s in range(n) if not goal[s]]
    if goal[start] and nongoal and rng.random() < .8:
        start = rng.choice(nongoal)
    family = "small"
    if big:
        n, succ, goal, start, family = gen_big_graph(rng)
    case = {"n": n, "succ": succ, "goal": goal, "start": start, "family": family}
    # representation of the deterministic MDP
    r = rng.random()
    if r < .25:
        case["repr"] = "next_state"
    elif r < .32:
        case["repr"] = "dspdist"
    else:
        kinds = ["det", "det", "uniform", "uniform", "dict", "plain", "plain"]     # plain = QuickMDP(next_state= / initial_state=)
        case["repr"] = rng.choice(kinds) + "/" + rng.choice(kinds)
    # heuristic (as a COST per state; msdm gets heuristic_value = -cost)
    d = exact_dist(case)
    hk = rng.choice(["zero", "exact", "half", "exact", "half", "exact_inf", "scaled", "scaled"] + (["zero", "zero", "half"] if big else []))
    case["h_scale"] = [1, 1]
    if hk == "scaled":          # "scaled exact": k * (exact cost-to-go) for a float k in (0,1): half-integers, or non-dyadic values
        case["h_scale"] = rng.choice([[1, 2], [1, 2], [3, 4], [7, 10], [1, 3], [1, 10]])
        h = ["inf" if x is None else x for x in d] if rng.random() < .3 else [BIG if x is None else x for x in d]
    elif hk == "zero":
        h = [0] * n
    elif hk == "exact":
        h = [BIG if x is None else x for x in d]
    elif hk == "half":
        h = [BIG if x is None else x // 2 for x in d]
    else:
        h = ["inf" if x is None else x for x in d]
    case["heuristic"], case["h"] = hk, h
    # multi-step scenarios: several from_mdp wrappers alive at once / a heuristic that itself runs a search
    if scenario is None:
        r = rng.random()
        scenario = "two_wrappers" if r < .18 else "nested_h" if r < .34 else "edit_replan" if r < .48 else "plain"
    case["scenario"] = scenario
    qk = ["det", "det", "uniform", "uniform", "dict", "plain", "plain"]
    if (scenario != "plain" and case["repr"] == "next_state") or (scenario == "edit_replan" and "/" not in case["repr"]):
        case["repr"] = rng.choice(qk) + "/" + rng.choice(qk)          # must go through from_mdp's wrapper
    if scenario == "nested_h":
        # relaxed problem: same transitions, each cost lowered (c' <= c): its exact cost-to-go is a consistent heuristic
        case["relaxed_succ"] = [[[a, t, rng.choice([c // 2, c // 2, 0, c])] for a, t, c in row] for row in succ]
        case["relaxed_repr"] = rng.choice(qk) + "/" + rng.choice(qk)
        dr = exact_dist(dict(case, succ=case["relaxed_succ"]))
        case["heuristic"], case["h"], case["h_scale"] = "nested", ["inf" if x is None else x for x in dr], [1, 1]
    case["tie"] = rng.choice(["lifo", "fifo", "random"])
    case["shuffle"] = rng.random() < .5
    case["seed"] = rng.choice([0, rng.randrange(10 ** 6), rng.randrange(10 ** 6)]) if (case["tie"] == "random" or case["shuffle"]) else None
    case["bfs_seed"] = rng.choice([0, rng.randrange(10 ** 6), rng.randrange(10 ** 6)]) if (case["shuffle"] or rng.random() < .3) else None
    # how the problem reaches msdm: labels (incl. falsy ones for index 0), containers, number types, object reuse
    case["labels"] = rng.choice(["int", "int", "int", "perm", "str", "tuple", "float", "bool01"])
    if case["labels"] == "perm":
        case["perm"] = [3 * x - 4 for x in rng.sample(range(n), n)]
    case["alabels"] = rng.choice(["int", "int", "int", "str", "str", "tuple", "list"])       # "list": unhashable action labels
    case["num_type"] = rng.choice(["float", "float", "int", "float32"])
    if case["num_type"] == "float32":
        # np.float32 rewards make A*'s sums float32 (24 bits): every g + k*h must be exact there, so only problems whose
        # total cost is below 2^20, dyadic heuristic scales, and a dead-state heuristic value just above every distance
        tot = sum(c for row in succ for _, _, c in row) + 1
        q_ = case["h_scale"][1]
        if tot >= 2 ** 20 or q_ & (q_ - 1) or scenario == "nested_h":
            case["num_type"] = "float"
        else:
            case["h"] = [tot if x == BIG else x for x in case["h"]]
    case["actions_container"] = rng.choice(["tuple", "list", "dict", "iter", "shared_list", "shared_list"])
    if case["alabels"] == "list" and case["actions_container"] == "dict":
        case["actions_container"] = "list"
    case["shared_dists"] = rng.random() < .3
    case["tabular"] = "/" in case["repr"] and rng.random() < .2 and case["alabels"] != "list"   # tabular views need hashable actions
    case["replan"] = rng.random() < .25
    case["assert_monotone"] = rng.random() < .75
    assert consistent(case)
    if scenario == "edit_replan":
        case["tabular"] = False
        case["edit_mode"] = rng.choice(["inplace", "inplace", "copy", "there_and_back"])
        case["planner_table"] = rng.random() < .6       # one planner object for the whole history, heuristic read from an edited table
        case["edited"] = gen_edit(rng, case)
        if case["planner_table"]:
            case["replan"] = False
        if case["edited"]["num_type"] != case["num_type"]:
            case["num_type"] = "float"
    if scenario == "two_wrappers":
        other = gen_case(rng, scenario="second_wrapper")
        if rng.random() < .5:     # ONE A* object and ONE BFS object plan on both problems
            case["shared_planner"] = True
            if rng.random() < .5 and case["labels"] != "perm":
                # the heuristic reads a table the caller refills between the calls; same label scheme on both problems, so
                # the same labels carry different heuristic values
                case["planner_table"] = True
                other["labels"] = case["labels"]
                other["h_scale"] = [1, 1] if other["h_scale"][1] & (other["h_scale"][1] - 1) else other["h_scale"]
            else:                 # zero heuristic fits both
                for c in (case, other):
                    c["heuristic"], c["h"], c["h_scale"] = "zero", [0] * c["n"], [1, 1]
            if "float32" in (case["num_type"], other["num_type"]):
                case["num_type"] = other["num_type"] = "float"
            for k in ("tie", "shuffle", "seed", "bfs_seed", "num_type", "assert_monotone"):
                other[k] = case[k]
        case["late_policy"] = rng.random() < .5      # the first results are only read after the second problem was planned
        case["other"] = other
    return case


def gen_edit(rng, case):
    """the same problem object after an edit: some transitions re-routed / re-priced, sometimes the start moved or a goal
    toggled; same labels, representation and search options; heuristic recomputed for the edited problem"""
    n = case["n"]
    e = {k: v for k, v in case.items() if k not in ("other", "edited", "relaxed_succ", "relaxed_repr", "edit_mode")}
    succ = [[list(x) for x in row] for row in case["succ"]]
    cmax = max([c for row in succ for _, _, c in row] + [1])
    for row in succ:
        for x in row:
            r = rng.random()
            if r < .3:
                x[1] = rng.randrange(n)                       # re-route
            elif r < .45:
                x[2] = rng.choice([0, 1, x[2] + 1, max(0, x[2] - 1), rng.randint(0, min(cmax, 100))])   # re-price
    goal = list(case["goal"])
    if rng.random() < .25:
        g_ = rng.randrange(n)
        goal[g_] = not goal[g_]
    start = rng.randrange(n) if rng.random() < .4 else case["start"]
    e.update({"succ": succ, "goal": goal, "start": start, "scenario": "edited", "replan": False, "tabular": False, "h_scale": [1, 1]})
    d = exact_dist(e)
    hk = rng.choice(["zero", "exact", "half", "exact_inf"])
    e["heuristic"] = hk
    e["h"] = ([0] * n if hk == "zero" else [BIG if x is None else x for x in d] if hk == "exact" else
              [BIG if x is None else x // 2 for x in d] if hk == "half" else ["inf" if x is None else x for x in d])
    if e["num_type"] == "float32":
        tot = sum(c for row in succ for _, _, c in row) + 1
        if tot >= 2 ** 20:
            e["num_type"] = "float"
        else:
            e["h"] = [tot if x == BIG else x for x in e["h"]]
    assert consistent(e)
    return e


def consistent(case):
    inf = float("inf")
    k = Fraction(*case.get("h_scale", [1, 1]))
    h = [inf if x == "inf" else k * x for x in case["h"]]
    for s in range(case["n"]):
        if case["goal"][s] and h[s] != 0:
            return False
        for a, t, c in case["succ"][s]:
            if not h[s] <= c + h[t]:
                return False
    return True


# fixed probe, run with every check: the exact heuristic is +inf everywhere (no goal), fifo ties; the costlier
# node of state 2 (pushed first) is popped before the cheaper one pushed later
INF_PROBE = {"n": 3, "succ": [[[0, 1, 0], [1, 2, 5]], [[0, 2, 0]], []], "goal": [False, False, False], "start": 0,
             "repr": "next_state", "heuristic": "exact_inf", "h": ["inf", "inf", "inf"], "tie": "fifo",
             "shuffle": False, "seed": None, "bfs_seed": None, "fixed": "infinite-heuristic-probe"}


def near_tie_large(case, d):
    """a state reachable from the start where two actions lead to DIFFERENT finite totals >= 1e5 that differ by a
    relative 1e-5 or less (an isclose-style comparison would confuse them)"""
    seen, todo = {case["start"]}, [case["start"]]
    while todo:
        s = todo.pop()
        if case["goal"][s]:
            continue
        qs = sorted({c + d[t] for _, t, c in case["succ"][s] if d[t] is not None})
        if any(b >= 10 ** 5 and 0 < b - a <= b * 1e-5 for a, b in zip(qs, qs[1:])):
            return True
        for _, t, _ in case["succ"][s]:
            if t not in seen:
                seen.add(t)
                todo.append(t)
    return False


def features(case):
    d = exact_dist(case)
    du = exact_dist(case, unit=True)[case["start"]]
    zc = any(c == 0 for row in case["succ"] for _, _, c in row)
    return {"start_is_goal": case["goal"][case["start"]], "no_goal_reachable": d[case["start"]] is None,
            "zero_cost_edge": zc, "self_loop": any(t == s for s, row in enumerate(case["succ"]) for _, t, _ in row),
            "multiple_goals": sum(case["goal"]) > 1, "no_goal_at_all": not any(case["goal"]),
            "some_goal_unreachable": any(case["goal"][s] for s in range(case["n"])) and d[case["start"]] is None,
            "dead_state": any(x is None for x in d),
            "repr_" + case["repr"].replace("/", "_"): True, "h_" + case["heuristic"]: True,
            "tie_" + case["tie"]: True, "shuffle": case["shuffle"], "scenario_" + case.get("scenario", "plain"): True,
            "labels_" + case.get("labels", "int"): True, "alabels_" + case.get("alabels", "int"): True,
            "num_" + case.get("num_type", "float"): True, "actions_as_" + case.get("actions_container", "tuple"): True,
            "shared_dists": case.get("shared_dists", False), "tabular_touched": case.get("tabular", False),
            "replan_same_planner": case.get("replan", False), "shared_planner_two_problems": case.get("shared_planner", False),
            "assert_monotone_off": not case.get("assert_monotone", True), "large_costs": any(c >= 10 ** 6 for row in case["succ"] for _, _, c in row),
            "family_" + case.get("family", "small"): True, "out_degree_ge_8": any(len(row) >= 8 for row in case["succ"]),
            "seed_0": case.get("seed") == 0 or case.get("bfs_seed") == 0, "start_0": case["start"] == 0, "single_state": case["n"] == 1,
            "near_tie_large_totals": near_tie_large(case, d), "min_steps_eq_n_minus_1": du is not None and du == case["n"] - 1 and case["n"] > 2,
            "min_steps_ge_1000": du is not None and du >= 1000, "every_state_at_most_one_action": all(len(r) <= 1 for r in case["succ"]) and case["n"] > 1,
            "h_scale_%d_%d" % tuple(case.get("h_scale", [1, 1])): True, "late_policy_read": case.get("late_policy", False), "planner_reads_edited_table": case.get("planner_table", False),
            "ctor_next_state_plain": case["repr"].endswith("/plain"), "ctor_initial_state_plain": case["repr"].startswith("plain/"),
            "ctor_mixed_spelling": "/" in case["repr"] and (case["repr"].startswith("plain/") != case["repr"].endswith("/plain")), "edit_mode_" + case.get("edit_mode", "none"): True,
            "start_moved_by_edit": "edited" in case and case["edited"]["start"] != case["start"],
            "n_states_eq_n_action_labels": case["n"] == len({a for r in case["succ"] for a, _, _ in r}) and case["n"] > 1}


# ---------------------------------------------------------------------------
# Gallina literals
# ---------------------------------------------------------------------------
def graph_term(case, mult=1):
    if mult != 1:               # every cost times `mult` (mirror runs with a heuristic p/q * h: keys times q are integers)
        case = dict(case, succ=[[[a, t, c * mult] for a, t, c in row] for row in case["succ"]])
    if case.get("long"):        # numbers in binary (a unary nat literal per state would be huge)
        succs = coqlist(coqlist("mkEz %d %d %d" % (a, t, c) for a, t, c in row) for row in case["succ"])
        return "%s %s (Z.to_nat %d)" % (succs, blist(case["goal"]), case["start"])
    succs = coqlist(coqlist("mkE %d %d %s" % (a, t, zlit(c)) for a, t, c in row) for row in case["succ"])
    return "%s %s %s" % (succs, blist(case["goal"]), nat(case["start"]))


def zl(xs):
    return "[" + "; ".join("%d" % x for x in xs) + "]"


def plan_term(out, with_value, long=False):
    p = out["plan"]
    if p is None:
        return "None"
    if long:
        if with_value:
            return "(zplan (Some (%s, %s, %d)))" % (zl(p["path"]), zl(p["acts"]), p["value_int"])
        return "(zbfs_plan (Some (%s, %s)))" % (zl(p["path"]), zl(p["acts"]))
    if with_value:
        return "(Some (%s, %s, %s))" % (natlist(p["path"]), natlist(p["acts"]), zlit(p["value_int"]))
    return "(Some (%s, %s))" % (natlist(p["path"]), natlist(p["acts"]))


def potential(case, unit):
    """exact cost-to-go (steps-to-go) as a potential; states that cannot reach a goal get BIG (still consistent)"""
    return [BIG if x is None else x for x in exact_dist(case, unit=unit)]


# ---------------------------------------------------------------------------
# independent oracle: which clause of the property fails on this result (plain Python ints)
# ---------------------------------------------------------------------------
def failing_clause(case, out, alg):
    unit = alg == "bfs"
    best = exact_dist(case, unit=unit)[case["start"]]
    p = out["plan"]
    if p is None:
        if best is not None:
            return {"clause": "no plan reported although an absorbing state is reachable", "least": best}
        return None
    path, acts = p["path"], p["acts"]
    if not path or path[0] != case["start"]:
        return {"clause": CLAUSES[0]}
    if len(acts) != len(path) - 1:
        return {"clause": CLAUSES[1], "why": "policy actions do not cover the path"}
    total = 0
    for i, a in enumerate(acts):
        hit = [(t, c) for (b, t, c) in case["succ"][path[i]] if b == a] if 0 <= path[i] < case["n"] else []
        if not hit or hit[0][0] != path[i + 1]:
            return {"clause": CLAUSES[1], "step": i, "state": path[i], "action": a, "next_in_path": path[i + 1]}
        total += 1 if unit else hit[0][1]
    if not (0 <= path[-1] < case["n"]) or not case["goal"][path[-1]]:
        return {"clause": CLAUSES[2], "last": path[-1]}
    if not unit and (p.get("value_int") is None or p["value_int"] != total):
        return {"clause": CLAUSES[3], "reported": p.get("value"), "sum": total}
    if best is None or total != best:
        return {"clause": "path is not of minimum %s" % ("length" if unit else "cost"), "path_total": total, "least": best}
    return None


def sig_of(alg, clause):
    key = {"no plan reported although an absorbing state is reachable": "no-plan-but-goal-reachable",
           CLAUSES[0]: "path-wrong-start", CLAUSES[1]: "path-not-real-transitions",
           CLAUSES[2]: "path-not-ending-at-goal", CLAUSES[3]: "value-not-path-cost",
           "path is not of minimum cost": "path-not-minimal", "path is not of minimum length": "path-not-shortest"}
    return "C05:%s:%s" % (alg, key.get(clause, clause))


def int_value(v):
    """exact integer of the reported path_value, or None"""
    if isinstance(v, list):
        f = vlib.frac(v)
        if f.denominator == 1:
            return int(f)
    return None


def mirror_view(v):
    """parsed sresult -> comparable dict"""
    if not isinstance(v, tuple):
        return {"bad": repr(v)}
    if v[0] == "NoPlan":
        return {"plan": None, "visited": sorted(v[1])}
    if v[0] == "Found":
        return {"plan": {"path": v[1], "acts": v[2], "value": v[3]}, "visited": sorted(v[4])}
    return {"bad": v[0]}


def run(ctx):
    tier = ctx.tier
    ncases = 600 if tier == "quick" else 6000
    if ctx.replay_case:
        cases = [ctx.replay_case["detail"]["case"]]
    else:
        nlong = 4 if tier == "quick" else 24
        cases = [gen_case(ctx.rng) for _ in range(ncases)] + [INF_PROBE] + [gen_long_case(ctx.rng) for _ in range(nlong)]
    impl = ctx.impl("c05_impl.py", {"cases": cases}, shards=8 if tier == "quick" else 16)["results"]

    # model of from_mdp: which representations of a single outcome can be read (theorems from_mdp_repr_*)
    rd = ctx.coq(PRE, ["reads"], tag="reads_p%d" % os.getpid())[0]   # pid: concurrent checks share work/C05
    if isinstance(rd, vlib.CoqError) or len(rd) != 3:
        ctx.violation("C05:coq-evaluation-failed", {"case": None, "error": str(rd)[:800]}, found=False)
        model_reads = {"det": True, "dict": True, "uniform": True}
    else:
        model_reads = {k: v == ("Some", 1) for k, v in zip(("det", "dict", "uniform"), rd)}

    terms, meta = [], []
    feats = {}
    reported_once = set()
    n_dict_err = n_inf_assert = stale_from_mdp_model = 0
    distinct = set()
    # units to judge: (case as generated = replay unit, problem the result is about, its results)
    units = []
    for parent, res in zip(cases, impl):
        if "error" in res:
            ctx.violation("C05:impl-error:" + res["error"].split(":")[0], {"case": parent, "error": res["error"]}, found=False)
            continue
        units.append((parent, parent, res))
        if parent.get("scenario") == "two_wrappers":
            units.append((parent, parent["other"], res["other"]))
        if parent.get("scenario") == "edit_replan":
            units.append((parent, parent["edited"], res["edited"]))          # judged against the object's definition after the edit
            if "again" in res:
                units.append((parent, parent, dict(res["again"], is_again=True)))
    n_nested_h = n_long_checks = n_nondyadic = 0
    mirror_mult = {}
    n_requery = n_rerun = 0
    branch = {"astar_runs_with_10plus_repushes": 0, "astar_max_repushes_in_a_run": 0, "astar_runs_with_repush": 0, "astar_runs_with_stale_pop": 0, "astar_goal_popped": 0, "astar_fell_through": 0,
              "bfs_goal_popped": 0, "bfs_fell_through": 0}
    for i, (parent, case, res) in enumerate(units):
        for k, v in features(case).items():
            if v:
                feats[k] = feats.get(k, 0) + 1
        for alg in ("astar", "bfs"):
            o = res[alg]
            if "error" not in o:
                branch[alg + ("_fell_through" if o["plan"] is None else "_goal_popped")] += 1
        branch["astar_runs_with_repush"] += res["astar"].get("repushes", 0) > 0
        branch["astar_runs_with_10plus_repushes"] += res["astar"].get("repushes", 0) >= 10
        branch["astar_max_repushes_in_a_run"] = max(branch["astar_max_repushes_in_a_run"], res["astar"].get("repushes", 0))
        branch["astar_runs_with_stale_pop"] += res["astar"].get("stale_pops", 0) > 0
        if case is parent and not res.get("is_again"):
            if res.get("mutated"):
                ctx.violation("C05:search:mutates-caller-objects",
                              {"case": parent, "objects": res["mutated"],
                               "clause": "a search changed an object owned by the caller (the list returned by actions(s) / a distribution object): "
                                         "the problem after the call is not the problem that was handed in"}, found=True)
            if "requery_same" in res:
                n_requery += 1
                if not res["requery_same"]:
                    ctx.violation("C05:search:first-result-changes-after-second-problem",
                                  {"case": parent, "clause": "path / policy / visited of the first result read differently after a second problem was planned"}, found=True)
            if "rerun_same" in res:
                n_rerun += 1
                if not res["rerun_same"]:
                    ctx.violation("C05:search:same-problem-second-time-differs",
                                  {"case": parent, "clause": "building and solving the same problem again later in the same process gives a different result (state kept at class / module level)"}, found=True)
        if "h_seen" in res["astar"]:
            # the nested searches' path values must be the exact relaxed costs-to-go (they are A* results themselves)
            for st, v in res["astar"]["h_seen"].items():
                n_nested_h += 1
                want = case["h"][int(st)]
                got = "inf" if v == "inf" else int_value(v)
                if got != want:
                    ctx.violation(sig_of("astar", "path is not of minimum cost"),
                                  {"case": parent, "algorithm": "astar (nested heuristic search)", "state": int(st),
                                   "failing_clause": {"clause": "nested search on the relaxed problem reports a path value that is not the least cost",
                                                      "reported": v, "least": want}}, found=True)
        gt = graph_term(case)
        kinds = [] if case["repr"] == "next_state" else ["det", "det"] if case["repr"] == "dspdist" else \
            ["det" if k == "plain" else k for k in case["repr"].split("/")]
        # the initial distribution is always read; a next-state distribution only if the start gets expanded
        expands = not case["goal"][case["start"]] and bool(case["succ"][case["start"]])
        model_accepts = all(model_reads[k] for k in (kinds if expands else kinds[:1]))
        for alg in ("astar", "bfs"):
            out = res[alg]
            if "error" not in out and not model_accepts:
                stale_from_mdp_model += 1      # msdm reads a representation the model says it cannot: model is behind the code
            if "error" in out:
                et = out["error"].split(":")[0]
                if "dict" in kinds and et == "TypeError" and "dict_keys" in out["error"]:
                    # the clause "however its single-outcome distributions are represented" fails
                    # (theorem from_mdp_repr holds for the model of the repaired code: the code has fallen behind it)
                    n_dict_err += 1
                    if "dict" not in reported_once:
                        reported_once.add("dict")
                        ctx.violation("C05:from_mdp:dict-distribution-support-not-indexable",
                                      {"case": parent, "judged_problem": "main" if case is parent else case.get("scenario", "second"), "algorithm": alg, "error": out["error"], "model_from_mdp_read": model_reads,
                                       "clause": "a deterministic MDP given through a single-entry DictDistribution is not accepted: "
                                                 "from_mdp indexes `.support[0]` but DictDistribution.support is a dict keys view"},
                                      found=True)
                    continue
                if alg == "astar" and "inf" in case["h"] and et == "AssertionError" and "stored as best node" in out["error"]:
                    # exact heuristic = +inf on states that cannot reach a goal: all their keys tie at +inf, an older
                    # (costlier) node of a state can be popped before its best node and the internal assertion fires
                    n_inf_assert += 1
                    if "inf" not in reported_once:
                        reported_once.add("inf")
                        ctx.violation("C05:astar:infinite-heuristic-stale-node-assertion",
                                      {"case": parent, "judged_problem": "main" if case is parent else case.get("scenario", "second"), "algorithm": alg, "error": out["error"],
                                       "clause": "A* raises AssertionError instead of returning a plan / no plan when the (consistent, exact) "
                                                 "heuristic is +inf on states from which no absorbing state is reachable"},
                                      found=True)
                    continue
                ctx.violation("C05:%s:raises:%s" % (alg, et), {"case": parent, "judged_problem": "main" if case is parent else case.get("scenario", "second"), "algorithm": alg, "error": out["error"],
                                                              "clause": "search raises on an input inside the property's quantifier"}, found=True)
                continue
            if alg == "astar" and out["plan"] is not None:
                out["plan"]["value_int"] = int_value(out["plan"]["value"])
                if out["plan"]["value_int"] is None:
                    ctx.violation(sig_of(alg, CLAUSES[3]), {"case": parent, "judged_problem": "main" if case is parent else case.get("scenario", "second"), "algorithm": alg, "impl": out,
                                                            "failing_clause": {"clause": CLAUSES[3], "reported": out["plan"]["value"]}}, found=True)
                    continue
            if case.get("long"):
                # thousands of states: bf_dist is too slow; minimality is witnessed by the exact cost-to-go as a potential
                # (theorems pot_cert_sound / bfs_pot_cert_sound); a missing plan fails the last clause and is named by the oracle
                terms.append("%s %s %s %s" % ("pchk_a" if alg == "astar" else "pchk_b", gt, zl(potential(case, alg == "bfs")),
                                              plan_term(out, alg == "astar", long=True)))
            else:
                terms.append("%s %s %s" % ("chk_a" if alg == "astar" else "chk_b", gt, plan_term(out, alg == "astar")))
            meta.append(("chk", i, alg))
            if case.get("long"):
                n_long_checks += 1
                continue            # the list-based mirror is quadratic (minutes at this size): certificate only
            if not case["goal"][case["start"]] and case["succ"][case["start"]]:
                distinct.add(vlib.structural_hash([case["succ"], case["goal"], case["start"]]))
            # mirror
            if alg == "bfs":
                terms.append("mir_b %s %s" % (gt, coqlist(natlist(o) for o in out["shuffles"])))
                meta.append(("mir", i, alg))
            else:
                tb = {"lifo": "tbs_lifo", "fifo": "tbs_fifo"}.get(case["tie"]) or "(tbs_of %s)" % zlist(out["randoms"])
                p_, q_ = case.get("h_scale", [1, 1])
                if q_ & (q_ - 1):            # non-dyadic scale: float keys are rounded, ties may fall differently: certificate only
                    n_nondyadic += 1
                    continue
                gtm = graph_term(case, q_)
                hsc = [x if x == "inf" else p_ * x for x in case["h"]]
                mirror_mult[len(terms)] = q_
                if "inf" in case["h"]:       # +inf keys: exercises the stale-node skip of the loop (no optimality theorem; certificate gates)
                    hs = coqlist("None" if x == "inf" else "(Some %s)" % zlit(x) for x in hsc)
                    terms.append("mir_ai %s %s %s %s" % (gtm, coqlist(natlist(o) for o in out["shuffles"]), hs, tb))
                else:
                    terms.append("mir_a %s %s %s %s" % (gtm, coqlist(natlist(o) for o in out["shuffles"]), zlist(hsc), tb))
                meta.append(("mir", i, alg))

    # the few big terms (seconds each) get a file of their own so that they run in parallel
    big = [k for k, (_, i, _) in enumerate(meta) if units[i][1].get("long")]
    small = [k for k in range(len(terms)) if units[meta[k][1]][1].get("long") is not True]
    vals = [None] * len(terms)
    for ks, sh, tg in ((small, 40 if tier == "quick" else 150, "cases"), (big, 1, "long")):
        for k, v in zip(ks, ctx.coq(PRE, [terms[k] for k in ks], shard=sh, tag="%s_p%d" % (tg, os.getpid()))):
            vals[k] = v
    nchk = nmir = drift = accepted = 0
    drift_samples = []
    for k_, ((kind, i, alg), v) in enumerate(zip(meta, vals)):
        parent, case, out = units[i][0], units[i][1], units[i][2][alg]
        if isinstance(v, vlib.CoqError):
            ctx.violation("C05:coq-evaluation-failed", {"case": parent, "judged_problem": "main" if case is parent else case.get("scenario", "second"), "algorithm": alg, "error": str(v)[:800]}, found=False)
            continue
        if kind == "chk":
            nchk += 1
            wf, clauses = v
            if not wf:
                raise RuntimeError("generator produced an ill-formed graph: %r" % (case,))
            if all(clauses):
                accepted += 1
                continue
            why = failing_clause(case, out, alg)
            detail = {"case": parent, "judged_problem": "main" if case is parent else case.get("scenario", "second"), "algorithm": alg, "impl": out, "certificate_clauses": list(clauses)}
            if why:
                detail["failing_clause"] = why
                ctx.violation(sig_of(alg, why["clause"]), detail, found=True)
            else:
                detail["correspondence"] = "model/Search.v:cert_clauses (props/C05.v) rejects the implementation's result but the Python oracle finds no failing clause"
                ctx.violation("C05:%s:certificate-rejects" % alg, detail, found=False)
        else:
            nmir += 1
            if alg == "astar":
                cons, r = v
                if not cons:
                    raise RuntimeError("generator produced an inconsistent heuristic: %r" % (case,))
            else:
                r = v
            mv = mirror_view(r)
            if out["plan"] is None:          # plan_on returned None: no visited set to compare
                want = {"plan": None, "visited": mv.get("visited")}
            else:
                want = {"plan": {"path": out["plan"]["path"], "acts": out["plan"]["acts"],
                                 "value": out["plan"]["value_int"] * mirror_mult.get(k_, 1) if alg == "astar" else len(out["plan"]["acts"])},
                        "visited": out["visited"]}
            if mv != want:
                drift += 1          # covered by the certificate (drift-cleared) unless the certificate failed too
                if len(drift_samples) < 3:
                    drift_samples.append({"case": case, "algorithm": alg, "mirror": mv, "impl": out})
    for f in glob.glob(os.path.join(ctx.workdir, "C05_*_p%d_*.v" % os.getpid())):     # per-process work files: do not pile up
        try:
            os.remove(f)
        except OSError:
            pass
    ctx.coverage.update({
        "evaluations": nchk + nmir,
        "distinct_nontrivial": len(distinct),
        "rule": "80%% small graphs: 1..9 states, out-degree 0..3 with distinct action labels from 0..3 in random order, successors random / mostly-forward / ring "
                "(self-loops, back edges, cycles), integer costs 0..4 (modes mixed / unit / all-zero / zero-heavy), 0..3 goals (possibly with outgoing actions, "
                "possibly unreachable, possibly the start); 20%% big graphs (gen_big_graph): `repush` 10..22 states, out-degree up to n-1, cost ~ |j-i|^p + noise so that "
                "most queued states are re-reached more cheaply at every expansion (superseded nodes outnumber live ones), or `dense` 7..16 states, out-degree 2..8, costs 0..100; plus a fixed number of `long` corridor / comb problems "
                "(gen_long_case: the only plans have 1200..2000 steps; dead-end and returning teeth, back edges, self-loops; judged by the potential certificate pot_clauses with the "
                "exact cost-to-go as potential, no mirror run); heuristic in {zero, exact, floor(exact/2), exact with +inf on dead states} (dead states otherwise %d), "
                "tie_breaking in {lifo,fifo,random}, seeds, randomize_action_order, MDP given as a DeterministicShortestPathProblem subclass (next_state) or a QuickMDP whose "
                "initial/next-state distributions are DeterministicDistribution / single-entry DictDistribution / single-element UniformDistribution; every case is run "
                "through AStarSearch and BreadthFirstSearch; scenarios: plain / edit_replan (ONE editable MDP object: plan, edit it in place or edit a shallow copy, plan again, optionally edit back and plan a third time; every plan judged against the definition at the time of the call) / two_wrappers (from_mdp wrappers of two different generated problems built first, then the older "
                "one planned on, then the newer; both judged) / nested_h (heuristic_value computed lazily by a nested A* on a cost-relaxed copy given as a second non-DSP MDP); distinct = structural hash of (graph, goals, start) over cases that reached the certificate; non-trivial = the start is not absorbing and has at least one action" % BIG,
        "samples": [{"case": cases[0], "impl": impl[0]}] if cases else [],
        "certificate_checks": nchk, "certificate_accepts": accepted, "mirror_runs": nmir, "mirror_drift": drift,
        "mirror_drift_samples": drift_samples,
        "nested_heuristic_values_checked": n_nested_h, "long_plan_certificate_checks": n_long_checks, "nondyadic_scaled_heuristic_runs_certificate_only": n_nondyadic,
        "first_results_reread_after_second_problem": n_requery, "same_problem_solved_again_at_process_end": n_rerun, "branch_counts": branch,
        "dict_distribution_runs_raising_TypeError": n_dict_err,
        "infinite_heuristic_runs_raising_AssertionError": n_inf_assert,
        "from_mdp_model": model_reads, "from_mdp_model_behind_code_runs": stale_from_mdp_model,
        "input_features": feats, "cases": len(cases),
    })
