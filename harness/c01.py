"""C01 — value iteration (vectorized, dict) and policy iteration return optimal values and policies.

Correspondence: generated MDPs -> msdm planners (harness/impl/c01_impl.py) -> the proved-sound
certificate checker model/VI.v:c01_check evaluated by vm_compute on the returned tables (exact
rationals of the floats), plus the mirror models vi_vec / vi_dict run on the same MDP.
"""
from fractions import Fraction as F
import vlib
from vlib import q, qlist, qmat, qten, nat, bmat, blist, coqlist
import gen_mdp

INFO = {
    "level": "proof",
    "coq_files": ["model/VI.v", "model/LAOStar.v", "theory/LAOStarProper.v"],
    "trusted_base": [
        "model/VI.v c01_check is evaluated on Q (NumQ); theorems are on R; tied by paramcoq transfer (theory/VITransfer.v)",
        "generated parameters (gamma, probabilities, rewards) reach the model exactly and msdm as nearest doubles",
    ],
    "assumptions": ["MDP arrays of the model are built from the generator's definition in the state/action order msdm reports"],
}

PRE = """From Coq Require Import QArith List Bool.
From MSDM Require Import base.Num base.NumInst model.MDP model.VI model.LAOStar theory.LAOStarProper.
Import ListNotations.
Local Open Scope Q_scope.
Definition chkP nS nA P R av ab ini g (W : list Q) :=
  let m := mk_mdp nS nA P R av ab ini g in @c_proper Q NumQ m (masktab m) W.
Definition chk nS nA P R av ab ini g V Qv Pi iv tl :=
  @c01_check Q NumQ (mk_mdp nS nA P R av ab ini g) (mk_out V Qv Pi iv) tl.
Definition chkU nS nA P R av ab ini g V Qv Pi iv N :=
  @c01_undisc_check Q NumQ (mk_mdp nS nA P R av ab ini g) (mk_out V Qv Pi iv) N.
Definition mir_vec nS nA P R av ab ini g (mi : nat) eps (Vimpl : list Q) tol :=
  let m := mk_mdp nS nA P R av ab ini g in
  let r := @vi_vec Q NumQ m mi eps in
  (snd r, @allclose Q NumQ m tol (fst r) Vimpl).
Definition mir_dict nS nA P R av ab ini g (mi : nat) eps (Vimpl : list Q) tol :=
  let m := mk_mdp nS nA P R av ab ini g in
  let r := @vi_dict Q NumQ m mi eps in
  (snd r, @allclose Q NumQ m tol (fst r) Vimpl).
"""

CLAUSES = ["wfb", "c_abs", "c_mask", "c_res", "c_q", "c_pol", "c_init", "c_polu"]


def qopt(x):
    if isinstance(x, str) or x is None:
        return "None"
    return "(Some %s)" % q(x)


def add_gadgets(rng, m):
    """append structures random generation almost never produces:
    (a) near-tie: a state with two actions to the same successor whose rewards differ by 2^-k
        (action gap below/above the residual-implied accuracy, far above the isclose band);
    (b) late tie: a state p with two actions leading to twin states t1, t2 that share one
        identical good action but have different bad extra actions -- p's actions tie exactly under
        optimal play but not under the uniform policy policy iteration starts from."""
    nonpos = F(m["gamma"]) == 1
    if m["nA"] < 2:
        return m
    tgt = rng.randrange(m["n"])
    def new_state(actions):
        m["actions"].append(actions)
        m["absorbing"].append(False)
        m["n"] += 1
        return m["n"] - 1
    kind = rng.random()
    base = F(rng.randint(-3, 0 if nonpos else 3))
    m["_tag"] = ("cancelling_self_loops" if (kind < .06 and not nonpos) else "tiny_probability_jackpot" if kind < .12 else
                 "corridor" if kind < .2 else "implicit_absorbing_with_impossible_rewarded_successor" if kind < .3 else
                 "near_one_self_loop" if kind < .4 else "near_tie" if kind < .6 else "late_tie")
    if kind < .06 and not nonpos:
        # (g) NOT absorbing although its expected rewards cancel: every action is a certain self-loop, one pays +r and
        # the other -r (discounted problems only: positive reward)
        r_ = F(rng.choice([1, 2, 5]))
        s = new_state([0, 1])
        for a, rr in ((0, r_), (1, -r_)):
            m["trans"]["%d,%d" % (s, a)] = [[s, "1"]]
            m["reward"]["%d,%d,%d" % (s, a, s)] = str(rr)
        e = new_state([0, 1])
        m["trans"]["%d,0" % e] = [[s, "1"]]
        m["trans"]["%d,1" % e] = [[tgt, "1"]]
        m["reward"]["%d,0,%d" % (e, s)] = str(F(rng.randint(-2, 2)))
        m["init"] = [[x, str(F(p) / 2)] for x, p in m["init"]] + [[e, "1/2"]]
    elif kind < .12:
        # (e) tiny-probability branch that matters: w.p. 2^-k (k >= 27, below isclose's atol) the action ends in a
        # fresh absorbing state with a reward of magnitude ~2^k; a second action is a plain alternative
        k = rng.choice([27, 30, 34, 40])
        j = new_state([0]); m["absorbing"][j] = True
        m["trans"]["%d,0" % j] = [[j, "1"]]
        s = new_state([0, 1])
        big = F(2 ** k) * rng.choice([-1, -3] if nonpos else [-3, -1, 2, 5])
        m["trans"]["%d,0" % s] = [[tgt, str(1 - F(1, 2 ** k))], [j, str(F(1, 2 ** k))]]
        m["reward"]["%d,0,%d" % (s, j)] = str(big)
        m["trans"]["%d,1" % s] = [[tgt, "1"]]
        m["reward"]["%d,1,%d" % (s, tgt)] = str(F(rng.randint(-2, 0 if nonpos else 2)))
        m["init"] = [[x, str(F(p) * (1 - F(1, 2 ** 30)))] for x, p in m["init"]] + [[s, str(F(1, 2 ** 30))]]
    elif kind < .2:
        # (f) corridor: a chain of L states (L + n not a power of two, up to 9 steps) whose only way on is forward,
        # ending in the target: reachability of an absorbing state needs paths of that length
        L = rng.choice([5, 6, 7, 9])
        prev = tgt
        for _ in range(L):
            c = new_state([0])
            m["trans"]["%d,0" % c] = [[prev, "1"]] if rng.random() < .7 else [[prev, "1/2"], [c, "1/2"]]
            m["reward"]["%d,0,%d" % (c, prev)] = str(F(rng.randint(-2, -1)))
            prev = c
        m["init"] = [[x, str(F(p) / 2)] for x, p in m["init"]] + [[prev, "1/2"]]
    elif kind < .3:
        # (d) implicit absorbing state (certain zero-reward self-loops, NOT flagged) whose rows also LIST an
        # impossible successor (probability 0) that carries a non-zero reward: still absorbing; a state
        # whose only way to terminate is through it (decides the placeholder mask at discount 1)
        g_ = new_state([0, 1])
        for a in (0, 1):
            m["trans"]["%d,%d" % (g_, a)] = [[g_, "1"], [tgt, "0"]]
            m["reward"]["%d,%d,%d" % (g_, a, tgt)] = str(F(rng.choice([-3, -1, 2 if not nonpos else -2])))
        s = new_state([0])
        m["trans"]["%d,0" % s] = [[g_, "1/2"], [s, "1/2"]]
        m["reward"]["%d,0,%d" % (s, g_)] = str(F(rng.randint(-3, -1)))
        m["init"] = [[x, str(F(p) / 2)] for x, p in m["init"]] + [[s, "1/2"]]
    elif kind < .4:
        # (c) boundary of the implicit-absorbing rule: zero-reward state whose every action self-loops with
        # probability 1 - 2^-k (NOT absorbing), escaping to a state of non-zero value
        k = rng.choice([10, 17, 20, 30])
        s = new_state([0, 1])
        for a in (0, 1):
            m["trans"]["%d,%d" % (s, a)] = [[s, str(1 - F(1, 2 ** k))], [tgt, str(F(1, 2 ** k))]]
        m["init"] = [[x, str(F(p) / 2)] for x, p in m["init"]] + [[s, "1/2"]]
    elif kind < .6:
        k = rng.choice([2, 4, 6, 8, 10, 12, 16, 20])
        s = new_state([0, 1])
        m["trans"]["%d,0" % s] = [[tgt, "1"]]
        m["trans"]["%d,1" % s] = [[tgt, "1"]]
        m["reward"]["%d,0,%d" % (s, tgt)] = str(base)
        m["reward"]["%d,1,%d" % (s, tgt)] = str(base - F(1, 2 ** k))
        m["init"] = [[x, str(F(p) / 2)] for x, p in m["init"]] + [[s, "1/2"]]
    else:
        t1, t2 = new_state([0, 1]), new_state([0, 1])
        for t, bad in ((t1, F(2)), (t2, F(5))):
            m["trans"]["%d,0" % t] = [[tgt, "1"]]
            m["trans"]["%d,1" % t] = [[tgt, "1"]]
            m["reward"]["%d,0,%d" % (t, tgt)] = str(base)
            m["reward"]["%d,1,%d" % (t, tgt)] = str(base - bad)
        p = new_state([0, 1])
        m["trans"]["%d,0" % p] = [[t1, "1"]]
        m["trans"]["%d,1" % p] = [[t2, "1"]]
        c = F(rng.randint(-2, 0 if nonpos else 2))
        m["reward"]["%d,0,%d" % (p, t1)] = str(c)
        m["reward"]["%d,1,%d" % (p, t2)] = str(c)
        m["init"] = [[x, str(F(q_) / 2)] for x, q_ in m["init"]] + [[p, "1/2"]]
    m["reward"] = {k_: v for k_, v in m["reward"].items() if F(v) != 0}
    return m


def gen_case(rng, tier):
    r = rng.random()
    gamma = None
    if r < .2:
        gamma = "1"
    elif r < .35:
        gamma = rng.choice(["1/5", "1/8", "1/3"])
    elif r < .42:
        gamma = rng.choice(["1023/1024", "1/1024", "255/256"])     # boundaries of (0,1)
    nmax = 5 if tier == "quick" else 7
    m = gen_mdp.gen_mdp(rng, nmax=nmax, amax=3, gamma=gamma, proper=(gamma == "1" and rng.random() < .7))
    nondyadic = rng.random() < .15
    if nondyadic:
        # probabilities that are not exactly representable (thirds, sevenths, tenths): a single-precision
        # or otherwise rounded copy of the transition tensor no longer sums to 1
        for key, row in m["trans"].items():
            pos = [i for i, (ns, p) in enumerate(row) if F(p) > 0]
            if len(pos) >= 2:
                ps = gen_mdp._split_prob(rng, len(pos), denom=rng.choice([3, 7, 10]) if len(pos) <= 3 else 10)
                for i, pp in zip(pos, ps):
                    row[i] = [row[i][0], str(pp)]
    tags = []
    if nondyadic:
        tags.append("nondyadic_probabilities")
    if rng.random() < .4:
        m = add_gadgets(rng, m)
        if "_tag" in m:
            tags.append("gadget:" + m.pop("_tag"))
    if gamma == "1" and rng.random() < .6:
        # trap: a non-absorbing state that can never reach an absorbing state (placeholder clause),
        # entered by an extra action of some state; usually outside the initial support
        t = m["n"]
        m["n"] += 1
        # usually several available actions but not all of the action list (the policy there must still be a
        # distribution over the state's OWN actions), sometimes a single one
        if rng.random() < .3:
            tacts = [0]
        else:
            m["nA"] = max(m["nA"], 3)
            tacts = sorted(rng.sample(range(m["nA"]), 2))
            tags.append("placeholder_state_with_unavailable_action")
        m["actions"].append(tacts)
        m["absorbing"].append(False)
        for a_ in tacts:
            m["trans"]["%d,%d" % (t, a_)] = [[t, "1"]]
            m["reward"]["%d,%d,%d" % (t, a_, t)] = str(F(rng.randint(-3, -1)))
        src = rng.randrange(t)
        if not m["absorbing"][src]:
            a = rng.choice(m["actions"][src])
            row = m["trans"]["%d,%d" % (src, a)]
            # move half of one successor's mass to the trap
            ns0, p0 = next((x, pp) for x, pp in row if F(pp) > 0)
            row[row.index([ns0, p0])] = [ns0, str(F(p0) / 2)]
            row.append([t, str(F(p0) / 2)])
            if rng.random() < .5:
                m["reward"]["%d,%d,%d" % (src, a, t)] = str(F(rng.randint(-2, 0)))
                if m["reward"]["%d,%d,%d" % (src, a, t)] == "0":
                    del m["reward"]["%d,%d,%d" % (src, a, t)]
        if rng.random() < .3:
            m["init"] = [[x, str(F(p) / 2)] for x, p in m["init"]] + [[t, "1/2"]]
    if rng.random() < .12:
        # large reward magnitudes (values beyond +-708, where a finite stand-in for -inf would bite)
        k = rng.choice([256, 1024])
        m["reward"] = {kk: str(F(v) * k) for kk, v in m["reward"].items()}
    eps = rng.choice(["1/10", "1/100", "1/100000", "1/100000000"]) if rng.random() < .5 else "1/100000"
    if nondyadic:
        eps = rng.choice(["1/100000000", "1/10000000000"])
    mi = rng.choice([100000] * 8 + [1, 2, 5])
    if rng.random() < .15 and F(m["gamma"]) <= F(9, 10) and not nondyadic:
        eps, mi = "0", 3000        # a configured residual of exactly 0: iterate to the floating-point fixed point
    batch = None
    if rng.random() < .35:
        # batch entry point: 2..4 problems, sometimes exactly as many as there are states
        nb = m["n"] if (rng.random() < .4 and m["n"] >= 2) else rng.choice([2, 3, 4])
        pos = rng.randrange(nb)
        gs = ["1"] if F(m["gamma"]) == 1 else ["1/2", "3/4", "9/10", "1/5", "19/20"]
        if F(m["gamma"]) < 1 and all(F(v) <= 0 for v in m["reward"].values()):
            gs = gs + ["1", "1", "1"]          # mixed batches: undiscounted problems (given with an int 1) next to discounted ones
        # half of the other problems carry NEGATED state and action labels (-s-1, -a-1): their sorted state and
        # action lists are different objects in a different order, so results must be labelled per problem
        batch = {"variants": [None if k == pos else {"scale": rng.choice(["2", "3", "1/2", "5"]), "gamma": rng.choice(gs),
                                                      "negated_labels": rng.random() < .5, "int_gamma": rng.random() < .7}
                              for k in range(nb)]}
    if eps == "0":
        tags.append("zero_residual")
    if batch:
        tags.append("batch")
        if any(v and v.get("negated_labels") for v in batch["variants"]):
            tags.append("batch_with_negated_labels")
        if any(v and v.get("gamma") == "1" for v in batch["variants"]) and F(m["gamma"]) < 1:
            tags.append("batch_mixing_undiscounted_and_discounted")
    vfm = None
    if rng.random() < .15:
        vfm = {"int_rewards": rng.random() < .7, "int_absorbing": rng.random() < .5}
        tags.append("via_from_matrices")
    return {"tags": tags, "via_from_matrices": vfm, "mdp": m, "max_residual": eps, "max_iterations": mi, "batch": batch,
            "undefined_value": rng.choice(["0", "-7", "-inf", "-inf"] if gamma == "1" else ["0", "0", "-7", "-inf"]),
            "explicit_lists": rng.random() < .3, "actions_shared_list": rng.random() < .3, "int_gamma": rng.random() < .5,
            "action_order": "sorted" if vfm else rng.choice(["sorted", "sorted", "desc", "shuffled"]), "action_order_seed": rng.randrange(10**6)}


def mdp_terms(case, res):
    sl, al = res["state_list"], res["action_list"]
    P, R, av, absf, ini = gen_mdp.arrays(case["mdp"], sl, al)
    return " ".join([nat(len(sl)), nat(len(al)), qten(P), qten(R), bmat(av), blist(absf), qlist(ini), q(case["mdp"]["gamma"])])


def tol_term(case, planner, out):
    g = F(case["mdp"]["gamma"])
    eps = F(case["max_residual"])
    vals = [abs(vlib.frac(v)) for v in out["V"] if not isinstance(v, str)]
    scale = max([F(1)] + vals)
    tiny = F(1, 10**9) * scale
    if planner == "vi_vec":
        # the property does not say WHICH iterate the reported action values look ahead from: the one reported
        # (today's code) or its successor (as the dict version does); both are within gamma*eps of each other
        epsb, qtol = eps + tiny, g * eps + tiny
    elif planner == "vi_dict":
        epsb, qtol = eps + tiny, g * eps + tiny
    else:
        band = F(1, 10**8) + F(1, 10**5) * scale
        epsb, qtol = 2 * band, 2 * band
    rt, at = F(1, 10**5), F(1, 10**8)
    t = [epsb, qtol, rt * F(1001, 1000), at * F(1001, 1000) + tiny, rt * F(1, 2), at * F(1, 2),
         F(1, 10**12), F(1, 10**9) * scale, F(0) if case["undefined_value"] == "-inf" else F(case["undefined_value"])]
    return "(mkTols %s)" % " ".join(q(x) for x in t), epsb


# ---- exact oracle (violation search only) ---------------------------------
def solve_linear(A, b):
    n = len(A)
    M = [row[:] + [b[i]] for i, row in enumerate(A)]
    for c in range(n):
        piv = next((r for r in range(c, n) if M[r][c] != 0), None)
        if piv is None:
            return None
        M[c], M[piv] = M[piv], M[c]
        pv = M[c][c]
        M[c] = [x / pv for x in M[c]]
        for r in range(n):
            if r != c and M[r][c] != 0:
                f = M[r][c]
                M[r] = [x - f * y for x, y in zip(M[r], M[c])]
    return [M[i][n] for i in range(n)]


def exact_vstar(P, R, av, masked, g):
    """exact optimal values of the masked discounted MDP by policy iteration on Fractions"""
    n, nA = len(P), len(P[0])
    r = [[sum(P[s][a][k] * R[s][a][k] for k in range(n)) if not masked[s] else F(0) for a in range(nA)] for s in range(n)]
    Pm = [[[P[s][a][k] if not masked[s] else F(0) for k in range(n)] for a in range(nA)] for s in range(n)]
    pol = [next(a for a in range(nA) if av[s][a]) for s in range(n)]
    for _ in range(200):
        A = [[(F(1) if i == j else F(0)) - g * Pm[i][pol[i]][j] for j in range(n)] for i in range(n)]
        V = solve_linear(A, [r[s][pol[s]] for s in range(n)])
        if V is None:
            return None
        changed = False
        for s in range(n):
            qs = {a: r[s][a] + g * sum(Pm[s][a][k] * V[k] for k in range(n)) for a in range(nA) if av[s][a]}
            best = max(qs.values())
            if qs[pol[s]] < best:
                pol[s] = max(qs, key=lambda a: qs[a])
                changed = True
        if not changed:
            return V
    return None


def model_masks(P, R, av, absf, g):
    n, nA = len(P), len(P[0])
    absorbing = []
    for s in range(n):
        dead = not any(av[s])
        selfloop = all((P[s][a][s] == 1) or not av[s][a] for a in range(nA)) and not dead
        zero = all(R[s][a][k] == 0 for a in range(nA) for k in range(n))
        absorbing.append((selfloop and zero) or absf[s])
    unable = [False] * n
    if g >= 1:
        can = list(absorbing)
        for _ in range(n):
            can = [can[s] or any(av[s][a] and P[s][a][k] > 0 and can[k] for a in range(nA) for k in range(n)) for s in range(n)]
        unable = [not c for c in can]
    return absorbing, unable


def undisc_certificate(case, res, out):
    """expected-lossy-steps vector N of the reported (idealised uniform) policy, solved exactly;
    None if it does not exist (a closed class of the policy contains a lossy state)"""
    sl, al = res["state_list"], res["action_list"]
    P, R, av, absf, ini = gen_mdp.arrays(case["mdp"], sl, al)
    g = F(case["mdp"]["gamma"])
    n, nA = len(P), len(P[0])
    absorbing, unable = model_masks(P, R, av, absf, g)
    masked = [a or u for a, u in zip(absorbing, unable)]
    V = [vlib.frac(v) for v in out["V"]]
    Vz = [F(0) if unable[s] else V[s] for s in range(n)]
    pi = [[vlib.frac(x) if not isinstance(x, str) else F(0) for x in row] for row in out["pi"]]
    up = []
    for s in range(n):
        if masked[s]:
            k = sum(1 for a in range(nA) if av[s][a])
            up.append([F(1, k) if av[s][a] else F(0) for a in range(nA)])
        else:
            k = sum(1 for a in range(nA) if pi[s][a] > 0)
            if k == 0:
                return None
            up.append([F(1, k) if pi[s][a] > 0 else F(0) for a in range(nA)])
    Pm = [[[F(0) if masked[s] else P[s][a][k] for k in range(n)] for a in range(nA)] for s in range(n)]
    Rm = [[F(0) if masked[s] else sum(R[s][a][k] * P[s][a][k] for k in range(n)) for a in range(nA)] for s in range(n)]
    qpol = [sum(up[s][a] * (Rm[s][a] + g * sum(Pm[s][a][k] * Vz[k] for k in range(n))) for a in range(nA)) for s in range(n)]
    lossy = [not (Vz[s] <= qpol[s]) for s in range(n)]
    Ppi = [[sum(up[s][a] * Pm[s][a][k] for a in range(nA)) for k in range(n)] for s in range(n)]
    # states that can reach a lossy state under Ppi
    can = list(lossy)
    for _ in range(n):
        can = [can[s] or any(Ppi[s][k] > 0 and can[k] for k in range(n)) for s in range(n)]
    idx = [s for s in range(n) if can[s]]
    if not idx:
        return [F(0)] * n
    A = [[(F(1) if i == j else F(0)) - Ppi[i][j] for j in idx] for i in idx]
    sol = solve_linear(A, [F(1) if lossy[i] else F(0) for i in idx])
    if sol is None or any(x < 0 for x in sol):
        return None
    N = [F(0)] * n
    for i, x in zip(idx, sol):
        N[i] = x
    return N


def proper_weights(P, av, masked, g):
    """W = 1 + the largest expected (discounted) number of steps before reaching a masked state over ALL policies, by
    exact policy iteration on the step-counting MDP (theorems C01_proper_optimum_unique / C01_proper_values);
    None when some policy never terminates on the unmasked part (gamma = 1, not proper for all policies)"""
    n, nA = len(P), len(P[0])
    ones = [[[F(1) if P[s][a][k] > 0 else F(0) for k in range(n)] for a in range(nA)] for s in range(n)]
    u = exact_vstar(P, ones, av, masked, g)
    if u is None or any(x < 0 for x in u):
        return None
    return [x + 1 for x in u]


def search_failing(case, res, planner, out):
    """clause-by-clause evaluation of the property on the implementation output with the exact V*"""
    sl, al = res["state_list"], res["action_list"]
    P, R, av, absf, ini = gen_mdp.arrays(case["mdp"], sl, al)
    g = F(case["mdp"]["gamma"])
    if g >= 1:
        return None
    absorbing, unable = model_masks(P, R, av, absf, g)
    masked = [a or u for a, u in zip(absorbing, unable)]
    Vs = exact_vstar(P, R, av, masked, g)
    if Vs is None:
        return None
    n, nA = len(P), len(P[0])
    eps = F(case["max_residual"])
    V = [vlib.frac(v) if not isinstance(v, str) else None for v in out["V"]]
    scale = max([F(1)] + [abs(x) for x in Vs])
    bound = (eps if not planner.startswith("pi") else F(2, 10**5) * scale) / (1 - g) + F(1, 10**7) * scale
    for s in range(n):
        if V[s] is None or abs(V[s] - Vs[s]) > bound:
            return {"clause": "state value differs from exact optimal value beyond residual bound",
                    "state_index": s, "reported": str(V[s]), "optimal": str(Vs[s]), "bound": str(bound)}
        if absorbing[s] and V[s] != 0:
            return {"clause": "absorbing state not worth 0", "state_index": s, "reported": str(V[s])}
    Qs = [[sum(P[s][a][k] * R[s][a][k] for k in range(n)) + g * sum(P[s][a][k] * Vs[k] for k in range(n))
           if not masked[s] else F(0) for a in range(nA)] for s in range(n)]
    for s in range(n):
        if masked[s]:
            continue
        best = max(Qs[s][a] for a in range(nA) if av[s][a])
        # what theorem C01_policy_support allows: band + 2 qtol + 2 gamma eps/(1-gamma)
        epsq = eps if not planner.startswith("pi") else F(2, 10**5) * scale
        slack = 2 * g * epsq / (1 - g) + (2 * g * epsq if planner != "vi_vec" else 0) + F(1, 10**4) * scale
        for a in range(nA):
            p = out["pi"][s][a]
            p = vlib.frac(p) if not isinstance(p, str) else None
            if p is None or p < 0:
                return {"clause": "policy entry not a probability", "state_index": s, "action_index": a}
            if p > 0 and (not av[s][a] or Qs[s][a] < best - slack):
                return {"clause": "policy gives positive probability to an unavailable or sub-optimal action",
                        "state_index": s, "action_index": a, "q_opt": str(Qs[s][a]), "best": str(best)}
            if p == 0 and av[s][a] and Qs[s][a] == best and sum(1 for b in range(nA) if av[s][b] and Qs[s][b] == best) > 1 \
                    and all(abs(Qs[s][a] - Qs[s][b]) == 0 for b in range(nA) if av[s][b] and Qs[s][b] == best):
                # an exactly optimal action left out although another exactly tied one is in
                return {"clause": "exactly tied optimal action not in the policy support", "state_index": s, "action_index": a}
    iv = out["initial_value"]
    if isinstance(iv, str) or abs(vlib.frac(iv) - sum(ini[s] * V[s] for s in range(n))) > F(1, 10**8) * scale:
        return {"clause": "initial value is not the initial-distribution expectation of the state values"}
    return None


def run(ctx):
    tier = ctx.tier
    ncases = 120 if tier == "quick" else 800
    if ctx.replay_case:
        cases = [ctx.replay_case["detail"]["case"]]
    else:
        import glob, json, os
        corpus = [json.load(open(f)) for f in sorted(glob.glob(os.path.join(vlib.ROOT, "corpus", "C01", "*.json")))]
        cases = corpus + [gen_case(ctx.rng, tier) for _ in range(ncases)]
    impl = ctx.impl("c01_impl.py", {"cases": cases}, shards=8 if tier == "quick" else 16)["results"]
    terms, meta = [], []
    feats = {}
    proper, nundisc_cases = {}, 0
    for i, (case, res) in enumerate(zip(cases, impl)):
        if "error" in res:
            ctx.violation("C01:impl-error:" + res["error"].split(":")[0], {"case": case, "error": res["error"]}, found=True)
            continue
        mt = mdp_terms(case, res)
        # the masks msdm applies (absorbing / cannot-reach-absorbing) must be the model's
        P_, R_, av_, absf_, ini_ = gen_mdp.arrays(case["mdp"], res["state_list"], res["action_list"])
        m_abs, m_unable = model_masks(P_, R_, av_, absf_, F(case["mdp"]["gamma"]))
        if res["unable_vec"] is None:
            res["unable_vec"] = m_unable      # attribute gone: the placeholder clause c_mask still checks the values
        if [bool(x) for x in res["absorbing_vec"]] != m_abs or [bool(x) for x in res["unable_vec"]] != m_unable:
            ctx.violation("C01:masks:absorbing-or-unreachable-goal-mask-differs-from-model",
                          {"case": case, "impl_absorbing": res["absorbing_vec"], "model_absorbing": m_abs,
                           "impl_unable": res["unable_vec"], "model_unable": m_unable,
                           "correspondence": "model/MDP.v:absorbing / unable_to_reach (exact comparisons) vs TabularMarkovDecisionProcess.absorbing_state_vec / _unable_to_reach_absorbing"},
                          found=False)
        if F(case["mdp"]["gamma"]) == 1:
            # MDP-level properness certificate for ALL policies (on the model's masks); skipped when not proper
            nundisc_cases += 1
            Wp = proper_weights(P_, av_, [a_ or u_ for a_, u_ in zip(m_abs, m_unable)], F(1))
            if Wp is not None:
                proper[i] = {"W": Wp, "Vs": exact_vstar(P_, R_, av_, [a_ or u_ for a_, u_ in zip(m_abs, m_unable)], F(1)),
                             "unable": m_unable}
                terms.append("chkP %s %s" % (mt, qlist(Wp)))
                meta.append(("chkP", i, None))
        for planner in ("vi_vec", "vi_dict", "pi") + (("pi_batch",) if "pi_batch" in res["planners"] else ()):
            out = res["planners"][planner]
            if "error" in out:
                ctx.violation("C01:%s:raises:%s" % (planner, out["error"].split(":")[0]),
                              {"case": case, "planner": planner, "error": out["error"]}, found=True)
                continue
            if case["undefined_value"] == "-inf":
                # infinite placeholder: the -inf pattern must be exactly the unreachable-goal states, and the
                # initial value -inf exactly when one of them has positive initial probability; the finite
                # rest goes to the Coq checker with the placeholder states read as 0 (undef := 0)
                sl, al = res["state_list"], res["action_list"]
                P_, R_, av_, absf_, ini_ = gen_mdp.arrays(case["mdp"], sl, al)
                _, unable_ = model_masks(P_, R_, av_, absf_, F(case["mdp"]["gamma"]))
                pat = [v == "-inf" for v in out["V"]]
                exp_iv_inf = any(u and ini_[k] > 0 for k, u in enumerate(unable_))
                iv_ = out["initial_value"]
                if pat != unable_ or (iv_ == "-inf") != exp_iv_inf or (isinstance(iv_, str) and iv_ != "-inf"):
                    ctx.violation("C01:%s:infinite-placeholder-pattern" % planner,
                                  {"case": case, "planner": planner, "impl": out, "expected_placeholder_states": unable_,
                                   "failing_clause": "placeholder at exactly the states that cannot reach an absorbing state; initial value = initial-distribution expectation of the reported values (over the initial support)"},
                                  found=True)
                    continue
                out = dict(out)
                out["V"] = [[0, 1] if v == "-inf" else v for v in out["V"]]
                if exp_iv_inf:
                    # expectation over the finite part is checked; the infinite part was checked above
                    out["initial_value"] = vlib.fjson(float(sum(ini_[k] * vlib.frac(out["V"][k]) for k in range(len(sl)))))
                res["planners"][planner] = out
            tl, epsb = tol_term(case, planner, out)
            out["_epsb"] = epsb
            Qv = coqlist(coqlist(qopt(x) for x in row) for row in out["Q"])
            badV = any(isinstance(v, str) for v in out["V"])
            if badV:
                ctx.violation("C01:%s:nonfinite-state-value" % planner, {"case": case, "planner": planner, "out": out}, found=True)
                continue
            iv = out["initial_value"]
            terms.append("chk %s %s %s %s %s %s" % (mt, qlist(out["V"]), Qv, qmat(out["pi"]), q(iv), tl))
            meta.append(("chk", i, planner))
            undisc = F(case["mdp"]["gamma"]) == 1
            if undisc and planner in ("vi_vec", "vi_dict") and out["converged"]:
                N = undisc_certificate(case, res, out)
                out["_N"] = N
                if N is not None:
                    terms.append("chkU %s %s %s %s %s %s" % (mt, qlist(out["V"]), Qv, qmat(out["pi"]), q(iv), qlist(N)))
                    meta.append(("chkU", i, planner))
            # mirror: only when the loop is short enough for exact arithmetic
            if planner in ("vi_vec", "vi_dict") and out["iterations"] <= (25 if tier == "quick" else 60) \
                    and not any(res["unable_vec"]) and F(case["max_residual"]) > 0:
                # (a residual of exactly 0 is never met by the exact-arithmetic mirror: it would run to the cap)
                # V as the loop leaves it (placeholder states are overwritten afterwards: skip those cases)
                terms.append("%s %s %s %s %s %s" % ("mir_vec" if planner == "vi_vec" else "mir_dict", mt,
                                                   nat(case["max_iterations"]), q(case["max_residual"]),
                                                   qlist(out["V"]), q(F(1, 10**9) * max([F(1)] + [abs(vlib.frac(v)) for v in out["V"]]))))
                meta.append(("mir", i, planner))
        f = gen_mdp.features(case["mdp"])
        for k, v in f.items():
            if isinstance(v, bool):
                feats[k] = feats.get(k, 0) + int(v)
        for tg in case.get("tags", []) + [k for k in ("explicit_lists", "actions_shared_list", "int_gamma") if case.get(k)]:
            feats[tg] = feats.get(tg, 0) + 1
        if case.get("undefined_value") == "-inf":
            feats["infinite_placeholder"] = feats.get("infinite_placeholder", 0) + 1
    vals = ctx.coq(PRE, terms, shard=12 if tier == "quick" else 40)
    nchk = nmir = drift = ambiguous = nund = npi1 = nocert = 0
    distinct = set()
    chk_ok, certified = {}, set()
    for (kind, i, planner), v in zip(meta, vals):
        case, res = cases[i], impl[i]
        if kind == "chkP":
            if v is True:
                certified.add(i)
            else:
                ctx.violation("C01:proper-certificate-rejects",
                              {"case": case, "W": [str(x) for x in proper[i]["W"]], "coq": str(v)[:300],
                               "correspondence": "theory/LAOStarProper.v:c_proper (theorems C01_proper_optimum_unique / C01_proper_values) rejects the harness' all-policies step weights"},
                              found=False)
            continue
        out = res["planners"][planner]
        if kind == "chk" and not isinstance(v, vlib.CoqError):
            chk_ok[(i, planner)] = all(v)
        if isinstance(v, vlib.CoqError):
            ctx.violation("C01:coq-evaluation-failed", {"case": case, "planner": planner, "error": str(v)[:800]}, found=False)
            continue
        if kind == "chk":
            nchk += 1
            distinct.add(vlib.structural_hash(case["mdp"]))
            conv = out["converged"]
            failed = [c for c, okv in zip(CLAUSES, v) if not okv]
            if not conv:
                # property speaks about reported values "up to the bound implied by the residual":
                # an unconverged run (iteration cap) carries no residual guarantee; only structural clauses gate
                failed = [c for c in failed if c not in ("c_res", "c_pol", "c_q")]
            if failed:
                why = search_failing(case, res, planner, out) if conv else None
                if why is None and "c_polu" in failed:
                    # directly observable clause: positive probability on an unavailable action at a placeholder state
                    sl_, al_ = res["state_list"], res["action_list"]
                    P_, R_, av_, absf_, ini_ = gen_mdp.arrays(case["mdp"], sl_, al_)
                    abs_, un_ = model_masks(P_, R_, av_, absf_, F(case["mdp"]["gamma"]))
                    for s_ in range(len(sl_)):
                        if un_[s_] and not abs_[s_]:
                            row = [vlib.frac(x) if not isinstance(x, str) else None for x in out["pi"][s_]]
                            bad = [a_ for a_, p_ in enumerate(row) if p_ is None or (p_ > 0 and not av_[s_][a_])]
                            if bad or abs(sum(p_ for p_ in row if p_ is not None) - 1) > F(1, 10**9):
                                why = {"clause": "policy at a state that can never reach an absorbing state is not a distribution over that state's available actions",
                                       "state_index": s_, "action_indices": bad, "row": [str(x) for x in row]}
                                break
                detail = {"case": case, "planner": planner, "failed_clauses": failed, "impl": out,
                          "state_list": res["state_list"], "action_list": res["action_list"]}
                if why:
                    detail["failing_clause"] = why
                    ctx.violation("C01:%s:%s" % (planner, why["clause"]), detail, found=True)
                else:
                    detail["correspondence"] = "model/VI.v:c01_check (theorem props/C01.v) rejects the implementation's output"
                    ctx.violation("C01:%s:certificate-rejects:%s" % (planner, "+".join(failed)), detail, found=False)
        elif kind == "chkU":
            nund += 1
            if not all(v):
                ctx.violation("C01:%s:undiscounted-certificate-rejects" % planner,
                              {"case": case, "planner": planner, "clauses": dict(zip(["c_nonpos", "c_rnonpos", "c_N"], v)), "impl": {k: x for k, x in out.items() if k != "_N"},
                               "correspondence": "model/VI.v:c01_undisc_check (theorem C01_undiscounted_lower)"}, found=False)
        else:
            nmir += 1
            its, close = v
            if not close:
                drift += 1   # covered by the certificate: drift-cleared unless the certificate also failed
            if its != out["iterations"]:
                ambiguous += 1
    # undiscounted, all policies proper (certified in Coq): reported values within epsb * W(s) of THE optimum
    # (theorem C01_proper_values; needs the result to have passed c01_check with that epsb)
    nproper_values = 0
    for i in sorted(certified):
        case, res, pc = cases[i], impl[i], proper[i]
        if pc["Vs"] is None:
            continue
        for planner in ("vi_vec", "vi_dict"):
            out = res["planners"].get(planner, {})
            if "error" in out or not out.get("converged") or not chk_ok.get((i, planner)) or "_epsb" not in out:
                continue
            nproper_values += 1
            for s_, v_ in enumerate(out["V"]):
                vz = F(0) if pc["unable"][s_] else vlib.frac(v_)
                if abs(vz - pc["Vs"][s_]) > out["_epsb"] * pc["W"][s_]:
                    ctx.violation("C01:%s:undiscounted:value-outside-proper-bound" % planner,
                                  {"case": case, "planner": planner, "state_index": s_, "reported": str(vz),
                                   "optimal": str(pc["Vs"][s_]), "epsb": str(out["_epsb"]), "weight": str(pc["W"][s_]),
                                   "failing_clause": "reported value farther than residual * (1 + largest expected number of steps) from the unique optimal undiscounted value (theorem C01_proper_values)"},
                                  found=True)
                    break
    # undiscounted: policy iteration against the bracket established for value iteration
    for i, (case, res) in enumerate(zip(cases, impl)):
        if "error" in res or F(case["mdp"]["gamma"]) != 1:
            continue
        pl = res["planners"]
        vi, pi_ = pl.get("vi_vec", {}), pl.get("pi", {})
        if "error" in vi or "error" in pi_ or not vi.get("converged") or not pi_.get("converged"):
            continue
        N = vi.get("_N")
        if N is None:
            nocert += 1
            continue
        npi1 += 1
        eps = F(case["max_residual"])
        Vv = [vlib.frac(x) for x in vi["V"]]
        Vp = [vlib.frac(x) for x in pi_["V"]]
        scale = max([F(1)] + [abs(x) for x in Vv])
        delta = eps + F(3, 10**5) * scale + F(1, 10**7)
        for s in range(len(Vv)):
            lo, hi = Vv[s] - delta * N[s] - F(1, 10**6) * scale, Vv[s] + eps + F(1, 10**6) * scale
            if not (lo <= Vp[s] <= hi):
                # is PI's value itself a fixed point of the optimality equation (stuck at a non-maximal solution)?
                sl, al = res["state_list"], res["action_list"]
                P, R, av, absf, ini = gen_mdp.arrays(case["mdp"], sl, al)
                absorbing, unable = model_masks(P, R, av, absf, F(1))
                Vz = [F(0) if unable[k] else Vp[k] for k in range(len(Vp))]
                fixed = True
                for k in range(len(Vp)):
                    if absorbing[k] or unable[k]:
                        continue
                    best = max(sum(P[k][a][j] * (R[k][a][j] + Vz[j]) for j in range(len(Vp))) for a in range(len(al)) if av[k][a])
                    if abs(best - Vz[k]) > F(1, 10**6) * scale:
                        fixed = False
                sig = "C01:pi:undiscounted:non-maximal-fixed-point-of-optimality-equation" if fixed and Vp[s] < lo \
                    else "C01:pi:undiscounted:value-outside-optimal-bracket"
                ctx.violation(sig, {"case": case, "planner": "pi", "state_index": s, "pi_value": str(Vp[s]),
                                    "optimal_bracket": [str(lo), str(hi)], "vi_value": str(Vv[s]),
                                    "failing_clause": "policy iteration's state value is not the optimal undiscounted value (bracket from value iteration: theorems C01_undiscounted_lower/upper)"},
                              found=True)
                break
    for r in impl:
        for o in r.get("planners", {}).values():
            o.pop("_N", None)
            o.pop("_epsb", None)
    ctx.coverage.update({
        "evaluations": nchk + nmir,
        "distinct_nontrivial": len(distinct),
        "rule": "MDPs from harness/gen_mdp.py (1..%d states, 1..3 actions, state-dependent action sets, k/8 probabilities, zero entries, duplicate rows for exact ties, explicit/implicit absorbing states, multi-state initial distributions, gamma in {1/2,3/4,7/8,9/10,19/20,1}); each run through vi_vec, vi_dict and PolicyIteration; distinct = structural hash of the MDP; non-trivial = at least one non-absorbing state (all generated cases)" % (5 if tier == "quick" else 7),
        "samples": [{"case": cases[0], "impl": impl[0]}] if cases else [],
        "certificate_checks": nchk, "undiscounted_certificates": nund, "undiscounted_without_N_certificate": nocert,
        "undiscounted_pi_vs_vi_bracket": npi1, "undiscounted_cases": nundisc_cases,
        "undiscounted_all_policies_proper_certified": len(certified), "undiscounted_proper_value_bounds_checked": nproper_values, "mirror_runs": nmir, "mirror_drift": drift, "mirror_iteration_mismatch": ambiguous,
        "input_features": feats, "cases": len(cases),
    })
