"""C04 — LRTDP stays an upper bound and ends within the error margin of optimal.

Correspondence (three layers, all on the same generated proper MDPs):
 1. CERTIFICATE  model/LRTDP.v:c04_check (proved sound over R for every finite MDP, props/C04.v)
    evaluated by vm_compute on the planner's final result (exact rationals of its floats; the policy is
    the action res.policy RETURNS at each labelled state) together with exact side certificates computed
    here on Fractions and CHECKED inside Coq: expected steps N of that policy, its exact value, the
    optimal values (fixed-point test), properness weights.
 2. TRACE CONFORMANCE  the operation log recorded by harness/impl/c04_impl.py (wrappers on the
    planner instance) is replayed through the abstract machine model/LRTDP.v:run — every guard
    (update only unlabelled states, label only closed sets within the margin), every value written,
    final labels and values, and the returned action = the action recorded at labelling time; the
    machine's invariants (props/C04.v) hold for every accepted log.  Logs too long for exact
    arithmetic are covered by layer 1 only (coverage.replay_skipped_long).
 3. PREDICTION  the mirror of _check_solved (cs_loop) predicts flag and closed list of every
    _check_solved call from the machine state.
Multi-step scenarios: ONE planner object plans on MDP A, on a perturbed B with the same labels, and on A
again (state kept on the object across plan_on calls must not leak); each step is judged by all layers
with its own MDP.
Violation search: exact Python oracle (Fractions) for each clause of the property, including the exact
evaluation of the RETURNED policy (res.policy) from the initial distribution.
"""
from fractions import Fraction as F
import math
import vlib
from vlib import q, qlist, qmat, qten, nat, natlist, bmat, blist, coqlist
import gen_mdp
from c01 import exact_vstar, solve_linear

INFO = {
    "level": "proof",
    "coq_files": ["model/LRTDP.v"],
    "trusted_base": [
        "model/LRTDP.v c04_check / replay_check / check_solved are evaluated on Q (NumQ); theorems are on R; tied by paramcoq transfer (theory/LRTDPTransfer.v)",
        "generated parameters (gamma, probabilities, rewards) reach the model exactly and msdm as nearest doubles; heuristics are exact doubles on both sides",
        "operation log: logging wrappers around the planner instance's _bellman_update/_check_solved/_tear_down_plan_on (harness/impl/c04_impl.py)",
    ],
    "assumptions": [
        "termination ('LRTDP terminates') is observed per case (trial cap), not proved: it is a probability-1 statement about the sampled trials",
        "properness of the MDP enters the theorems as the checked weight certificate W (exists iff every policy reaches the absorbing set with probability 1)",
        "stability of the greedy action w.r.t. the FINAL table and values-only-decrease are proved for monotone heuristics only (h >= T h, theorems named _partial); the property itself does not need them on the repaired code (the planner returns the action recorded at labelling time: C04_lrtdp_solved_inv / C04_lrtdp_bound hold for every admissible heuristic); admissible non-monotone heuristics are generated as gating cases (coverage.nonmonotone*)",
    ],
}

PRE = """From Coq Require Import QArith List Bool.
From MSDM Require Import base.Num base.NumInst model.MDP model.VI model.LRTDP.
Import ListNotations.
Local Open Scope Q_scope.
Definition chk nS nA P R av ab ini g V sol tch pi Qv ret iv N Vpi Vs W tl :=
  @c04_check Q NumQ (mk_mdp nS nA P R av ab ini g) (mk_lrout V sol tch pi Qv ret iv) (mk_cert N Vpi Vs W) tl.
Definition ordf (l : list (list nat)) (s : nat) : list nat := nth s l [].
Definition suppf (l : list (list (list nat))) (s a : nat) : list nat := nth a (nth s l []) [].
Definition rpl nS nA P R av ab ini g eps ord tol h ops solI VI actI :=
  @replay_check Q NumQ (mk_mdp nS nA P R av ab ini g) eps (ordf ord) tol h ops solI VI actI.
Definition rdiag nS nA P R av ab ini g eps ord tol h ops :=
  @replay_diag Q NumQ (mk_mdp nS nA P R av ab ini g) eps (ordf ord) tol 0%nat
     (init_state (mk_mdp nS nA P R av ab ini g) h) ops.
(* prediction of every _check_solved call: state before the call is reached by running the
   machine on the preceding operations; returns the list of (predicted = logged) booleans *)
Fixpoint pred_loop (m : mdp Q) (epsm epsl : Q) ord supp (st : @lst Q)
         (calls : list (list lop * nat * bool * list nat)) : list bool :=
  match calls with
  | [] => []
  | (pre, s, flag, closed) :: r =>
    match @run Q NumQ m epsl ord st pre with
    | None => [false]
    | Some st1 =>
      let ok := match @check_solved Q NumQ m epsm ord supp st1 s with
                | Some (f, cl) => Bool.eqb f flag && (length cl =? length closed)%nat &&
                                  forallb (fun p => (fst p =? snd p)%nat) (combine cl closed)
                | None => false end in
      match @run Q NumQ m epsl ord st1 (check_ops flag closed) with
      | None => [ok; false]
      | Some st2 => ok :: pred_loop m epsm epsl ord supp st2 r
      end
    end
  end.
Definition prd nS nA P R av ab ini g epsm epsl ord supp h calls :=
  let m := mk_mdp nS nA P R av ab ini g in
  pred_loop m epsm epsl (ordf ord) (suppf supp) (init_state m h) calls.
"""

MARGIN_SIGS = ("returned-policy-exceeds-margin", "initial-value-exceeds-optimum-by-more-than-margin-times-steps")
CLAUSES = ["lr_wfb", "c_initsolved", "c_solved", "c_greedy", "c_N", "c_vpi", "c_vstar", "c_w", "c_upper",
           "c_abs", "c_q", "c_init", "c_ret"]
MARGINS = ["1/10", "1/100", "1/10000"]
KINDS = ["const", "exact", "slack", "absjunk", "nonmono"]


# ---------------------------------------------------------------------------------------------
# exact side (Fractions)
# ---------------------------------------------------------------------------------------------
def arrays(mc):
    return gen_mdp.arrays(mc, list(range(mc["n"])), list(range(mc["nA"])))


def lookahead(P, R, absf, g, V, s, a):
    if absf[s]:
        return F(0)
    return sum(P[s][a][k] * (R[s][a][k] + g * (F(0) if absf[k] else V[k])) for k in range(len(P)) if P[s][a][k] != 0)


def max_steps(P, av, absf):
    """W: maximal expected number of steps to absorption over all policies (finite iff proper)"""
    n = len(P)
    ones = [[[F(1) if P[s][a][k] != 0 else F(0) for k in range(n)] for a in range(len(P[0]))] for s in range(n)]
    return exact_vstar(P, ones, av, absf, F(1))


def up_double(x):
    """smallest double >= the rational x, as a Fraction"""
    f = float(x)
    if F(f) < x:
        f = math.nextafter(f, math.inf)
    return F(f)


def make_heuristic(rng, kind, mc, Vs, absf):
    n = mc["n"]
    g = F(mc["gamma"])
    rmax = max([F(0)] + [F(r) for r in mc["reward"].values()])
    if kind == "const":
        c = F(0) if rmax == 0 else rmax / (1 - g)
        h = [c] * n                                    # also at absorbing states
    elif kind == "exact":
        h = list(Vs)
    elif kind == "slack":
        c = rng.choice([F(1, 2), F(3)])
        h = [v + c for v in Vs]                        # also raises absorbing states to c
    elif kind == "absjunk":
        h = [(F(rng.choice([1, 5, 40])) if absf[s] else Vs[s]) for s in range(n)]
    else:                                              # admissible, in general NOT monotone
        h = [Vs[s] + (F(rng.randint(1, 24), 4) if rng.random() < .5 else F(0)) for s in range(n)]
    return [up_double(x) for x in h]


def is_monotone(P, R, av, absf, g, h, tol=F(0)):
    n, nA = len(P), len(P[0])
    for s in range(n):
        if absf[s]:
            continue
        if max(lookahead(P, R, absf, g, h, s, a) for a in range(nA) if av[s][a]) > h[s] + tol:
            return False
    return True


def policy_solve(P, R, absf, g, pol, states):
    """exact value and expected steps of the (possibly stochastic) policy pol[s] = {a: prob} on the
    index set `states` (closed under the policy up to absorbing states; others count as 0)"""
    idx = {s: i for i, s in enumerate(states)}
    k = len(states)
    A = [[F(0)] * k for _ in range(k)]
    A1 = [[F(0)] * k for _ in range(k)]
    b = [F(0)] * k
    for s in states:
        i = idx[s]
        A[i][i] += 1
        A1[i][i] += 1
        for a, pa in pol[s].items():
            for ns in range(len(P)):
                p = P[s][a][ns]
                if p == 0:
                    continue
                b[i] += pa * p * R[s][a][ns]
                if not absf[ns] and ns in idx:
                    A[i][idx[ns]] -= g * pa * p
                    A1[i][idx[ns]] -= pa * p
    V = solve_linear(A, b) if k else []
    N = solve_linear(A1, [F(1)] * k) if k else []
    full = lambda x: None if x is None else [x[idx[s]] if s in idx else F(0) for s in range(len(P))]
    return full(V), full(N)


NEAR_ONE = "1048575/1048576"          # 1 - 2^-20


def gen_repr(rng, chain=False):
    """input representation / planner options of the impl runner (harness/impl/c04_impl.py)"""
    rp = {"labels": rng.choice(["int"] * 5 + ["str", "str", "tuple", "tuple", "falsy", "falsy", "none", "none"]),
          "dist_objects": rng.random() < .3, "actions_form": rng.choice(["tuple"] * 4 + ["list", "list", "frozenset", "set", "dict_keys", "generator"]),
          "np_discount": rng.random() < .15, "actions_shared": rng.random() < .4,
          "dist_shared": rng.random() < .3, "fresh_planner_last": chain and rng.random() < .4,
          "init": rng.choice(["object", "object", "callable", "initial_state"]),
          "int_numbers": rng.random() < .25, "no_listener": rng.random() < .15}
    if rng.random() < .05:
        rp["seed_none"] = True
    if rng.random() < .06:
        rp["max_trial_length"] = rng.choice([1, 2, 5])
    if rp["labels"] not in ("falsy", "none") and rng.random() < (.5 if chain else .2):
        rp["touch_views"] = True             # tabular views sort the labels: not with mixed-type labels
    return rp


def modify_mdp(rng, mc):
    """boundary modifiers applied BEFORE optimum / heuristic are computed; returns feature tags"""
    tags = []
    n = mc["n"]
    nonabs = [s for s in range(n) if not mc["absorbing"][s]]
    if nonabs and rng.random() < .08:          # large magnitudes
        K = rng.choice([1000, 2**20])
        mc["reward"] = {k: str(F(r) * K) for k, r in mc["reward"].items()}
        tags.append("scaled_rewards")
    if nonabs and rng.random() < .10:          # probabilities 2^-30 / 2^-20 next to 1 - that
        rows = [k for k, row in mc["trans"].items() if not mc["absorbing"][int(k.split(",")[0])]
                and len([1 for _, pr in row if F(pr) != 0]) == 2]
        if rows:
            k = rng.choice(rows)
            old = [list(x) for x in mc["trans"][k]]
            t = F(1, 2**rng.choice([20, 30]))
            it = iter(rng.sample([t, 1 - t], 2))
            mc["trans"][k] = [[ns, (str(next(it)) if F(pr) != 0 else "0")] for ns, pr in old]
            P, R, av, absf, ini = arrays(mc)
            W = max_steps(P, av, absf)
            if W is None or max(W) > 300:      # would make single trials astronomically long
                mc["trans"][k] = old
            else:
                tags.append("tiny_probability")
    def live_rows(k):
        return [key for key, row in mc["trans"].items() if not mc["absorbing"][int(key.split(",")[0])]
                and len([1 for _, pr in row if F(pr) != 0]) == k]
    if nonabs and rng.random() < .10:          # a branch of probability 2^-27..2^-40 that DECIDES the value: reward ~ -1/p
        rows = live_rows(2)
        if rows:
            import copy
            saved = copy.deepcopy(mc)
            key = rng.choice(rows)
            s_, a_ = map(int, key.split(","))
            e = rng.choice([27, 30, 40])
            t = F(1, 2**e)
            pos = [ns for ns, pr in mc["trans"][key] if F(pr) != 0]
            rare = rng.choice(pos)
            mc["trans"][key] = [[ns, (("0" if F(pr) == 0 else str(t if ns == rare else 1 - t)))] for ns, pr in mc["trans"][key]]
            mc["reward"]["%d,%d,%d" % (s_, a_, rare)] = str(-rng.choice([1, 2, 3]) * 2**e)
            P, R, av, absf, ini = arrays(mc)
            W = max_steps(P, av, absf)
            if W is None or min(W) < 0 or max(W) > 300:
                mc.clear(); mc.update(saved)
            else:
                tags.append("tiny_probability_big_reward")
    if sum(mc["absorbing"]) == 1 and rng.random() < .3:   # initial entry of probability 2^-30 on the (single) goal state
        g_ = mc["absorbing"].index(True)
        if all(s_ != g_ for s_, _ in mc["init"]):
            k0 = next(i for i, (s_, pr) in enumerate(mc["init"]) if F(pr) > F(1, 2**20))
            t = F(1, 2**rng.choice([30, 45]))
            mc["init"][k0][1] = str(F(mc["init"][k0][1]) - t)
            mc["init"].append([g_, str(t)])
            tags.append("tiny_initial_entry")
    if nonabs and rng.random() < .2:           # non-dyadic rows / rewards: thirds, tenths (float row sum != 1.0), sevenths
        pats = {2: [["1/3", "2/3"], ["1/10", "9/10"], ["3/7", "4/7"], ["3/10", "7/10"]],
                3: [["1/3", "1/3", "1/3"], ["7/10", "1/5", "1/10"], ["1/7", "2/7", "4/7"], ["1/10", "3/10", "3/5"]]}
        hit = False
        for k in (2, 3):
            for key in live_rows(k):
                if rng.random() < .7:
                    it = iter(rng.sample(rng.choice(pats[k]), k))
                    mc["trans"][key] = [[ns, ("0" if F(pr) == 0 else next(it))] for ns, pr in mc["trans"][key]]
                    hit = True
        for key in list(mc["reward"]):
            if rng.random() < .3 and not mc["absorbing"][int(key.split(",")[0])]:
                mc["reward"][key] = str(F(mc["reward"][key]) * rng.choice([F(1, 3), F(1, 10), F(7, 10)]))
        if hit:
            tags.append("nondyadic_numbers")
    cand = [s for s in nonabs if len(mc["actions"][s]) >= 2]
    if cand and rng.random() < .10:            # two actions whose values differ by 2^-30: must be told apart
        s = rng.choice(cand)
        a, b = rng.sample(mc["actions"][s], 2)
        row = mc["trans"]["%d,%d" % (s, a)]
        mc["trans"]["%d,%d" % (s, b)] = [list(x) for x in row]
        for key in [k for k in mc["reward"] if k.startswith("%d,%d," % (s, b))]:
            del mc["reward"][key]
        pos = [ns for ns, pr in row if F(pr) != 0]
        for ns in pos:
            r = F(mc["reward"].get("%d,%d,%d" % (s, a, ns), "0"))
            if ns == pos[0]:
                r -= F(1, 2**30)
            if r != 0:
                mc["reward"]["%d,%d,%d" % (s, b, ns)] = str(r)
        tags.append("near_tie")
    return tags


def gen_case(rng, tier):
    r = rng.random()
    gamma = "1" if r < .32 else (NEAR_ONE if r < .40 else ("0" if r < .49 else None))   # 0: fully myopic problems
    nmax = 5 if tier == "quick" else 7
    if rng.random() < .04:
        nmax = 1                                  # single (absorbing) state
    mc = gen_mdp.gen_mdp(rng, nmax=nmax, amax=3, gamma=gamma, proper=True, min_states=min(2, nmax),
                         nonpos=(gamma == NEAR_ONE))
    tags = modify_mdp(rng, mc)
    P, R, av, absf, ini = arrays(mc)
    Vs = exact_vstar(P, R, av, absf, F(mc["gamma"]))
    kind = rng.choice(KINDS)
    h = make_heuristic(rng, kind, mc, Vs, absf)
    margin = rng.choice(MARGINS)
    if rng.random() < .10:
        margin = rng.choice(["1", "5"])           # threshold 1 (also passed as an int)
    if "scaled_rewards" in tags and margin == "1/10000":
        margin = "1/100"
    if "tiny_probability_big_reward" in tags and F(margin) < F(1, 100):
        margin = "1/100"                          # values of order 2^30..2^40
    case = {"mdp": mc, "heuristic": [str(x) for x in h], "kind": kind, "margin": margin,
            "seed": rng.randint(0, 4 if tier == "quick" else 29), "randomize": rng.random() < .5,
            "iterations": 4000, "max_log": 600 if tier == "quick" else 1500, "repr": gen_repr(rng), "tags": tags}
    if rng.random() < .04:
        case["iterations"] = rng.choice([1, 2])   # trial cap hit: soundness clauses only
    return case


def perturb(rng, mc):
    """same labels, action sets, absorbing flags and successor SETS (so properness is preserved);
    probabilities, rewards and (sometimes) the initial distribution re-drawn"""
    import copy
    m2 = copy.deepcopy(mc)
    nonpos = F(mc["gamma"]) == 1
    m2["reward"] = {}
    for key, row in mc["trans"].items():
        s, a = map(int, key.split(","))
        pos = [ns for ns, pr in row if F(pr) != 0]
        if mc["absorbing"][s]:
            newrow = [list(x) for x in row]
        else:
            ps = gen_mdp._split_prob(rng, len(pos))
            it = iter(ps)
            newrow = [[ns, (str(next(it)) if F(pr) != 0 else "0")] for ns, pr in row]
        m2["trans"][key] = newrow
        for ns in pos:
            if rng.random() < .8:
                r = F(rng.randint(-16, 0 if nonpos else 16), 4) if rng.random() < .3 else F(rng.randint(-4, 0 if nonpos else 4))
                if r != 0:
                    m2["reward"]["%d,%d,%d" % (s, a, ns)] = str(r)
    if rng.random() < .5:
        pos = [s for s, pr in mc["init"] if F(pr) != 0]
        it = iter(gen_mdp._split_prob(rng, len(pos)))
        m2["init"] = [[s, (str(next(it)) if F(pr) != 0 else "0")] for s, pr in mc["init"]]
    return m2


def gen_chain(rng, tier):
    """ONE planner object plans on A, on a perturbed B with the same labels, then on A again;
    the heuristic is admissible for both (constant bound, or pointwise max of the optima + slack)"""
    gamma = "1" if rng.random() < .35 else None
    mA = gen_mdp.gen_mdp(rng, nmax=5 if tier == "quick" else 7, amax=3, gamma=gamma, proper=True, min_states=2)
    g = F(mA["gamma"])
    if rng.random() < .3:                      # second problem of a DIFFERENT size (labels overlap, meanings differ)
        mB = gen_mdp.gen_mdp(rng, nmax=5 if tier == "quick" else 7, amax=3, gamma=mA["gamma"], proper=True, min_states=2)
        rmax = max([F(0)] + [F(r) for mc in (mA, mB) for r in mc["reward"].values()])
        h = [F(0) if rmax == 0 else rmax / (1 - g)] * max(mA["n"], mB["n"])
        return {"chain": [mA, mB, mA], "mdp": mA, "heuristic": [str(up_double(x)) for x in h], "kind": "chain-const-resized",
                "margin": rng.choice(MARGINS), "seed": rng.randint(0, 4 if tier == "quick" else 29),
                "randomize": rng.random() < .5, "iterations": 4000, "max_log": 600 if tier == "quick" else 1500,
                "repr": dict(gen_repr(rng, chain=True), max_trial_length=None, seed_none=False), "tags": ["chain_resized"]}
    mB = perturb(rng, mA)
    vs = []
    for mc in (mA, mB):
        P, R, av, absf, ini = arrays(mc)
        vs.append(exact_vstar(P, R, av, absf, g))
    kind = rng.choice(["chain-const", "chain-maxexact", "chain-maxexact-slack"])
    n = mA["n"]
    if kind == "chain-const":
        rmax = max([F(0)] + [F(r) for mc in (mA, mB) for r in mc["reward"].values()])
        h = [F(0) if rmax == 0 else rmax / (1 - g)] * n
    else:
        c = F(0) if kind == "chain-maxexact" else rng.choice([F(1, 2), F(3)])
        h = [max(vs[0][s], vs[1][s]) + c for s in range(n)]
        if rng.random() < .5:
            h = [(F(rng.choice([1, 5, 40])) if mA["absorbing"][s] else h[s]) for s in range(n)]
    return {"chain": [mA, mB, mA], "mdp": mA, "heuristic": [str(up_double(x)) for x in h], "kind": kind,
            "margin": rng.choice(MARGINS), "seed": rng.randint(0, 4 if tier == "quick" else 29),
            "randomize": rng.random() < .5, "iterations": 4000, "max_log": 600 if tier == "quick" else 1500,
            "repr": dict(gen_repr(rng, chain=True), max_trial_length=None, seed_none=False), "tags": []}


def flatten(cases, impl):
    """-> parallel lists (step case judged with ITS OWN mdp, step result, original case, step index)"""
    fc, fr, fo, fs = [], [], [], []
    for case, res in zip(cases, impl):
        if "chain" in case and "error" not in res:
            for k, (mc, r) in enumerate(zip(case["chain"], res["chain"])):
                step = {x: y for x, y in case.items() if x != "chain"}
                step["mdp"] = mc
                fc.append(step); fr.append(r); fo.append(case); fs.append(k)
        else:
            fc.append(case); fr.append(res); fo.append(case); fs.append(None)
    return fc, fr, fo, fs


# ---------------------------------------------------------------------------------------------
# per-case preparation
# ---------------------------------------------------------------------------------------------
class Prep:
    pass


def prepare(case, res):
    p = Prep()
    mc = case["mdp"]
    n, nA = mc["n"], mc["nA"]
    p.n, p.nA = n, nA
    p.P, p.R, p.av, p.absf, p.ini = arrays(mc)
    p.g = F(mc["gamma"])
    p.margin = F(case["margin"])
    p.h = [F(x) for x in case["heuristic"]][:n]
    p.Vs = exact_vstar(p.P, p.R, p.av, p.absf, p.g)
    p.W = max_steps(p.P, p.av, p.absf)
    p.V = [vlib.frac(x) for x in res["V"]]
    p.solved, p.touched = res["solved"], res["touched"]
    p.live = [p.solved[s] and not p.absf[s] for s in range(n)]
    # the action the planner RETURNS at a labelled state (recorded when it was labelled); the greedy
    # action recomputed from the final table is only compared with it (coverage)
    p.greedy = [res["greedy"].get(str(s)) for s in range(n)]
    ra = res.get("returned_action") or [None] * n
    p.pi = [int(ra[s]) if ra[s] is not None else int(p.greedy[s] or 0) for s in range(n)]
    p.iv = vlib.frac(res["initial_value"])
    livestates = [s for s in range(n) if p.live[s]]
    p.Vpi, p.N = policy_solve(p.P, p.R, p.absf, p.g, {s: {p.pi[s]: F(1)} for s in livestates}, livestates)
    # returned policy res.policy (probabilities: nearest small rational of the float)
    p.ret = []
    for s in range(n):
        row = {int(a): vlib.frac(pr).limit_denominator(64) for a, pr in res["policy"][s]}
        p.ret.append({a: x for a, x in row.items() if x != 0})
    nonabs = [s for s in range(n) if not p.absf[s]]
    ok = all(all(p.av[s][a] for a in p.ret[s]) and sum(p.ret[s].values()) == 1 for s in nonabs)
    p.Vret, p.Nret = policy_solve(p.P, p.R, p.absf, p.g, p.ret, nonabs) if ok else (None, None)
    # magnitude of the numbers the float look-aheads add up: values (initially the heuristic) AND rewards
    p.scale = max([F(1)] + [abs(x) for x in p.V] + [abs(x) for x in p.Vs] + [abs(x) for x in p.h]
                  + [abs(F(r)) for r in mc["reward"].values()])
    # float noise of a look-ahead is a few ulps of the largest value (~1e-15 * scale); 1e-13 leaves two
    # orders of magnitude.  (It was 1e-9 * scale: that hid label errors of relative size 1e-9, i.e. every
    # run whose margin is below 1e-9 * |values|.)
    p.tiny = F(1, 10**13) * p.scale
    p.mono = is_monotone(p.P, p.R, p.av, p.absf, p.g, p.h)
    p.mono_tol = is_monotone(p.P, p.R, p.av, p.absf, p.g, p.h, p.tiny)
    p.admissible = all(p.h[s] >= p.Vs[s] for s in range(n) if not p.absf[s])
    return p


def mdp_term(p, case):
    return " ".join([nat(p.n), nat(p.nA), qten(p.P), qten(p.R), bmat(p.av), blist(p.absf), qlist(p.ini), q(p.g)])


def qopt(x):
    return "None" if x is None else "(Some %s)" % q(x)


def chk_term(p, case, res):
    Qv = []
    for s in range(p.n):
        row = res["Q"].get(str(s))
        Qv.append([None] * p.nA if row is None else [row.get(str(a)) for a in range(p.nA)])
    Qv = coqlist(coqlist(qopt(x) for x in row) for row in Qv)
    ret = [[p.ret[s].get(a, F(0)) for a in range(p.nA)] for s in range(p.n)]
    zero = [F(0)] * p.n
    # greediness w.r.t. the FINAL table is only promised for monotone heuristics (C04_lrtdp_greedy_stable_partial)
    tgre = 1000 * p.tiny if p.mono_tol else F(10**6) * p.scale
    tl = "(mkLTol %s)" % " ".join(q(x) for x in [p.margin + p.tiny, tgre, p.tiny, p.tiny, p.tiny])
    return "chk %s %s %s %s %s %s %s %s %s %s %s %s %s" % (
        mdp_term(p, case), qlist(p.V), blist(p.solved), blist(p.touched), natlist(p.pi), Qv, qmat(ret), q(p.iv),
        qlist(p.N or zero), qlist(p.Vpi or zero), qlist(p.Vs or zero), qlist(p.W or zero), tl)


def op_term(op):
    if op[0] == "U":
        return "(OUpd %s, %s)" % (nat(op[1]), q(op[2]))
    if op[0] == "A":
        return "(OAbs %s, 0)" % nat(op[1])
    return "(OLabel %s, 0)" % natlist(op[3])


def machine_ops(ops):
    """machine operations of the log: U, A, and the Label of every successful _check_solved
    (the U entries of a failed one are already in the log)"""
    out = []
    for op in ops:
        if op[0] in ("U", "A"):
            out.append(op)
        elif op[0] == "C" and op[2] and op[3]:
            out.append(op)
    return out


def ord_term(p, case, res):
    rows = []
    for s in range(p.n):
        o = res["action_orders"].get(str(s))
        rows.append(list(o) if o is not None else list(case["mdp"]["actions"][s]))
    return coqlist(natlist(r) for r in rows)


def supp_term(p, case):
    mc = case["mdp"]
    rows = []
    for s in range(p.n):
        row = []
        for a in range(p.nA):
            tr = mc["trans"].get("%d,%d" % (s, a))
            row.append(natlist([ns for ns, pr in tr]) if tr is not None else "[]")
        rows.append(coqlist(row))
    return coqlist(rows)


def calls_term(ops):
    """[(ops before the call since the previous call, s, flag, closed)]"""
    calls, pre = [], []
    skip = 0
    for op in ops:
        if op[0] == "C":
            calls.append("(%s, %s, %s, %s)" % (coqlist(plain_op(o) for o in pre), nat(op[1]), vlib.b(op[2]), natlist(op[3])))
            pre = []
            skip = 0 if op[2] else len(op[3])      # the U entries of a failed call belong to the call
        elif skip:
            skip -= 1
        else:
            pre.append(op)
    return coqlist(calls)


def plain_op(op):
    return "(OUpd %s)" % nat(op[1]) if op[0] == "U" else "(OAbs %s)" % nat(op[1])


def has_structural_tie(p):
    """under the heuristic, some non-absorbing state has two maximal actions with different successor sets
    (the input class where the tie-breaking order matters)"""
    for s in range(p.n):
        if p.absf[s]:
            continue
        qs = {a: lookahead(p.P, p.R, p.absf, p.g, p.h, s, a) for a in range(p.nA) if p.av[s][a]}
        best = max(qs.values())
        top = [a for a in qs if qs[a] == best]
        supp = {tuple(k for k in range(p.n) if p.P[s][a][k] != 0) for a in top}
        if len(supp) > 1:
            return True
    return False


def is_soft(case):
    return case["iterations"] <= 2 or (case.get("repr") or {}).get("max_trial_length") is not None


# ---------------------------------------------------------------------------------------------
# exact oracle for the property's clauses (violation search)
# ---------------------------------------------------------------------------------------------
def oracle(p, case, res):
    """-> list of (signature-suffix, detail) of concrete clauses of the property that fail"""
    out = []
    n = p.n
    E = lambda f: sum(p.ini[s] * (F(0) if p.absf[s] else f[s]) for s in range(n))
    unsolved = [s for s in range(n) if p.ini[s] > 0 and not p.solved[s]]
    soft = is_soft(case)         # tiny trial cap / max_trial_length: completion is not promised
    if unsolved and not soft:
        out.append(("initial-state-not-labelled-within-trial-cap", {"states": unsolved, "trials": res["trials"]}))
    if res["trials"] >= case["iterations"] and not soft and not unsolved:
        zero = [s for s in range(n) if any(int(x) == s and F(pp) == 0 for x, pp in case["mdp"]["init"]) and not p.solved[s]]
        out.append(("zero-probability-initial-state-never-labelled" if zero else "runs-all-trials-although-initial-states-solved",
                    {"states": zero, "trials": res["trials"]}))
    for s in range(n):
        if p.touched[s] and not p.absf[s] and p.V[s] < p.Vs[s] - p.tiny:
            out.append(("value-estimate-below-optimal", {"state": s, "V": str(p.V[s]), "optimal": str(p.Vs[s])}))
            break
    for s in range(n):
        if p.absf[s] and p.touched[s] and p.V[s] != 0:
            out.append(("absorbing-state-value-not-zero", {"state": s, "V": str(p.V[s])}))
            break
    for s in range(n):
        row = res["Q"].get(str(s))
        if p.absf[s] and row and any(vlib.frac(x) != 0 for x in row.values()):
            out.append(("absorbing-state-q-not-zero", {"state": s}))
            break
    EV = E(p.V)
    if abs(p.iv - EV) > p.tiny:
        absinit = [s for s in range(n) if p.absf[s] and p.ini[s] > 0 and p.V[s] != 0]
        out.append(("initial-value-reads-heuristic-at-absorbing-initial-state" if absinit and
                    abs(p.iv - sum(p.ini[s] * p.V[s] for s in range(n))) <= p.tiny else "initial-value-not-expectation-of-values",
                    {"initial_value": str(p.iv), "expected": str(EV), "absorbing_initial_states": absinit}))
    if p.Vret is None:
        out.append(("returned-policy-not-a-distribution-over-available-actions", {}))
        return out
    if unsolved:                 # margin clauses speak about completed runs
        return out
    Vs0, Vret0, Nret0 = E(p.Vs), E(p.Vret), E(p.Nret)
    if p.iv - Vs0 > p.margin * Nret0 + 2 * p.tiny:
        out.append(("initial-value-exceeds-optimum-by-more-than-margin-times-steps",
                    {"initial_value": str(p.iv), "optimal": str(Vs0), "expected_steps": str(Nret0), "margin": str(p.margin)}))
    if Vs0 - Vret0 > p.margin * Nret0 + 2 * p.tiny:
        out.append(("returned-policy-exceeds-margin",
                    {"policy_return": str(Vret0), "optimal": str(Vs0), "expected_steps": str(Nret0), "margin": str(p.margin)}))
    return out


def hops(mc):
    """minimal number of positive-probability steps to the absorbing set, over all actions"""
    n = mc["n"]
    d = [0 if mc["absorbing"][s] else None for s in range(n)]
    changed = True
    while changed:
        changed = False
        for s in range(n):
            if mc["absorbing"][s]:
                continue
            best = None
            for a in mc["actions"][s]:
                for ns, pr in mc["trans"]["%d,%d" % (s, a)]:
                    if F(pr) != 0 and d[ns] is not None and (best is None or d[ns] + 1 < best):
                        best = d[ns] + 1
            if best is not None and (d[s] is None or best < d[s]):
                d[s] = best
                changed = True
    return d


def gen_routing(rng, tier):
    """Undiscounted routing problems with integer step costs >= 1 and the hop-count heuristic
    h(s) = -(fewest steps to a goal): admissible and monotone, and — the point — it produces EXACT Q-value
    ties between actions with DIFFERENT successor sets (one of them still resting on optimistic heuristic
    values), so the order in which ties are broken (res.action_orders, shuffled when
    randomize_action_order is on) decides which closure _check_solved must verify and which action is
    recorded and returned."""
    mc = gen_mdp.gen_mdp(rng, nmax=5 if tier == "quick" else 7, amax=3, gamma="1", proper=True, min_states=3,
                         uniform_actions=rng.random() < .7, quarter_rewards=False, zero_entries=rng.random() < .3)
    for s in range(mc["n"]):
        if mc["absorbing"][s]:
            continue
        for a in mc["actions"][s]:
            for ns, pr in mc["trans"]["%d,%d" % (s, a)]:
                if F(pr) != 0:                       # every move costs at least 1; occasional tolls
                    mc["reward"]["%d,%d,%d" % (s, a, ns)] = str(-rng.choice([1, 1, 1, 1, 2, 3, 5]))
    d = hops(mc)
    # tie gadget: at up to two states give a second action a row with DIFFERENT successors whose
    # look-ahead under the hop heuristic equals that of another action exactly; one successor may carry a toll
    # further on (so the tied action only LOOKS as good).  Kept only if hop counts and properness survive.
    cand = [s for s in range(mc["n"]) if not mc["absorbing"][s] and len(mc["actions"][s]) >= 2]
    rng.shuffle(cand)
    for s in cand[:2]:
        import copy
        a, b = rng.sample(mc["actions"][s], 2)
        qa = sum(F(pr) * (F(mc["reward"].get("%d,%d,%d" % (s, a, ns), "0")) - (0 if mc["absorbing"][ns] else d[ns]))
                 for ns, pr in mc["trans"]["%d,%d" % (s, a)] if F(pr) != 0)
        sa = {ns for ns, pr in mc["trans"]["%d,%d" % (s, a)] if F(pr) != 0}
        ts = [t for t in range(mc["n"]) if t != s and d[s] - 1 <= d[t] <= -qa - 1]
        ts = [t for t in ts if t not in sa] + [t for t in ts if t in sa]
        ts = ts[:rng.choice([1, 2, 2])]
        if not ts or set(ts) == sa:
            continue
        saved = copy.deepcopy(mc)
        for key in [k for k in mc["reward"] if k.startswith("%d,%d," % (s, b))]:
            del mc["reward"][key]
        ps = [F(1)] if len(ts) == 1 else [F(1, 2), F(1, 2)]
        mc["trans"]["%d,%d" % (s, b)] = [[t, str(pp)] for t, pp in zip(ts, ps)]
        for t in ts:
            mc["reward"]["%d,%d,%d" % (s, b, t)] = str(qa + d[t])
        toll = [t for t in ts if not mc["absorbing"][t]]
        if toll and rng.random() < .6:
            t = rng.choice(toll)
            for key in [k for k in mc["reward"] if k.startswith("%d," % t)]:
                mc["reward"][key] = str(F(mc["reward"][key]) - 4)
        P, R, av, absf, ini = arrays(mc)
        W = max_steps(P, av, absf)
        okw = W is not None and all(w >= 0 for w in W) and all(
            W[x] >= 1 + sum(P[x][y][k] * (0 if absf[k] else W[k]) for k in range(mc["n"]))
            for x in range(mc["n"]) if not absf[x] for y in range(mc["nA"]) if av[x][y])
        if not okw or hops(mc) != d or max(W) > 300:
            mc.clear()
            mc.update(saved)
    h = [F(-(x or 0)) for x in d]
    if rng.random() < .3:
        h = [(F(rng.choice([1, 5])) if mc["absorbing"][s] else h[s]) for s in range(mc["n"])]
    return {"mdp": mc, "heuristic": [str(x) for x in h], "kind": "routing-hops",
            "margin": rng.choice(["1/100", "1/1000", "1/10000"]), "seed": rng.randint(0, 9 if tier == "quick" else 39),
            "randomize": rng.random() < .8, "iterations": 4000, "max_log": 600 if tier == "quick" else 1500,
            "repr": dict(gen_repr(rng), max_trial_length=None), "tags": ["routing"]}


def tie_scenarios():
    """fixed scenario of the same class: 'safe' (cost 2) and 'risky' (cost 1 + toll 5 w.p. 1/2) tie exactly
    under the hop-count heuristic at the start state; with a shuffled action order the planner follows,
    records and returns whichever comes first in res.action_orders, so that is the action whose closure
    has to be residual-checked"""
    mc = {"n": 5, "nA": 2, "actions": [[0, 1]] * 5,
          "trans": {"0,0": [[1, "1"]], "0,1": [[2, "1/2"], [3, "1/2"]],
                    "1,0": [[4, "1"]], "1,1": [[4, "1"]], "2,0": [[4, "1"]], "2,1": [[4, "1"]],
                    "3,0": [[4, "1"]], "3,1": [[4, "1"]], "4,0": [[4, "1"]], "4,1": [[4, "1"]]},
          "reward": {"0,0,1": "-1", "0,1,2": "-1", "0,1,3": "-1", "1,0,4": "-1", "1,1,4": "-1",
                     "2,0,4": "-1", "2,1,4": "-1", "3,0,4": "-5", "3,1,4": "-5"},
          "absorbing": [False, False, False, False, True], "init": [[0, "1"]], "gamma": "1"}
    return [{"mdp": mc, "heuristic": ["-2", "-1", "-1", "-1", "0"], "kind": "scenario-exact-tie",
             "margin": "1/500", "seed": seed, "randomize": True, "iterations": 4000, "max_log": 600, "tags": ["routing"]}
            for seed in range(8)]


def shared_list_scenarios():
    """ONE action list object shared by all states (QuickTabularMDP(actions=[...])), shuffled action order,
    an exact tie at the start state between 'a' -> {m, w} and 'b' -> u (u optimistic under the heuristic,
    really worth -5), and new states first met inside _check_solved: the order recorded for an already seen
    state must not be disturbed by later states, and the caller's list must come back unchanged"""
    mc = {"n": 5, "nA": 2, "actions": [[0, 1]] * 5,
          "trans": {"0,0": [[1, "1/2"], [2, "1/2"]], "0,1": [[3, "1"]],
                    "1,0": [[4, "1"]], "1,1": [[4, "1"]], "2,0": [[4, "1"]], "2,1": [[4, "1"]],
                    "3,0": [[4, "1"]], "3,1": [[4, "1"]], "4,0": [[4, "1"]], "4,1": [[4, "1"]]},
          "reward": {"0,0,1": "-1", "0,0,2": "-1", "0,1,3": "-1", "1,0,4": "-1", "1,1,4": "-1",
                     "2,0,4": "-1", "2,1,4": "-1", "3,0,4": "-5", "3,1,4": "-5"},
          "absorbing": [False, False, False, False, True], "init": [[0, "1"]], "gamma": "1"}
    return [{"mdp": mc, "heuristic": ["-2", "-1", "-1", "-1", "0"], "kind": "scenario-shared-action-list",
             "margin": "1/100", "seed": seed, "randomize": True, "iterations": 4000, "max_log": 600, "tags": ["routing"],
             "repr": {"labels": lab, "actions_shared": True, "actions_tuple": False}}
            for seed in range(10) for lab in (["str"] if seed % 2 else ["int"])]


def gen_tight(rng, tier):
    """margin / value-scale ratios beyond 1e9 with gradual convergence: either a very tight margin
    (1e-10, 1e-12 with values of order 1..100) or rewards of order 1e8..1e9 with margin 1e-2; stochastic
    self-loops are added so that values creep towards the optimum and a state labelled a little too early
    is visibly off"""
    gamma = "1" if rng.random() < .5 else None
    mc = gen_mdp.gen_mdp(rng, nmax=4 if tier == "quick" else 6, amax=2, gamma=gamma, proper=True, min_states=2,
                         zero_entries=False)
    nonpos = F(mc["gamma"]) == 1
    for s in range(mc["n"]):
        if mc["absorbing"][s]:
            continue
        for a in mc["actions"][s]:
            key = "%d,%d" % (s, a)
            row = mc["trans"][key]
            if rng.random() < .6 and all(ns != s for ns, _ in row):
                mc["trans"][key] = [[s, "1/2"]] + [[ns, str(F(pr) / 2)] for ns, pr in row]
                r = F(rng.randint(-4, -1 if nonpos else 4))
                if r != 0:
                    mc["reward"]["%d,%d,%d" % (s, a, s)] = str(r)
    tags = ["tight_margin_ratio"]
    if rng.random() < .5:
        K = rng.choice([10**8, 10**9])
        mc["reward"] = {k: str(F(r) * K) for k, r in mc["reward"].items()}
        margin = "1/100"
        tags.append("huge_rewards")
    else:
        margin = rng.choice(["1/10000000000", "1/1000000000000"])
    cand = [s for s in range(mc["n"]) if not mc["absorbing"][s] and len(mc["actions"][s]) >= 2]
    if cand and rng.random() < .9:             # a copy of an action that is worse by a RELATIVE 2^-20 / 2^-17 only
        s = rng.choice(cand)
        a, b = rng.sample(mc["actions"][s], 2)
        row = mc["trans"]["%d,%d" % (s, a)]
        mc["trans"]["%d,%d" % (s, b)] = [list(x) for x in row]
        for key in [k for k in mc["reward"] if k.startswith("%d,%d," % (s, b))]:
            del mc["reward"][key]
        rel = F(1, 2**rng.choice([17, 20]))
        mag = max([F(1)] + [abs(F(r)) for r in mc["reward"].values()])
        first = True
        for ns, pr in row:
            if F(pr) == 0:
                continue
            r = F(mc["reward"].get("%d,%d,%d" % (s, a, ns), "0"))
            if first:
                r -= mag * rel
                first = False
            if r != 0:
                mc["reward"]["%d,%d,%d" % (s, b, ns)] = str(r)
        tags.append("near_tie_relative")
    P, R, av, absf, ini = arrays(mc)
    Vs = exact_vstar(P, R, av, absf, F(mc["gamma"]))
    kind = rng.choice(["const", "const", "slack", "nonmono"])
    h = make_heuristic(rng, kind, mc, Vs, absf)
    if "huge_rewards" in tags and kind != "const":
        h = [up_double(v + (K if not absf[i] else 0)) for i, v in enumerate(Vs)]
    return {"mdp": mc, "heuristic": [str(x) for x in h], "kind": "tight-" + kind, "margin": margin,
            "seed": rng.randint(0, 4 if tier == "quick" else 29), "randomize": rng.random() < .5,
            "iterations": 20000, "max_log": 600 if tier == "quick" else 1500,
            "repr": dict(gen_repr(rng), max_trial_length=None), "tags": tags}


def gen_corridor(rng, tier):
    """corridors: n states in a row (n not a power of two), the goal at one end, so greedy paths have n-1
    steps; moving succeeds w.p. 7/8 or 1, a second action jumps two cells at a higher cost; integer costs"""
    n = rng.choice([6, 7, 9, 10, 11] if tier == "quick" else [6, 7, 9, 10, 11, 12, 13])
    slip = rng.random() < .6
    mc = {"n": n, "nA": 2, "actions": [[0, 1]] * n, "trans": {}, "reward": {}, "absorbing": [False] * (n - 1) + [True],
          "init": [[0, "1"]] if rng.random() < .6 else [[0, "1/2"], [n // 2, "1/2"]], "gamma": rng.choice(["1", "1", "9/10"])}
    for s in range(n):
        if s == n - 1:
            mc["trans"]["%d,0" % s] = [[s, "1"]]
            mc["trans"]["%d,1" % s] = [[s, "1"]]
            continue
        nx, jp = s + 1, min(s + 2, n - 1)
        mc["trans"]["%d,0" % s] = [[nx, "7/8"], [s, "1/8"]] if slip else [[nx, "1"]]
        mc["trans"]["%d,1" % s] = [[jp, "3/4"], [s, "1/4"]] if slip else [[jp, "1"]]
        for ns, pr in mc["trans"]["%d,0" % s]:
            mc["reward"]["%d,0,%d" % (s, ns)] = "-1"
        for ns, pr in mc["trans"]["%d,1" % s]:
            mc["reward"]["%d,1,%d" % (s, ns)] = str(-rng.choice([2, 3]))
    P, R, av, absf, ini = arrays(mc)
    Vs = exact_vstar(P, R, av, absf, F(mc["gamma"]))
    kind = rng.choice(["const", "hops", "slack"])
    if kind == "hops" and mc["gamma"] == "1":
        h = [F(-(x or 0)) for x in hops(mc)]
    else:
        kind = "const" if kind == "hops" else kind
        h = make_heuristic(rng, kind, mc, Vs, absf)
    return {"mdp": mc, "heuristic": [str(x) for x in h], "kind": "corridor-" + kind, "margin": rng.choice(["1/10", "1/100"]),
            "seed": rng.randint(0, 4), "randomize": rng.random() < .5, "iterations": 4000,
            "max_log": 600 if tier == "quick" else 1500, "repr": dict(gen_repr(rng), max_trial_length=None), "tags": ["corridor"]}


def gen_long_trial(rng, tier):
    """trials far beyond 1000 steps: the only way on succeeds w.p. 1/1024 (2^-10) per attempt"""
    stay = F(1023, 1024)
    mc = {"n": 3, "nA": 2, "actions": [[0, 1], [0], [0]],
          "trans": {"0,0": [[0, str(stay)], [1, str(1 - stay)]], "0,1": [[0, str(stay)], [2, str(1 - stay)]],
                    "1,0": [[2, "1"]], "2,0": [[2, "1"]]},
          "reward": {"0,0,0": "-1/1024", "0,0,1": "-1/1024", "0,1,0": "-1/512", "0,1,2": "-1/512", "1,0,2": "-1/4"},
          "absorbing": [False, False, True], "init": [[0, "1"]], "gamma": rng.choice(["1", "1", "7/8"])}
    P, R, av, absf, ini = arrays(mc)
    Vs = exact_vstar(P, R, av, absf, F(mc["gamma"]))
    kind = rng.choice(["exact", "slack"])
    h = make_heuristic(rng, kind, mc, Vs, absf)
    return {"mdp": mc, "heuristic": [str(x) for x in h], "kind": "longtrial-" + kind, "margin": "1/100",
            "seed": rng.randint(0, 4), "randomize": rng.random() < .5, "iterations": 4000, "max_log": 300,
            "repr": dict(gen_repr(rng), max_trial_length=None), "tags": ["long_trials"]}


def none_action_scenarios():
    """the action labelled None ("wait") is optimal at the start state (-2 straight to the goal) while the one-step
    look-ahead on the raw heuristic 0 prefers 'push' (-1 to x, whose true value is -10): anything that mistakes
    a stored None for "no entry" falls back to that look-ahead"""
    mc = {"n": 3, "nA": 2, "actions": [[0, 1], [0, 1], [0, 1]],
          "trans": {"0,0": [[2, "1"]], "0,1": [[1, "1"]], "1,0": [[1, "1/2"], [2, "1/2"]], "1,1": [[2, "1"]],
                    "2,0": [[2, "1"]], "2,1": [[2, "1"]]},
          "reward": {"0,0,2": "-2", "0,1,1": "-1", "1,0,1": "-5", "1,0,2": "-5", "1,1,2": "-12"},
          "absorbing": [False, False, True], "init": [[0, "1"]], "gamma": "1"}
    return [{"mdp": mc, "heuristic": ["0", "0", "0"], "kind": "scenario-none-action", "margin": "1/1000", "seed": seed,
             "randomize": bool(seed % 2), "iterations": 4000, "max_log": 600, "tags": [],
             "repr": {"labels": "none", "actions_tuple": bool(seed // 2 % 2)}} for seed in range(4)]


def myopic_scenarios():
    """discount exactly 0 (declared as int 0, 0.0 and np.float64(0)): only the immediate reward counts, so
    'a0' (-1 now, -10 later) is optimal at the start and V* = -1; read as "no discount declared" it would be -2"""
    mc = {"n": 3, "nA": 2, "actions": [[0, 1], [0], [0]],
          "trans": {"0,0": [[1, "1"]], "0,1": [[2, "1"]], "1,0": [[2, "1"]], "2,0": [[2, "1"]]},
          "reward": {"0,0,1": "-1", "0,1,2": "-2", "1,0,2": "-10"},
          "absorbing": [False, False, True], "init": [[0, "1"]], "gamma": "0"}
    return [{"mdp": mc, "heuristic": ["0", "0", "0"], "kind": "scenario-discount-zero", "margin": "1/100", "seed": i,
             "randomize": bool(i % 2), "iterations": 4000, "max_log": 600, "tags": [], "repr": rp}
            for i, rp in enumerate([{"int_numbers": True}, {"int_numbers": False}, {"np_discount": True}])]


def regression_cases():
    """fixed inputs on which msdm's LRTDP violated the property before the fix commits (must pass now,
    must fire if a defect returns)"""
    out = []
    # 2bd631b: admissible NON-monotone heuristic; with seeds 3 and 9 a labelled state's greedy action
    # recomputed from the final table differs from the one it was labelled with (props/C04.v:
    # C04_recomputed_greedy_refuted is this instance)
    mc = {"n": 8, "nA": 2, "actions": [[0], [0, 1], [0, 1], [0], [0], [0], [0], [0]],
          "trans": {"0,0": [[1, "1"]], "1,0": [[7, "1"]], "1,1": [[3, "1"]], "2,0": [[3, "1/2"], [6, "1/2"]], "2,1": [[7, "1"]],
                    "3,0": [[4, "1"]], "4,0": [[5, "1"]], "5,0": [[7, "1"]], "6,0": [[7, "1"]], "7,0": [[7, "1"]]},
          "reward": {"1,0,7": "-10", "2,1,7": "-15", "5,0,7": "-20", "6,0,7": "-100"},
          "absorbing": [False] * 7 + [True], "init": [[0, "1/2"], [2, "1/2"]], "gamma": "1"}
    for seed in (3, 9):
        out.append({"mdp": mc, "heuristic": ["-10", "-10", "-6", "-12", "-5", "-3", "0", "0"], "kind": "regression-nonmonotone",
                    "margin": "1/100", "seed": seed, "randomize": False, "iterations": 4000, "max_log": 600})
    # 9c7fbe1: a state labelled without ever being updated; junk heuristic at the absorbing state
    mc2 = {"n": 5, "nA": 2, "actions": [[0], [0, 1], [0, 1], [0], [0]],
           "trans": {"0,0": [[1, "1/2"], [2, "1/2"]], "1,0": [[3, "1"]], "1,1": [[4, "1"]], "2,0": [[3, "1"]], "2,1": [[4, "1"]],
                     "3,0": [[4, "1"]], "4,0": [[4, "1"]]},
           "reward": {"1,0,3": "-1", "2,0,3": "-1", "1,1,4": "-5", "2,1,4": "-5"},
           "absorbing": [False, False, False, False, True], "init": [[0, "1"]], "gamma": "1"}
    for seed in (0, 1):
        out.append({"mdp": mc2, "heuristic": ["-1", "-1", "-1", "0", "40"], "kind": "regression-untouched-labelled",
                    "margin": "1/100", "seed": seed, "randomize": False, "iterations": 4000, "max_log": 600})
    # 939b5e0 / c174104: absorbing initial state with a non-zero heuristic; zero-probability initial entry
    mc3 = {"n": 3, "nA": 1, "actions": [[0], [0], [0]],
           "trans": {"0,0": [[2, "1"]], "1,0": [[2, "1"]], "2,0": [[2, "1"]]},
           "reward": {"0,0,2": "-1", "1,0,2": "-1"},
           "absorbing": [False, False, True], "init": [[0, "1/2"], [2, "1/2"], [1, "0"]], "gamma": "1"}
    for seed in (0, 1, 3):
        out.append({"mdp": mc3, "heuristic": ["-1", "0", "5"], "kind": "regression-absorbing-initial",
                    "margin": "1/100", "seed": seed, "randomize": False, "iterations": 300, "max_log": 600})
    return out


# ---------------------------------------------------------------------------------------------
def run(ctx):
    tier = ctx.tier
    ncases = 100 if tier == "quick" else 3500
    nchains = 24 if tier == "quick" else 500
    nrouting = 30 if tier == "quick" else 600
    ntight = 16 if tier == "quick" else 300
    if ctx.replay_case:
        cases = [ctx.replay_case["detail"]["case"]]
    else:
        cases = [gen_case(ctx.rng, tier) for _ in range(ncases)] + regression_cases() \
            + [gen_chain(ctx.rng, tier) for _ in range(nchains)] \
            + [gen_routing(ctx.rng, tier) for _ in range(nrouting)] + tie_scenarios() + shared_list_scenarios() + none_action_scenarios() + myopic_scenarios() \
            + [gen_tight(ctx.rng, tier) for _ in range(ntight)] \
            + [gen_corridor(ctx.rng, tier) for _ in range(6 if tier == "quick" else 100)] \
            + [gen_long_trial(ctx.rng, tier) for _ in range(2 if tier == "quick" else 20)]
    shards = min(ctx.jobs, 4 if tier == "quick" else 16)
    impl = ctx.impl("c04_impl.py", {"cases": cases}, shards=shards)["results"]
    # chains (one planner object reused on several problems) are judged step by step, each step with
    # its own MDP by the same certificate / replay / prediction / oracle; replay files keep the chain
    cases, impl, origs, steps = flatten(cases, impl)

    terms, meta, preps = [], [], {}
    cnt = {k: 0 for k in ["cases", "cert_checks", "replays", "replay_ops", "predictions", "predicted_calls",
                          "nonmonotone", "nonmonotone_cert_ok", "nonmonotone_cert_rejects", "nonadmissible_skipped",
                          "returned_policy_differs_from_labelled_greedy", "untouched_labelled_states",
                          "recomputed_greedy_differs_from_recorded_action", "regression_cases", "replay_skipped_long", "chain_steps", "chain_later_steps", "soft_unfinished", "exact_ties_distinct_successors", "margin_below_1e-9_of_values", "margin_below_1e-5_of_values", "n_equals_nA", "none_action_returned_at_labelled_state", "single_action_everywhere", "trial_steps_over_1000", "max_states",
                          "absorbing_initial_mass", "zero_prob_initial_entry", "converged_attr_missing",
                          "absorbing_untouched_reads_heuristic", "prediction_near_margin", "prediction_float_tie_drift", "replay_float_noise_drift", "log_overflow",
                          "trials_total", "checks_failed_then_updated"]}
    feats, kinds, margins, distinct, variants = {}, {}, {}, set(), {}
    # exact replay cost: rationals grow with every update; Coq's gcd is quadratic in their length.
    # Measured: dyadic gamma (everything stays dyadic) ~2 s at 150 ops; gamma 9/10, 19/20: 5 s at 100 ops,
    # 17 s at 200.  Longer logs are covered by the certificate only (counted in replay_skipped_long).
    def maxreplay(case):
        tg = case.get("tags", ())
        if case["mdp"]["gamma"] == NEAR_ONE or "tiny_probability" in tg or "tiny_probability_big_reward" in tg:
            return 30                             # 20-40 extra bits per update
        if "nondyadic_numbers" in tg:
            return 100
        dy = F(case["mdp"]["gamma"]).denominator in (1, 2, 4, 8)
        return (250 if tier == "quick" else 300) if dy else 100
    for i, (case, res) in enumerate(zip(cases, impl)):
        cnt["cases"] += 1
        if "error" in res:
            ctx.violation("C04:impl-error:" + res["error"].split(":")[0], {"case": origs[i], "error": res["error"], "trace": res.get("trace")}, found=True)
            continue
        p = prepare(case, res)
        preps[i] = p
        if not p.admissible:                      # outside the quantifier (cannot happen: heuristics are rounded up)
            cnt["nonadmissible_skipped"] += 1
            continue
        kinds[case["kind"]] = kinds.get(case["kind"], 0) + 1
        if res.get("mutated"):
            ctx.violation("C04:planner-mutated-the-problem:" + "+".join(res["mutated"]),
                          {"case": origs[i], "chain_step": steps[i], "mutated": res["mutated"],
                           "correspondence": "the model plans on a fixed MDP; plan_on changed what the caller's MDP object returns"}, found=False)
        if res.get("stale"):
            ctx.violation("C04:result-of-earlier-call-changed-after-later-call",
                          {"case": origs[i], "chain_step": steps[i], "states": res["stale"],
                           "correspondence": "policy / V / labels of a finished plan_on call answered differently after the planner was used again"}, found=False)
        cnt["margin_below_1e-9_of_values"] += int(p.margin * 10**9 < p.scale)
        cnt["margin_below_1e-5_of_values"] += int(p.margin * 10**5 < p.scale)
        cnt["n_equals_nA"] += int(p.n == p.nA)
        cnt["none_action_returned_at_labelled_state"] += int((case.get("repr") or {}).get("labels") == "none"
                                                              and any(p.live[s] and p.pi[s] == 0 for s in range(p.n)))
        cnt["single_action_everywhere"] += int(p.nA == 1)
        cnt["trial_steps_over_1000"] += int(res["trials"] > 0 and res["steps"] / res["trials"] > 1000)
        cnt["max_states"] = max(cnt["max_states"], p.n)
        margins[case["margin"]] = margins.get(case["margin"], 0) + 1
        for k, v in gen_mdp.features(case["mdp"]).items():
            if isinstance(v, bool):
                feats[k] = feats.get(k, 0) + int(v)
        cnt["absorbing_initial_mass"] += int(any(p.absf[s] and p.ini[s] > 0 for s in range(p.n)))
        cnt["zero_prob_initial_entry"] += int(any(F(pp) == 0 for _, pp in case["mdp"]["init"]))
        cnt["converged_attr_missing"] += int(res["converged_attr"] == "missing")
        cnt["untouched_labelled_states"] += sum(1 for s in range(p.n) if p.live[s] and not p.touched[s])
        cnt["absorbing_untouched_reads_heuristic"] += sum(1 for s in range(p.n) if p.absf[s] and not p.touched[s] and p.V[s] != 0)
        cnt["trials_total"] += res["trials"]
        cnt["nonmonotone"] += int(not p.mono_tol)
        cnt["regression_cases"] += int(case["kind"].startswith("regression"))
        rp = case.get("repr") or {}
        shared = bool(rp.get("actions_shared")) and all(a == case["mdp"]["actions"][0] for a in case["mdp"]["actions"])
        for tg in list(case.get("tags", ())) + ["labels_" + rp.get("labels", "int")] + [k for k in
                  ("dist_objects", "dist_shared", "fresh_planner_last", "int_numbers", "no_listener", "seed_none", "touch_views") if rp.get(k)] + \
                  (["actions_one_shared_list"] if shared else ["actions_" + (lambda f: "frozenset" if f == "generator" and not case["randomize"] else f)(rp.get("actions_form") or ("tuple" if rp.get("actions_tuple", True) else "list"))
                                                            + ("_randomized" if case["randomize"] else "")]) + \
                  (["gamma_zero"] if F(case["mdp"]["gamma"]) == 0 else []) + (["np_discount"] if rp.get("np_discount") else []) + \
                  (["max_trial_length"] if rp.get("max_trial_length") is not None else []) + \
                  (["init_" + rp.get("init", "object")]) + (["iterations_cap"] if case["iterations"] <= 2 else []) + \
                  (["gamma_near_one"] if case["mdp"]["gamma"] == NEAR_ONE else []) + (["margin_ge_1"] if F(case["margin"]) >= 1 else []) + \
                  (["single_state"] if p.n == 1 else []):
            variants[tg] = variants.get(tg, 0) + 1
        cnt["exact_ties_distinct_successors"] += int(has_structural_tie(p))
        cnt["chain_steps"] += int(steps[i] is not None)
        cnt["chain_later_steps"] += int(bool(steps[i]))
        cnt["recomputed_greedy_differs_from_recorded_action"] += int(any(
            p.live[s] and p.greedy[s] is not None and int(p.greedy[s]) != p.pi[s] for s in range(p.n)))
        cnt["log_overflow"] += int(res["ops_overflow"])
        distinct.add(vlib.structural_hash([case["mdp"], case["heuristic"], case["margin"], case["seed"], case["randomize"], steps[i]]))
        terms.append(chk_term(p, case, res))
        meta.append(("chk", i))
        mops = machine_ops(res["ops"])
        if res["ops_overflow"] or len(mops) > maxreplay(case):
            cnt["replay_skipped_long"] += 1
        else:
            mt = mdp_term(p, case)
            ordt = ord_term(p, case, res)
            tol = q(p.tiny)       # absolute: 1e-13 * largest operand magnitude (float noise of one look-ahead)
            epsl = q(p.margin + p.tiny)
            opst = coqlist(op_term(o) for o in mops)
            terms.append("rpl %s %s %s %s %s %s %s %s %s" % (mt, epsl, ordt, tol, qlist(p.h), opst, blist(p.solved), qlist(p.V), natlist(p.pi)))
            meta.append(("rpl", i))
            ncalls = sum(1 for o in res["ops"] if o[0] == "C")
            if ncalls:
                terms.append("prd %s %s %s %s %s %s %s" % (mt, q(p.margin), epsl, ordt, supp_term(p, case), qlist(p.h), calls_term(res["ops"])))
                meta.append(("prd", i))
    # certificate terms and replay/prediction terms in separate coqc batches (a slow replay must not
    # take certificate verdicts with it)
    ichk = [k for k, (kd, _) in enumerate(meta) if kd == "chk"]
    irpl = [k for k, (kd, _) in enumerate(meta) if kd != "chk"]
    vals = [None] * len(terms)
    for idx, tag, sh in ((ichk, "cert", 15 if tier == "quick" else 30), (irpl, "replay", 12 if tier == "quick" else 16)):
        for k, v in zip(idx, ctx.coq(PRE, [terms[k] for k in idx], shard=sh, tag=tag)):
            vals[k] = v

    for (kind, i), v in zip(meta, vals):
        case, res, p = cases[i], impl[i], preps[i]
        base = {"case": origs[i]}
        if steps[i] is not None:
            base["chain_step"] = steps[i]
        if isinstance(v, vlib.CoqError):
            ctx.violation("C04:coq-evaluation-failed", dict(base, stage=kind, error=str(v)[:800]), found=False)
            continue
        if kind == "chk":
            cnt["cert_checks"] += 1
            failed = [c for c, okv in zip(CLAUSES, v) if not okv]
            concrete = oracle(p, case, res)
            # non-monotone admissible heuristics are inside the property's quantifier (gating); their
            # margin violations get their own signature (cause: action recomputed from the final table)
            pre = "C04:nonmonotone-admissible-heuristic:" if not p.mono_tol else "C04:"
            for sig, det in concrete:
                ctx.violation((pre if sig in MARGIN_SIGS else "C04:") + sig, dict(base, failing_clause=det, failed_certificate_clauses=failed, monotone_heuristic=p.mono_tol,
                                                 impl={k: res[k] for k in ("V", "solved", "touched", "greedy", "policy", "initial_value", "trials")}), found=True)
            if "c_ret" in failed:
                cnt["returned_policy_differs_from_labelled_greedy"] += 1
            if not p.mono_tol:
                cnt["nonmonotone_cert_ok" if not [c for c in failed if c != "c_ret"] else "nonmonotone_cert_rejects"] += 1
            hard = [c for c in failed if c != "c_ret"]
            if is_soft(case) and any(p.ini[s] > 0 and not p.solved[s] for s in range(p.n)):
                cnt["soft_unfinished"] += 1        # certificate speaks about completed runs; replay/oracle still judge it
                hard = []
            if hard and not concrete:
                ctx.violation(pre + "certificate-rejects:" + "+".join(hard),
                              dict(base, failed_certificate_clauses=failed, monotone_heuristic=p.mono_tol,
                                   correspondence="model/LRTDP.v:c04_check (theorems props/C04.v) rejects the implementation's result",
                                   impl={k: res[k] for k in ("V", "solved", "touched", "greedy", "policy", "initial_value", "trials")}), found=False)
        elif kind == "rpl":
            cnt["replays"] += 1
            cnt["replay_ops"] += len(machine_ops(res["ops"]))
            names = ["guards", "written-values", "final-labels", "final-values", "recorded-actions"]
            failed = [nm for nm, okv in zip(names, v) if not okv]
            if failed and (near_margin(p, res) or float_tie_ambiguous(p, case, res)):
                # tie-breaking / labelling decided inside float noise: unspecified observable, the history diverges
                # legitimately; the certificate and the oracle (same case) still gate
                cnt["replay_float_noise_drift"] += 1
            elif failed:
                diag = None
                if len(ctx.violations) < 40:      # first failing operation (index, 1 = guard / 2 = value), for the replay file
                    mops = machine_ops(res["ops"])
                    dv = ctx.coq(PRE, ["rdiag %s %s %s %s %s %s" % (mdp_term(p, case), q(p.margin + p.tiny), ord_term(p, case, res),
                                                               q(p.tiny), qlist(p.h), coqlist(op_term(o) for o in mops))], tag="diag")
                    if dv and not isinstance(dv[0], vlib.CoqError):
                        k = dv[0][0]
                        diag = {"index": k, "code": dv[0][1], "op": mops[k] if k < len(mops) else None}
                ctx.violation("C04:trace-not-a-run-of-the-machine:" + "+".join(failed),
                              dict(base, failed=failed, first_bad_operation=diag, ops=res["ops"][:400],
                                   correspondence="model/LRTDP.v:replay_check rejects the recorded operation sequence"), found=False)
        else:
            cnt["predictions"] += 1
            cnt["predicted_calls"] += len(v)
            cnt["checks_failed_then_updated"] += sum(1 for o in res["ops"] if o[0] == "C" and not o[2])
            if not all(v):
                # a residual within float distance of the margin makes the comparison ambiguous
                if near_margin(p, res):
                    cnt["prediction_near_margin"] += 1
                elif float_tie_ambiguous(p, case, res):
                    cnt["prediction_float_tie_drift"] += 1
                else:
                    ctx.violation("C04:check-solved-differs-from-mirror",
                                  dict(base, first_bad_call=v.index(False), ops=res["ops"][:400],
                                       correspondence="model/LRTDP.v:check_solved predicts a different flag/closed list"), found=False)

    ctx.coverage.update({
        "evaluations": cnt["cert_checks"] + cnt["replays"] + cnt["predictions"],
        "distinct_nontrivial": len(distinct),
        "rule": "proper MDPs from harness/gen_mdp.py (2..%d states, 1..3 actions, state-dependent action sets, k/8 probabilities, "
                "zero-probability successors and initial entries, exact ties, absorbing states with non-zero self-loop rewards, "
                "gamma in {1/2,3/4,7/8,9/10,19/20,1}) x heuristic family {constant bound, exact, exact+slack, exact with junk at "
                "absorbing states, admissible non-monotone} (rounded UP to doubles) x margin {1e-1,1e-2,1e-4} x seed x "
                "randomize_action_order; plus ROUTING problems (integer step costs, hop-count heuristic: exact ties between actions with "
                "different successors), fixed exact-tie scenarios with shuffled action order (incl. ONE action list object shared by all "
                "states), TIGHT problems (margin 1e-10/1e-12 or rewards 1e8..1e9 with margin 1e-2, stochastic self-loops); plus CHAINS: one LRTDP object planning on A, a perturbed B with the same labels "
                "(re-drawn probabilities/rewards, same successor sets), and A again, every step judged with its own MDP; "
                "distinct = structural hash of (MDP, heuristic, margin, seed, option, chain step); non-trivial = at least one "
                "non-absorbing state (all cases)" % (5 if tier == "quick" else 7),
        "samples": [{"case": cases[0], "impl": {k: impl[0].get(k) for k in ("V", "solved", "touched", "greedy", "initial_value", "trials", "ops")}}] if cases else [],
        "heuristic_kinds": kinds, "margins": margins, "input_features": feats, "variants": variants, **cnt,
    })


def float_tie_ambiguous(p, case, res):
    """Is the greedy choice an unspecified observable somewhere in this run?  True when, for the values the
    implementation actually held (its own floats, read off the log), some state has two near-maximal actions
    with different rows whose look-aheads are (a) different but closer than the float noise 1e-13*scale, or
    (b) exactly equal as rationals but different when accumulated in floating point in the code's own order
    (thirds, tenths, heuristics rounded to doubles).  Then exact arithmetic and floats may legitimately break
    the tie differently and the whole trial history diverges: the log is judged by the certificate and the
    oracle only (drift).  Exact ties that are exact in floats too (integers, dyadics, duplicated rows) are NOT
    ambiguous: there the first action in res.action_orders must win."""
    mc = case["mdp"]
    g = float(p.g)
    rows = {}
    for s in range(p.n):
        for a in range(p.nA):
            if p.av[s][a]:
                rows[(s, a)] = [(ns, float(F(pr)), float(F(mc["reward"].get("%d,%d,%d" % (s, a, ns), "0"))))
                                for ns, pr in mc["trans"]["%d,%d" % (s, a)]]

    erows = {k: sorted((ns, F(pr), F(mc["reward"].get("%d,%d,%d" % (k[0], k[1], ns), "0")) if F(pr) != 0 else F(0))
                       for ns, pr in mc["trans"]["%d,%d" % k]) for k in rows}

    def qfloat(V, s, a):
        qv = 0
        for ns, pr, r in rows[(s, a)]:
            fut = 0 if p.absf[ns] else V[ns]
            qv += pr * (r + g * fut)
        return qv

    def ambiguous(V):
        Ve = [F(x) for x in V]
        for s in range(p.n):
            if p.absf[s]:
                continue
            acts = [a for a in range(p.nA) if p.av[s][a]]
            if len(acts) < 2:
                continue
            qe = {a: lookahead(p.P, p.R, p.absf, p.g, Ve, s, a) for a in acts}
            best = max(qe.values())
            top = [a for a in acts if best - qe[a] <= p.tiny]
            for i, a in enumerate(top):
                for b in top[i + 1:]:
                    if erows[(s, a)] == erows[(s, b)]:       # duplicated action (exactly): same floats, no ambiguity
                        continue
                    if qe[a] != qe[b] or qfloat(V, s, a) != qfloat(V, s, b):
                        return True
        return False

    V = [float(x) for x in p.h]
    if ambiguous(V):
        return True
    for op in res["ops"]:
        if op[0] == "U":
            V[op[1]] = float(vlib.frac(op[2]))
            if ambiguous(V):
                return True
    return False


def near_margin(p, res):
    """does any residual the run may have compared with the margin come within float distance of it?
    (replays the log in Fractions on the implementation's own float values; all actions are tried
    because the greedy action itself may be a float tie)"""
    V = list(p.h)
    tol = p.tiny
    for op in res["ops"]:
        if op[0] == "U":
            V[op[1]] = vlib.frac(op[2])
        elif op[0] == "C":
            for s in range(p.n):
                for a in range(p.nA):
                    if p.av[s][a] and abs(abs(V[s] - lookahead(p.P, p.R, p.absf, p.g, V, s, a)) - p.margin) <= tol:
                        return True
    return False
