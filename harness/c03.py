"""C03 — LAO* with an admissible heuristic returns an optimal closed policy.

Correspondence: generated MDPs (discounted, and undiscounted proper) x admissible heuristics
(constant bound / exact optimum rounded up / optimum plus per-state slack) x seeds 0..3 x
randomize_action_order / randomize_nextstate_order -> msdm LAOStar.plan_on with a recording
LAOStarEventListener (harness/impl/c03_impl.py) ->
 (1) the proved-sound certificate checker model/LAOStar.v:c03_check evaluated by vm_compute on the FINAL
     result: convergence flag, the set C the returned policy (queried at every state) reaches from the
     initial support, closure/availability/determinism of the policy on C, policy-consistency of the
     held values on C, every held value >= exact optimum (exact table from Fraction policy iteration,
     confirmed a fixed point inside Coq), initial value, expected-steps certificate;
 (2) trace conformance model/LAOStar.v:c03_run_raw: every recorded main-loop iteration satisfies the
     abstract machine's guard step_ok (Z revised to a greedy, policy-consistent fixed point with the
     boundary values folded in exactly as laostar.py:308-358 does; nothing else changes; Z closed under
     parents through current best actions), the heuristic is admissible, the final result is the last
     snapshot.
When a clause fails the harness evaluates the property's clauses itself with exact rationals
(policy reachability, exact policy evaluation, exact optimum) to exhibit a concrete failing clause.
"""
import math
from fractions import Fraction as F
import vlib
from vlib import q, qlist, qmat, qten, nat, natlist, bmat, blist, coqlist, b
import gen_mdp
import c01

INFO = {
    "level": "proof",
    "coq_files": ["model/LAOStar.v"],
    "trusted_base": [
        "model/LAOStar.v c03_check / c03_run_raw are evaluated on Q (NumQ); theorems are on R; tied by paramcoq transfer (theory/LAOStarTransfer.v)",
        "generated parameters (gamma, probabilities, rewards) reach the model exactly and msdm as nearest doubles; heuristic values are doubles rounded UP from the exact optimum and reach both sides as the same exact rationals",
        "the set C and the action played on it are computed by the harness from the returned policy queried at every state (closure is re-checked inside Coq)",
        "recording LAOStarEventListener subclass (public hook) snapshots the explicit graph after each main-loop iteration",
        "undiscounted case: the optimum is the harness' exact table (a fixed point of the optimality operator, confirmed in Coq); its uniqueness is proved only for gamma < 1",
    ],
    "assumptions": ["states are the integers 0..n-1 and actions 0..nA-1 of the generated MDP (LAO* never builds state_list)"],
}

PRE = """From Coq Require Import QArith List Bool.
From MSDM Require Import base.Num base.NumInst model.MDP model.VI model.LAOStar.
Import ListNotations.
Local Open Scope Q_scope.
Definition chk nS nA P R av ab ini g conv ex V C pol Pi iv tl Vstar Nst :=
  @c03_check Q NumQ (mk_mdp nS nA P R av ab ini g) (mk_lao conv ex V C pol Pi iv) tl Vstar Nst.
Definition runchk nS nA P R av ab ini g conv ex V C pol Pi iv Vstar r h (l : list (rawstep Q)) :=
  @c03_run_raw Q NumQ (mk_mdp nS nA P R av ab ini g) (mk_lao conv ex V C pol Pi iv) Vstar r h l.
"""

CLAUSES = ["wfb", "c_initdist", "c_conv", "c_closed", "c_det", "c_avail", "c_cons", "c_fix", "c_upper",
           "c_init", "c_steps"]
RUN_CLAUSES = ["wfb", "c_closed", "c_fix", "admissible", "run_ok", "sync_ok"]


def up(x):
    """smallest-effort double >= the rational x"""
    f = float(x)
    if F(f) < x:
        f = math.nextafter(f, math.inf)
    return f


def prep(mdp):
    n, nA = mdp["n"], mdp["nA"]
    P, R, av, absf, ini = gen_mdp.arrays(mdp, list(range(n)), list(range(nA)))
    g = F(mdp["gamma"])
    absorbing, unable = c01.model_masks(P, R, av, absf, g)
    masked = [a or u for a, u in zip(absorbing, unable)]
    return n, nA, P, R, av, absf, ini, g, masked


def gen_sparse(rng, nmax, gamma):
    """larger, sparse, forward-moving MDP (same JSON format as gen_mdp): states are 'main' or 'side';
    every action of a non-absorbing state moves to a higher-numbered state with positive probability
    and the last state is absorbing, hence every policy is proper; cheap main-line steps, costly
    multi-step side chains, so heuristic search leaves reachable states unexplored"""
    n = rng.randint(6, nmax)
    nA = rng.randint(2, 3)
    absorbing = [False] * n
    absorbing[n - 1] = True
    side = [False] + [rng.random() < .45 for _ in range(n - 2)] + [False]
    if rng.random() < .25:
        absorbing[rng.choice(range(n // 2, n - 1))] = True

    def nxt(s, want_side):
        c = [x for x in range(s + 1, n) if side[x] == want_side]
        return c[0] if c and rng.random() < .8 else (rng.choice(c[:3]) if c else rng.randint(s + 1, n - 1))

    actions, trans, reward = [], {}, {}
    for s in range(n):
        acts = sorted(rng.sample(range(nA), rng.randint(1 if side[s] else 2, nA)))
        actions.append(acts)
        for ai, a in enumerate(acts):
            if absorbing[s]:
                trans["%d,%d" % (s, a)] = [[s, "1"]]
                continue
            stay_kind = (ai == 0) or rng.random() < .3      # first action keeps to the same kind of state
            fwd = nxt(s, side[s] if stay_kind else not side[s])
            succ = [fwd]
            if rng.random() < .4:
                other = rng.choice([x for x in range(max(0, s - 2), min(n, s + 4)) if x != fwd])
                succ.append(other)
            ps = gen_mdp._split_prob(rng, len(succ), denom=4)
            if len(succ) == 2 and rng.random() < .5:
                ps = sorted(ps, reverse=True)
            row = [[ns, str(p)] for ns, p in zip(succ, ps)]
            if rng.random() < .1:
                others = [x for x in range(n) if x not in succ]
                row.append([rng.choice(others), "0"])
            rng.shuffle(row)
            trans["%d,%d" % (s, a)] = row
            for ns, p in row:
                cost = rng.randint(0, 2) if not (side[s] or side[ns]) else rng.randint(2, 7)
                r = F(-cost, rng.choice([1, 1, 2]))
                if r != 0:
                    reward["%d,%d,%d" % (s, a, ns)] = str(r)
    mains = [x for x in range(max(1, n // 3)) if not side[x]]
    starts = rng.sample(mains, min(rng.choice([1, 1, 2]), len(mains)))
    ps = gen_mdp._split_prob(rng, len(starts), denom=4)
    init = [[s, str(p)] for s, p in zip(starts, ps)]
    return {"n": n, "nA": nA, "actions": actions, "trans": trans, "reward": reward,
            "absorbing": absorbing, "init": init, "gamma": gamma or rng.choice(gen_mdp.GAMMAS_DISC)}


def gen_case(rng, tier):
    nmax = 7 if tier == "quick" else 10
    gamma = "1" if rng.random() < .3 else None
    sparse = rng.random() < .4
    if sparse:
        m = gen_sparse(rng, 13 if tier == "quick" else 16, gamma)
    else:
        m = gen_mdp.gen_mdp(rng, nmax=nmax, amax=3, gamma=gamma, proper=(gamma == "1"),
                            min_states=rng.choice([1, 2, 3, 4]))
    n, nA, P, R, av, absf, ini, g, masked = prep(m)
    Vs = c01.exact_vstar(P, R, av, masked, g)
    kind = rng.choice(["const", "exact", "slack"] + (["exact", "slack"] if sparse else []))
    if kind == "const":
        c = max([F(0)] + Vs) + rng.choice([0, 1, 5])
        h = [c] * n
    elif kind == "exact":
        h = list(Vs)
    else:
        h = [v + rng.choice([F(0), F(1, 4), F(1), F(3)]) for v in Vs]
    hf = [up(x) for x in h]
    return {"mdp": m, "shape": "sparse" if sparse else "dense", "h": [list(x.as_integer_ratio()) for x in hf], "hkind": kind,
            "seed": rng.randrange(4), "rao": rng.random() < .5, "rno": rng.random() < .5,
            "vstar": [str(v) for v in Vs]}


# ---------------------------------------------------------------------------
# what the harness derives from the implementation's answer
# ---------------------------------------------------------------------------
def policy_matrix(case, res):
    """Pi[s][a] (exact rationals of the returned floats); None for a state where the query raised;
    'bad' entries (action outside 0..nA-1) are reported separately"""
    n, nA = case["mdp"]["n"], case["mdp"]["nA"]
    Pi, alien = [], []
    for s in range(n):
        row = res["policy"][s]
        if isinstance(row, dict):
            Pi.append(None)
            continue
        r = [F(0)] * nA
        for a, p in row:
            if isinstance(p, str):
                alien.append((s, a, p))
                continue
            if not (isinstance(a, int) and 0 <= a < nA):
                if vlib.frac(p) != 0:
                    alien.append((s, a, str(vlib.frac(p))))
                continue
            r[a] += vlib.frac(p)
        Pi.append(r)
    return Pi, alien


def closed_set(case, Pi, P, masked, ini):
    """states reachable from the positive initial support under Pi, episodes ending at masked states"""
    n, nA = case["mdp"]["n"], case["mdp"]["nA"]
    C = set(s for s in range(n) if ini[s] > 0)
    fr = sorted(C)
    while fr:
        s = fr.pop()
        if Pi[s] is None or masked[s]:
            continue
        for a in range(nA):
            if Pi[s][a] > 0:
                for k in range(n):
                    if P[s][a][k] > 0 and k not in C:
                        C.add(k)
                        fr.append(k)
    return C


def expected_steps(n, C, pol, P, masked, g):
    """N = 1 + g * P_pol N on C (masked: N = 1), 0 outside C; None if singular"""
    Cl = sorted(C)
    idx = {s: i for i, s in enumerate(Cl)}
    A = [[F(1) if i == j else F(0) for j in range(len(Cl))] for i in range(len(Cl))]
    for s in Cl:
        if masked[s]:
            continue
        for k in range(n):
            if P[s][pol[s]][k] > 0 and k in idx:
                A[idx[s]][idx[k]] -= g * P[s][pol[s]][k]
    x = c01.solve_linear(A, [F(1)] * len(Cl))
    if x is None or any(v < 1 for v in x):
        return None
    N = [F(0)] * n
    for s in Cl:
        N[s] = x[idx[s]]
    return N


def search_failing(case, res):
    """the property's clauses, evaluated with exact rationals on the implementation's answer"""
    n, nA, P, R, av, absf, ini, g, masked = prep(case["mdp"])
    Vs = [F(x) for x in case["vstar"]]
    scale = max([F(1)] + [abs(x) for x in Vs] + [abs(vlib.frac(x)) for x in case["h"]])
    tiny = F(1, 10**7) * scale
    if not res["converged"]:
        return {"clause": "LAO* does not report convergence", "tips": res.get("tips")}
    for s, v in res["value_map"]:
        if isinstance(v, str) or vlib.frac(v) < Vs[s] - tiny:
            return {"clause": "value held for an explored state is below its optimal value",
                    "state": s, "held": str(v), "optimal": str(Vs[s])}
    Pi, alien = policy_matrix(case, res)
    if alien:
        return {"clause": "returned policy picks an action that is not available", "entries": alien[:3]}
    for s in range(n):
        if Pi[s] is None:
            continue
        for a in range(nA):
            if Pi[s][a] < 0 or (Pi[s][a] > 0 and not av[s][a]):
                return {"clause": "returned policy picks an action that is not available", "state": s, "action": a}
    C = closed_set(case, Pi, P, masked, ini)
    for s in sorted(C):
        if Pi[s] is None:
            return {"clause": "returned policy is undefined on a state it reaches", "state": s,
                    "error": res["policy"][s]["error"]}
        if abs(sum(Pi[s]) - 1) > F(1, 10**9):
            return {"clause": "returned policy is not a distribution on a state it reaches", "state": s}
    Cl = sorted(C)
    idx = {s: i for i, s in enumerate(Cl)}
    A = [[F(1) if i == j else F(0) for j in range(len(Cl))] for i in range(len(Cl))]
    rhs = [F(0)] * len(Cl)
    for s in Cl:
        if masked[s]:
            continue
        for a in range(nA):
            if Pi[s][a] > 0:
                for k in range(n):
                    if P[s][a][k] > 0:
                        A[idx[s]][idx[k]] -= g * Pi[s][a] * P[s][a][k]
                        rhs[idx[s]] += Pi[s][a] * P[s][a][k] * R[s][a][k]
    Vpi = c01.solve_linear(A, rhs)
    opt = sum(ini[s] * Vs[s] for s in range(n))
    if Vpi is None:
        return {"clause": "returned policy never terminates from some reachable state (undiscounted)"}
    ret = sum(ini[s] * Vpi[idx[s]] for s in Cl)
    if abs(ret - opt) > tiny:
        return {"clause": "exactly evaluated return of the returned policy is not optimal",
                "return": str(ret), "optimal": str(opt)}
    iv = res["initial_value"]
    if isinstance(iv, str) or abs(vlib.frac(iv) - opt) > tiny:
        return {"clause": "initial value differs from the optimal value of the initial distribution",
                "initial_value": str(iv), "optimal": str(opt)}
    return None


def terms_for(case, res):
    n, nA, P, R, av, absf, ini, g, masked = prep(case["mdp"])
    Vs = [F(x) for x in case["vstar"]]
    hq = [vlib.frac(x) for x in case["h"]]
    scale = max([F(1)] + [abs(x) for x in Vs] + [abs(x) for x in hq])
    rho = F(1, 10**9) * scale
    mt = " ".join([nat(n), nat(nA), qten(P), qten(R), bmat(av), blist(absf), qlist(ini), q(g)])
    held = {s: vlib.frac(v) for s, v in res["value_map"]}
    ex = [s in held for s in range(n)]
    V = [held.get(s, F(0)) for s in range(n)]
    Pi, alien = policy_matrix(case, res)
    C = closed_set(case, Pi, P, masked, ini)
    pol = []
    for s in range(n):
        if s in C and Pi[s] is not None and max(Pi[s]) > 0:
            pol.append(max(range(nA), key=lambda a: Pi[s][a]))
        else:
            pol.append(0)
    PiQ = [(r if r is not None else [F(0)] * nA) for r in Pi]
    if g < 1:
        N = [1 / (1 - g)] * n
    else:
        N = expected_steps(n, C, pol, P, masked, g) or [F(0)] * n
    conv = bool(res["converged"]) and not alien
    lao = " ".join([b(conv), blist(ex), qlist(V), blist([s in C for s in range(n)]), natlist(pol),
                    qmat(PiQ), q(res["initial_value"])])
    tl = "(mkLtols %s %s %s %s)" % (q(rho), q(rho), q(rho), q(F(1, 10**12)))
    t_chk = "chk %s %s %s %s %s" % (mt, lao, tl, qlist(Vs), qlist(N))
    # trace
    steps = []
    for st in res["trace"]:
        nodes = {x[0]: x for x in st["nodes"]}
        E = [bool(nodes[s][3]) if s in nodes else False for s in range(n)]
        Vk = [vlib.frac(nodes[s][1]) if s in nodes else hq[s] for s in range(n)]
        pk = [int(nodes[s][2]) if s in nodes and isinstance(nodes[s][2], int) and 0 <= nodes[s][2] < nA else nA
              for s in range(n)]
        Z = [s in st["Z"] for s in range(n)]
        x = st["expand"][0] if len(st["expand"]) == 1 else n
        steps.append("(%s, %s, %s, %s, %s)" % (nat(x), blist(Z), blist(E), qlist(Vk), natlist(pk)))
    t_run = "runchk %s %s %s %s %s %s" % (mt, lao, qlist(Vs), q(rho), qlist(hq), coqlist(steps))
    # mirror of update_ancestors_of, one term per iteration: graph as it is after expand_at(x), before the revision
    m = case["mdp"]
    listed = lambda s, a: [ns for ns, p in m["trans"]["%d,%d" % (s, a)]]
    anc_terms = []
    prev = {}
    for st in res["trace"]:
        nodes = {x[0]: x for x in st["nodes"]}
        if len(st["expand"]) != 1:
            prev = nodes
            continue
        x = st["expand"][0]
        Epre = sorted(set(s for s, nd in prev.items() if nd[3]) | {x})
        polpre = {s: (prev[s][2] if s in prev and prev[s][2] in m["actions"][s] else m["actions"][s][0]) for s in Epre}
        succ = [listed(s, polpre[s]) if s in polpre else [] for s in range(n)]
        plist = [[p for p in Epre if any(k in listed(p, a) for a in m["actions"][p])] for k in range(n)]
        Z = [s in st["Z"] for s in range(n)]
        anc_terms.append("anc_chk %s %s %s %s %s" % (nat(n), coqlist(natlist(r) for r in plist),
                                                   coqlist(natlist(r) for r in succ), nat(x), blist(Z)))
        prev = nodes
    t_anc = coqlist(anc_terms)
    info = {"nC": len(C), "nExplored": sum(ex), "n": n, "steps": len(steps),
            "pruned": sum(ex) < len(gen_mdp.reachable(case["mdp"])),
            "sol_eq_C": set(res["solution_states"]) == C}
    return t_chk, t_run, t_anc, info


def run(ctx):
    tier = ctx.tier
    ncases = 90 if tier == "quick" else 900
    if ctx.replay_case:
        cases = [ctx.replay_case["detail"]["case"]]
    else:
        cases = [gen_case(ctx.rng, tier) for _ in range(ncases)]
    impl = ctx.impl("c03_impl.py", {"cases": cases}, shards=min(ctx.jobs, 4 if tier == "quick" else 8))["results"]
    terms, meta = [], []
    feats, infos = {}, []
    for i, (case, res) in enumerate(zip(cases, impl)):
        if "error" in res:
            ctx.violation("C03:laostar-raises:" + res["error"].split(":")[0],
                          {"case": case, "error": res["error"], "trace": res.get("trace")}, found=True)
            continue
        t_chk, t_run, t_anc, info = terms_for(case, res)
        infos.append(info)
        terms += [t_chk, t_run, t_anc]
        meta += [("chk", i), ("run", i), ("anc", i)]
        f = gen_mdp.features(case["mdp"])
        f["absorbing_initial"] = any(case["mdp"]["absorbing"][s] for s, p in case["mdp"]["init"] if F(p) > 0)
        f["h_" + case["hkind"]] = True
        f["shape_" + case.get("shape", "dense")] = True
        f["rao"], f["rno"] = case["rao"], case["rno"]
        f["seed_%d" % case["seed"]] = True
        for k, v in f.items():
            if isinstance(v, bool):
                feats[k] = feats.get(k, 0) + int(v)
    vals = ctx.coq(PRE, terms, shard=12 if tier == "quick" else 36)
    nchk = nrun = nanc = anc_drift = 0
    anc_bad = []
    distinct = set()
    reported = set()
    for (kind, i), v in zip(meta, vals):
        case, res = cases[i], impl[i]
        if isinstance(v, vlib.CoqError):
            ctx.violation("C03:coq-evaluation-failed", {"case": case, "kind": kind, "error": str(v)[:800]}, found=False)
            continue
        if kind == "anc":
            nanc += len(v)
            if not all(v):
                anc_drift += 1     # mirror of update_ancestors_of differs; run_ok (proved guard) decides
                if i not in anc_bad:
                    anc_bad.append(i)
            continue
        names = CLAUSES if kind == "chk" else RUN_CLAUSES
        if not isinstance(v, list) or len(v) != len(names):
            ctx.violation("C03:coq-evaluation-failed", {"case": case, "kind": kind, "error": "unexpected value %r" % (v,)}, found=False)
            continue
        failed = [c for c, okv in zip(names, v) if not okv]
        if kind == "chk":
            nchk += 1
            if len(res["nodes"]) > 1:
                distinct.add(vlib.structural_hash([case["mdp"], case["h"], case["seed"], case["rao"], case["rno"]]))
        else:
            nrun += 1
        if failed and i not in reported:
            reported.add(i)
            why = search_failing(case, res)
            detail = {"case": case, "failed_clauses": failed, "checker": kind,
                      "impl": {k: res[k] for k in ("converged", "iterations", "initial_value", "value_map",
                                                   "solution_states", "tips", "policy")}}
            if why:
                detail["failing_clause"] = why
                ctx.violation("C03:" + why["clause"], detail, found=True)
            else:
                detail["correspondence"] = ("model/LAOStar.v:%s (theorems props/C03.v) rejects the implementation's %s"
                                            % ("c03_check" if kind == "chk" else "c03_run_raw", "result" if kind == "chk" else "recorded run"))
                ctx.violation("C03:%s-rejects:%s" % ("certificate" if kind == "chk" else "run", "+".join(failed)), detail, found=False)
    ctx.coverage.update({
        "evaluations": nchk + nrun + nanc,
        "distinct_nontrivial": len(distinct),
        "rule": "MDPs from harness/gen_mdp.py (1..%d states, 1..3 actions, state-dependent action sets, k/8 probabilities, zero entries, duplicate rows, explicit/implicit absorbing states incl. absorbing initial states, multi-state initial distributions; gamma in {1/2,3/4,7/8,9/10,19/20}, or gamma = 1 with a proper MDP); heuristic in {constant upper bound, exact optimum rounded up to a double, optimum + per-state slack}; seed 0..3; randomize_action_order / randomize_nextstate_order on/off; distinct = structural hash of (MDP, heuristic, seed, flags); non-trivial = explicit graph with more than one node" % (7 if tier == "quick" else 10),
        "samples": [{"case": cases[0], "impl": {k: impl[0].get(k) for k in ("converged", "initial_value", "value_map", "policy")}}] if cases else [],
        "certificate_checks": nchk, "run_checks": nrun,
        "ancestor_mirror_evaluations": nanc, "ancestor_mirror_drift_cases": anc_drift,
        "main_loop_iterations_checked": sum(x["steps"] for x in infos),
        "cases_with_unexplored_reachable_states": sum(1 for x in infos if x["pruned"]),
        "cases_C_smaller_than_explored": sum(1 for x in infos if x["nC"] < x["nExplored"]),
        "cases_solution_graph_differs_from_C": sum(1 for x in infos if not x["sol_eq_C"]),
        "input_features": feats, "cases": len(cases),
    })
