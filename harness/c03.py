"""C03 — LAO* with an admissible heuristic returns an optimal closed policy.

Correspondence: generated MDPs (discounted, and undiscounted proper) x admissible heuristics
(constant bound / exact optimum rounded up / optimum plus per-state slack) x seeds 0..3 x
randomize_action_order / randomize_nextstate_order -> msdm LAOStar.plan_on with a recording
LAOStarEventListener (harness/impl/c03_impl.py) ->
 (1) the proved-sound certificate checker model/LAOStar.v:c03_check evaluated by vm_compute on the FINAL
     result: convergence flag, the set C the returned policy (queried at every state) reaches from the
     initial support, closure/availability/determinism of the policy on C, policy-consistency of the
     held values on C, every held value >= exact optimum (exact table from Fraction policy iteration,
     confirmed a fixed point inside Coq), initial value, expected-steps certificate;
 (2) trace conformance model/LAOStar.v:c03_run_raw: every recorded main-loop iteration satisfies the
     abstract machine's guard step_ok (Z revised to a greedy, policy-consistent fixed point with the
     boundary values folded in exactly as laostar.py:308-358 does; nothing else changes; Z closed under
     parents through current best actions), the heuristic is admissible, the final result is the last
     snapshot.
Input families: random (dense / sparse / corridor + tweaks), neartie, ladder (dependent near-ties: several chained
policy-improvement steps inside ONE revision), large, longchain; declared-absorbing states with their own action sets
and outgoing rows; representations incl. from_matrices and is_absorbing returning 0/1 integers (docs/C03.md section 4).
When a clause fails the harness evaluates the property's clauses itself with exact rationals
(policy reachability, exact policy evaluation, exact optimum) to exhibit a concrete failing clause.
"""
import json
import math
import os
import threading
from fractions import Fraction as F
import vlib
from vlib import q, qlist, qmat, qten, nat, natlist, bmat, blist, coqlist, b
import gen_mdp
import c01

INFO = {
    "level": "proof",
    "coq_files": ["model/LAOStar.v", "theory/LAOStarProper.v"],
    "trusted_base": [
        "model/LAOStar.v c03_check / c03_run_raw are evaluated on Q (NumQ); theorems are on R; tied by paramcoq transfer (theory/LAOStarTransfer.v)",
        "generated parameters (gamma, probabilities, rewards) reach the model exactly and msdm as nearest doubles; heuristic values are doubles rounded UP from the exact optimum and reach both sides as the same exact rationals",
        "the set C and the action played on it are computed by the harness from the returned policy queried at every state (closure is re-checked inside Coq)",
        "recording LAOStarEventListener subclass (public hook) snapshots the explicit graph after each main-loop iteration",
        "family 'large' (~1100 states, default constructor arguments) is judged by the Python exact oracle only (convergence flag, optimum by exact backward induction, exact policy return, closure/consistency in Python); the Coq certificate is not evaluated at that size",
        "undiscounted case: the optimum is the harness' exact table (a fixed point of the optimality operator, confirmed in Coq); its uniqueness is proved only for gamma < 1",
    ],
    "assumptions": ["states are the integers 0..n-1 and actions 0..nA-1 of the generated MDP (LAO* never builds state_list)"],
}

PRE = """From Coq Require Import QArith List Bool.
From MSDM Require Import base.Num base.NumInst model.MDP model.VI model.LAOStar theory.LAOStarProper.
Import ListNotations.
Local Open Scope Q_scope.
Definition chk nS nA P R av ab ini g conv ex V C pol Pi iv tl Vstar Nst :=
  @c03_check Q NumQ (mk_mdp nS nA P R av ab ini g) (mk_lao conv ex V C pol Pi iv) tl Vstar Nst.
Definition pchk nS nA P R av ab ini g conv ex V C pol Pi iv tl Vstar W :=
  @c03_proper_check Q NumQ (mk_mdp nS nA P R av ab ini g) (mk_lao conv ex V C pol Pi iv) tl Vstar W.
Definition runchk nS nA P R av ab ini g conv ex V C pol Pi iv Vstar r h (l : list (rawstep Q)) :=
  @c03_run_raw Q NumQ (mk_mdp nS nA P R av ab ini g) (mk_lao conv ex V C pol Pi iv) Vstar r h l.
"""

CLAUSES = ["wfb", "c_initdist", "c_conv", "c_closed", "c_det", "c_avail", "c_cons", "c_fix", "c_upper",
           "c_init", "c_steps"]
PROPER_CLAUSES = CLAUSES[:-1] + ["c_proper"]
RUN_CLAUSES = ["wfb", "c_closed", "c_fix", "admissible", "run_ok", "sync_ok"]


def up(x):
    """smallest-effort double >= the rational x"""
    f = float(x)
    if F(f) < x:
        f = math.nextafter(f, math.inf)
    return f


def scale_of(Vs, hq, exclude=()):
    """magnitude the float tolerances are relative to: the largest optimal / heuristic value, EXCEPT at the
    appended 'treasure' state of add_jackpots (index in `exclude`): its value is a single exact product
    (reward c * 2^k, k >= 30) and reaches every other value only multiplied by 2^-k, so it adds no
    floating-point noise; letting it into the scale would blow the tolerances up by >= 1e9"""
    return max([F(1)] + [abs(x) for i, x in enumerate(Vs) if i not in exclude]
               + [abs(x) for i, x in enumerate(hq) if i not in exclude])


def excluded(case):
    t = ((case.get("tweak") or {}).get("jackpots") or {}).get("treasure")
    if t and len(case["vstar"]) > t["state"] and not case.get("other_problem"):
        return {t["state"]}
    return set()


def tolerances(scale):
    """rho: 10-decimal rounding of the arg-max in _policy_iteration (< 1e-10 between tied actions) plus
    float noise of the linear solve; ups: slack of 'held value >= optimum' and of the initial value"""
    return F(2, 10**10) + F(1, 10**12) * scale, F(1, 10**9) + F(1, 10**11) * scale


def prep(mdp):
    n, nA = mdp["n"], mdp["nA"]
    P, R, av, absf, ini = gen_mdp.arrays(mdp, list(range(n)), list(range(nA)))
    g = F(mdp["gamma"])
    absorbing, unable = c01.model_masks(P, R, av, absf, g)
    masked = [a or u for a, u in zip(absorbing, unable)]
    return n, nA, P, R, av, absf, ini, g, masked


def gen_sparse(rng, nmax, gamma):
    """larger, sparse, forward-moving MDP (same JSON format as gen_mdp): states are 'main' or 'side';
    every action of a non-absorbing state moves to a higher-numbered state with positive probability
    and the last state is absorbing, hence every policy is proper; cheap main-line steps, costly
    multi-step side chains, so heuristic search leaves reachable states unexplored"""
    n = rng.randint(6, nmax)
    nA = rng.randint(2, 3)
    absorbing = [False] * n
    absorbing[n - 1] = True
    side = [False] + [rng.random() < .45 for _ in range(n - 2)] + [False]
    if rng.random() < .25:
        absorbing[rng.choice(range(n // 2, n - 1))] = True

    def nxt(s, want_side):
        c = [x for x in range(s + 1, n) if side[x] == want_side]
        return c[0] if c and rng.random() < .8 else (rng.choice(c[:3]) if c else rng.randint(s + 1, n - 1))

    actions, trans, reward = [], {}, {}
    for s in range(n):
        acts = sorted(rng.sample(range(nA), rng.randint(1 if side[s] else 2, nA)))
        actions.append(acts)
        for ai, a in enumerate(acts):
            if absorbing[s]:
                trans["%d,%d" % (s, a)] = [[s, "1"]]
                continue
            stay_kind = (ai == 0) or rng.random() < .3      # first action keeps to the same kind of state
            fwd = nxt(s, side[s] if stay_kind else not side[s])
            succ = [fwd]
            if rng.random() < .4:
                other = rng.choice([x for x in range(max(0, s - 2), min(n, s + 4)) if x != fwd])
                succ.append(other)
            ps = gen_mdp._split_prob(rng, len(succ), denom=4)
            if len(succ) == 2 and rng.random() < .5:
                ps = sorted(ps, reverse=True)
            row = [[ns, str(p)] for ns, p in zip(succ, ps)]
            if rng.random() < .1:
                others = [x for x in range(n) if x not in succ]
                row.append([rng.choice(others), "0"])
            rng.shuffle(row)
            trans["%d,%d" % (s, a)] = row
            for ns, p in row:
                cost = rng.randint(0, 2) if not (side[s] or side[ns]) else rng.randint(2, 7)
                r = F(-cost, rng.choice([1, 1, 2]))
                if r != 0:
                    reward["%d,%d,%d" % (s, a, ns)] = str(r)
    mains = [x for x in range(max(1, n // 3)) if not side[x]]
    starts = rng.sample(mains, min(rng.choice([1, 1, 2]), len(mains)))
    ps = gen_mdp._split_prob(rng, len(starts), denom=4)
    init = [[s, str(p)] for s, p in zip(starts, ps)]
    return {"n": n, "nA": nA, "actions": actions, "trans": trans, "reward": reward,
            "absorbing": absorbing, "init": init, "gamma": gamma or rng.choice(gen_mdp.GAMMAS_DISC)}


def perturb(rng, m, nonpos):
    """MDP with the SAME state/action labels, action sets, absorbing flags, successor supports and
    initial distribution as m, but re-drawn probabilities and rewards (properness is preserved:
    supports do not change)"""
    b = json.loads(json.dumps(m))
    b["trans"], b["reward"] = {}, {}
    for key, row in m["trans"].items():
        s, a = map(int, key.split(","))
        pos = [ns for ns, p in row if F(p) > 0]
        zero = [ns for ns, p in row if F(p) == 0]
        if m["absorbing"][s] or len(pos) > 7 or any(0 < F(p) < F(1, 2**20) for ns, p in row):
            b["trans"][key] = [list(x) for x in row]
            for ns in pos:
                k3 = "%d,%d,%d" % (s, a, ns)
                if k3 in m["reward"]:
                    b["reward"][k3] = m["reward"][k3]
            continue
        ps = gen_mdp._split_prob(rng, len(pos), denom=8)
        rng.shuffle(ps)
        b["trans"][key] = [[ns, str(p)] for ns, p in zip(pos, ps)] + [[ns, "0"] for ns in zero]
        for ns in pos:
            r = F(rng.randint(-12, 0 if nonpos else 12), rng.choice([1, 2, 4]))
            if r != 0:
                b["reward"]["%d,%d,%d" % (s, a, ns)] = str(r)
    return b


def extreme_probs(rng, m):
    """one stochastic row gets probabilities (1 - 2^-k, 2^-k), k in {20, 30} (supports unchanged)"""
    rows = [key for key, row in m["trans"].items()
            if not m["absorbing"][int(key.split(",")[0])] and sum(1 for ns, p in row if F(p) > 0) == 2]
    if not rows:
        return False
    key = rng.choice(rows)
    eps = F(1, 2**rng.choice([20, 30]))
    ps = [1 - eps, eps]
    rng.shuffle(ps)
    it = iter(ps)
    m["trans"][key] = [[ns, (str(next(it)) if F(p) > 0 else "0")] for ns, p in m["trans"][key]]
    return True


def add_jackpots(rng, m, nonpos):
    """rare branches that matter: 1-2 rows get an extra successor with probability p = 2^-k, k in 27..60
    (below np.isclose's default atol 1e-8; msdm gets the nearest doubles, so for k > 50 the other entries of the row are not rescaled in floating point), the rest of the row scaled by 1 - p (all dyadic, exact doubles).
    The rare branch goes to an absorbing state or an arbitrary other state with reward +-c/p, or (reward 0)
    to an appended 'treasure' state that is reachable only through rare branches and pays c/p on its way to
    an absorbing state - so the large value enters through the boundary value of a not-yet-expanded node.
    Optionally a 2^-k entry in the initial distribution.  Returns a description, or None if not applicable."""
    n = m["n"]
    rows = [key for key in m["trans"] if not m["absorbing"][int(key.split(",")[0])]]
    absorbing = [s for s in range(n) if m["absorbing"][s]]
    if not rows:
        return None
    info = {"rows": [], "treasure": None, "init": None}
    sign = lambda: -1 if (nonpos or rng.random() < .4) else 1
    treasure = None
    if absorbing and rng.random() < .55:
        treasure = n
        kT = rng.randint(30, 60)        # with c >= 1 below: value >= 2^30, see scale_of
        a = rng.randrange(m["nA"])
        m["n"] = n + 1
        m["actions"].append([a])
        m["absorbing"].append(False)
        g = rng.choice(absorbing)
        m["trans"]["%d,%d" % (treasure, a)] = [[g, "1"]]
        m["reward"]["%d,%d,%d" % (treasure, a, g)] = str(sign() * F(rng.randint(4, 32), 4) * 2**kT)
        info["treasure"] = {"state": treasure, "k": kT}
    for key in rng.sample(rows, min(len(rows), rng.choice([1, 1, 2]))):
        s, a = map(int, key.split(","))
        row = m["trans"][key]
        inrow = {ns for ns, p in row}
        k = info["treasure"]["k"] if treasure is not None and not info["rows"] else rng.randint(27, 60)
        p = F(1, 2**k)
        if treasure is not None and not info["rows"]:
            tgt, r = treasure, F(0)
        else:
            cands = [x for x in (absorbing if rng.random() < .6 else range(n)) if x not in inrow and x != s]
            if not cands:
                continue
            tgt = rng.choice(cands)
            r = sign() * F(rng.randint(1, 32), 4) * 2**k
        m["trans"][key] = [[ns, str(F(q) * (1 - p))] for ns, q in row] + [[tgt, str(p)]]
        rng.shuffle(m["trans"][key])
        if r != 0:
            m["reward"]["%d,%d,%d" % (s, a, tgt)] = str(r)
        info["rows"].append({"row": key, "target": tgt, "k": k})
    if not info["rows"]:
        return None
    if rng.random() < .35:
        ini = {s for s, p in m["init"]}
        cands = [x for x in range(m["n"]) if x not in ini]
        if cands:
            k = info["treasure"]["k"] if treasure is not None and treasure in cands else rng.randint(27, 40)
            tgt = treasure if treasure is not None and treasure in cands else rng.choice(cands)
            p = F(1, 2**k)
            m["init"] = [[s, str(F(q) * (1 - p))] for s, q in m["init"]] + [[tgt, str(p)]]
            info["init"] = {"state": tgt, "k": k}
    return info


def add_slow_exit(rng, m):
    """undiscounted only: an appended state W whose ONLY route to termination has probability 2^-k
    (k in 27..32; zero-reward self-loop otherwise) and pays r on exit, so V*(W) = r exactly although the
    exit takes 2^k expected steps; some ordinary row is redirected to W with ordinary probability"""
    n = m["n"]
    absorbing = [s for s in range(n) if m["absorbing"][s]]
    rows = [key for key, row in m["trans"].items()
            if not m["absorbing"][int(key.split(",")[0])] and sum(1 for ns, p in row if F(p) > 0) >= 2]
    if F(m["gamma"]) != 1 or not absorbing or not rows:
        return None
    k = rng.randint(27, 32)
    W, a, g = n, rng.randrange(m["nA"]), rng.choice(absorbing)
    m["n"] = n + 1
    m["actions"].append([a])
    m["absorbing"].append(False)
    m["trans"]["%d,%d" % (W, a)] = [[W, str(1 - F(1, 2**k))], [g, str(F(1, 2**k))]]
    m["reward"]["%d,%d,%d" % (W, a, g)] = str(-F(rng.randint(1, 24), 4))
    key = rng.choice(rows)
    s0, a0 = map(int, key.split(","))
    row = m["trans"][key]
    j = rng.choice([i for i, (ns, p) in enumerate(row) if F(p) > 0])
    half = F(row[j][1]) / 2           # supports only grow, so properness is kept (W itself is proper)
    row[j][1] = str(half)
    row.append([W, str(half)])
    m["reward"]["%d,%d,%d" % (s0, a0, W)] = str(-F(rng.randint(0, 8), 4))
    if m["reward"]["%d,%d,%d" % (s0, a0, W)] == "0":
        del m["reward"]["%d,%d,%d" % (s0, a0, W)]
    return {"state": W, "k": k, "from": key}


def nondyadic(rng, m, nonpos):
    """probabilities / rewards that are not exact doubles: thirds, tenths, sevenths (0.7/0.2/0.1, rows whose
    float sum is not exactly 1.0); supports unchanged, so properness is kept.  The model gets the rationals,
    msdm the nearest doubles"""
    two = [(F(1, 3), F(2, 3)), (F(1, 10), F(9, 10)), (F(3, 7), F(4, 7)), (F(7, 10), F(3, 10))]
    three = [(F(1, 3), F(1, 3), F(1, 3)), (F(7, 10), F(2, 10), F(1, 10)), (F(1, 7), F(2, 7), F(4, 7))]
    cnt = 0
    for key, row in list(m["trans"].items()):
        s, a = map(int, key.split(","))
        pos = [ns for ns, p in row if F(p) > 0]
        if m["absorbing"][s] or len(pos) not in (1, 2, 3):
            continue
        if len(pos) > 1:
            ps = list(rng.choice(two if len(pos) == 2 else three))
            rng.shuffle(ps)
            it = iter(ps)
            m["trans"][key] = [[ns, (str(next(it)) if F(p) > 0 else "0")] for ns, p in row]
            cnt += 1
        for ns in pos:
            r = F(rng.randint(-30, 0 if nonpos else 30), rng.choice([3, 7, 10]))
            k3 = "%d,%d,%d" % (s, a, ns)
            if r != 0:
                m["reward"][k3] = str(r)
            else:
                m["reward"].pop(k3, None)
    pos = [(s, p) for s, p in m["init"] if F(p) > 0]
    if len(pos) in (2, 3):
        ps = list(rng.choice(two if len(pos) == 2 else three))
        it = iter(ps)
        m["init"] = [[s, (str(next(it)) if F(p) > 0 else "0")] for s, p in m["init"]]
    # a row of ten 0.1s (its float sum is 0.9999999999999999)
    ten = False
    n = m["n"]
    if n >= 11:
        cands = [key for key in m["trans"] if not m["absorbing"][int(key.split(",")[0])]]
        if cands:
            key = rng.choice(cands)
            s = int(key.split(",")[0])
            succ = [n - 1] + rng.sample([x for x in range(n - 1) if x != s], 9)
            for ns, p in m["trans"][key]:
                m["reward"].pop("%s,%d" % (key, ns), None)
            m["trans"][key] = [[ns, "1/10"] for ns in succ]
            for ns in succ:
                m["reward"]["%s,%d" % (key, ns)] = str(F(-rng.randint(0, 30), 10))
            ten = True
    return {"rows": cnt, "ten_tenths_row": ten}


def gen_chain(rng, n, gamma):
    """corridor of n states (n not a power of two): action 0 steps +1, action 1 steps +2 (or +1 at the end),
    occasionally slipping back; the optimal path has up to n - 1 steps"""
    absorbing = [False] * (n - 1) + [True]
    actions, trans, reward = [], {}, {}
    for s in range(n):
        if absorbing[s]:
            actions.append([0])
            trans["%d,0" % s] = [[s, "1"]]
            continue
        actions.append([0, 1])
        for a in (0, 1):
            t = min(n - 1, s + 1 + a)
            row = [[t, "1"]]
            if s > 0 and rng.random() < .2:
                row = [[t, "3/4"], [s - 1, "1/4"]]
            trans["%d,%d" % (s, a)] = row
            for ns, p in row:
                reward["%d,%d,%d" % (s, a, ns)] = str(-F(rng.randint(1, 4) + 2 * a, rng.choice([1, 2])))
    return {"n": n, "nA": 2, "actions": actions, "trans": trans, "reward": reward, "absorbing": absorbing,
            "init": [[0, "1"]], "gamma": gamma or rng.choice(gen_mdp.GAMMAS_DISC)}


def scale_rewards(m, k):
    m["reward"] = {key: str(F(r) * k) for key, r in m["reward"].items()}


def gen_rep(rng, multi):
    """how the MDP / heuristic are handed to msdm (harness/impl/c03_impl.py build_rep); results always
    come back by state / action index"""
    fz = ["int0", "float0", "empty_str", "empty_tuple", "false"]
    return {
        # none:<j> = the state / action with index j (mod size) carries the label None itself (seeded C03-21): unlike the
        # falsy labels it is also indistinguishable from "no entry" for dict.get / `is not None` tests
        "labels": rng.choice(["int", "int", "perm", "str", "tuple", "falsy:" + rng.choice(fz), "none:%d" % rng.randrange(6)]),
        "alabels": rng.choice(["int", "int", "str", "falsy:" + rng.choice(fz), "none:%d" % rng.randrange(3),
                               "none:%d" % rng.randrange(3)]),
        "dist": rng.choice(["dict", "mixed"]),
        "actions_as": rng.choice(["tuple", "list"]),
        # from_matrices = the public array constructor TabularMarkovDecisionProcess.from_matrices (seeded C03-17)
        "cls": rng.choice(["tabular", "tabular", "quick", "from_matrices"]),
        "matrices_int": rng.random() < .5,     # from_matrices: integer-typed action / reward arrays where integral
        # what is_absorbing RETURNS: bool, or a truthy / falsy 0/1 number - an integer indicator vector handed to
        # from_matrices (its is_absorbing returns the raw np.int64 entry), a wrapper class returning int (C03-17)
        "absorbing_as": rng.choice(["bool", "bool", "int", "np.int64", "np.bool_"]),
        "init_as": rng.choice(["dist", "state"]),
        "gamma_int": rng.random() < .5,
        # form of the heuristic argument (impl: make_heuristic); the numeric forms apply to constant bounds.
        # np.float32 only with C03_FLOAT32=1 (float32 arithmetic loses precision on the unchanged msdm, reported)
        # NOT np.bool_: NumPy defines no arithmetic negation / subtraction for its boolean scalar (`-np.True_` raises
        # TypeError), so it is not a number type a real-valued heuristic can have - a rewrite that is harmless for every
        # numeric type (benign C03-3 sorts tips by `-value`) raises with it.  Python bool is an int and stays.
        "h_as": rng.choice(["callable", "partial", "callable_object", "bound_method", "float", "int", "bool", "Fraction",
                            "np.int64", "np.int64", "np.int32", "np.float64", "np.float64", "array0d"]
                           + (["np.float32"] if os.environ.get("C03_FLOAT32") else [])
                           # unsigned scalars: with integer-typed rewards/discount NumPy 2 keeps uint8 and overflows (reported)
                           + (["np.uint8"] if os.environ.get("C03_UINT8") else [])),
        "mdp_reuse": multi and rng.random() < .6,
        "touch": rng.random() < .3,
        "share": rng.random() < .5,            # one list / distribution object handed out for equal rows
        "int_numbers": rng.random() < .4,      # integral rewards / probabilities passed as Python ints
        # rewards exactly representable in float32 passed as np.float32: OFF by default - on the unchanged msdm this
        # loses precision (NumPy 2 scalar promotion in _state_nodes_to_matrices, reported); C03_FLOAT32=1 turns it on
        "float32_rewards": bool(os.environ.get("C03_FLOAT32")) and rng.random() < .25,
    }


def gen_neartie(rng):
    """near-tie + long return time: a chain of k states, each with two actions that have IDENTICAL
    transitions (stay with probability 1 - 2^-10, move on with 2^-10) and per-step rewards that
    differ by delta in [2^-22, 2^-21]; the Q gap (delta, about 3e-7) is far above the 10-decimal
    rounding of laostar.py's arg-max but choosing the worse action loses delta * ~1024 (2.4e-4 ..
    4.9e-4) of return.  All numbers are dyadic (exact doubles).  Which action id is the better one,
    a sub-1e-3 reward offset (position of the gap relative to coarser rounding grids), an optional
    clearly worse third action, gamma in {1, 1 - 2^-10, 1 - 2^-12}."""
    k = rng.choice([1, 2, 2, 3])
    n = k + 2
    nA = rng.choice([2, 2, 3])
    goal = n - 1
    stay = F(1023, 1024)
    # big: values ~1e3 .. 1e9 with a gap of RELATIVE size 2e-6 .. 8e-6 between the two actions (absolute gap
    # >= 2e-3, far above the 10-decimal rounding): an arg-max / tie test done with a relative tolerance
    # (np.isclose's 1e-5) would merge them; short return time (stay 1/2), so the values stay ~ the rewards
    big = rng.random() < .3
    if big:
        stay = F(1, 2)
    actions, trans, reward = [[0]], {"0,0": [[1, "1"]]}, {"0,0,1": str(F(-rng.randint(0, 2), 4))}
    if reward["0,0,1"] == "0":
        del reward["0,0,1"]
    for t in range(1, k + 1):
        good = rng.randrange(2)
        acts = [0, 1] + ([2] if nA == 3 and rng.random() < .6 else [])
        actions.append(acts)
        r0 = -(F(rng.randint(1, 3), 2**10) + F(rng.randrange(2**14), 2**24))
        if rng.random() < .35:
            delta = F(rng.randint(4, 8), 2**34)      # 2.3e-10 .. 4.7e-10: just above the 10-decimal rounding grid
        else:
            delta = F(rng.randint(4, 8), 2**24)      # 2^-22 .. 2^-21
        if big:
            e = rng.choice([10, 20, 30])
            mlt = rng.choice([1, 3, 5])
            r0 = -F(mlt * 2**e)
            delta = F(mlt * rng.randint(2, 8) * 2**e, 2**19)      # relative to V ~ 2*r0: 2e-6 .. 8e-6
        for a in acts:
            row = [[t, str(stay)], [t + 1, str(1 - stay)]]
            rng.shuffle(row)
            trans["%d,%d" % (t, a)] = row
            r = r0 if a == good else (r0 - delta if a == 1 - good else r0 + r0 / 4)
            for ns, p in row:
                reward["%d,%d,%d" % (t, a, ns)] = str(r)
    actions.append([0])
    trans["%d,0" % goal] = [[goal, "1"]]
    absorbing = [False] * n
    absorbing[goal] = True
    init = [[0, "1"]] if rng.random() < .5 else [[1, "1"]]
    return {"n": n, "nA": nA, "actions": actions, "trans": trans, "reward": reward, "absorbing": absorbing,
            "init": init, "gamma": rng.choice(["1", "1", "1023/1024", "4095/4096", "1048575/1048576"]),
            "big": big}


def gen_ladder(rng):
    """DEPENDENT near-ties (seeded C03-16): levels L_0 .. L_{d-1} above a bottom state Y.  Every level chooses between
    `down` (to the next level, reward 0) and `out` (value o_i, paid on the way to the goal, directly or through a
    one-action side state); Y has a good (W) and a clearly bad action.  o_i = V*(L_i) * (1 -+ delta_i) with
    delta_0 < delta_1 < ... : `down` is optimal everywhere, but L_i only sees that AFTER L_{i+1} has switched to
    `down` (gamma * o_{i+1} is worse than o_i).  So a policy-improvement loop started anywhere but at the optimum needs
    d successive improvement steps, each changing the values by a RELATIVE amount delta_i (1e-6 .. 8e-6 in 60 %,
    6e-8 .. 5e-7 in 20 %, 1.5e-5 .. 1.2e-4 in 20 %) of values of magnitude 1 .. 5e6; stopping one step early loses
    delta_0 * |V| >= 1e-7 * |V| at the initial state.  All numbers dyadic except gamma = 99/100."""
    d = rng.choice([2, 2, 3, 3, 4])
    nA = rng.choice([2, 2, 3])
    gamma = rng.choice(["1", "127/128", "63/64", "31/32", "99/100"])
    g = F(gamma)
    sign = 1 if (g < 1 and rng.random() < .5) else -1
    W = F(rng.choice([1, 3, 5]) * 2 ** rng.choice([0, 3, 6, 7, 10, 20]))
    u = rng.random()
    unit = F(1, 2**21) if u < .6 else F(1, 2**25) if u < .8 else F(1, 2**17)
    delta = [k * unit for k in sorted(rng.sample(range(2, 17), d))]
    via_sink = rng.random() < .5
    Y = d
    sinks = list(range(d + 1, 2 * d + 1)) if via_sink else []
    G = d + 1 + len(sinks)
    n = G + 1
    v = [sign * W * g ** (d - i) for i in range(d)] + [sign * W]
    actions, trans, reward = [None] * n, {}, {}

    def put(s, a, ns, r):
        trans["%d,%d" % (s, a)] = [[ns, "1"]]
        if r != 0:
            reward["%d,%d,%d" % (s, a, ns)] = str(r)
    for i in range(d):
        ids = rng.sample(range(nA), nA)
        roles = ["down", "out"] + (["worse"] if nA == 3 and rng.random() < .5 else [])
        acts = ids[:len(roles)]
        actions[i] = sorted(acts)
        o = v[i] * (1 - sign * delta[i])
        for role, a in zip(roles, acts):
            if role == "down":
                put(i, a, i + 1, F(0))
            elif role == "worse":
                put(i, a, G, o - abs(o) / 4)
            elif via_sink:
                x = o * F(rng.randint(1, 3), 4)
                put(i, a, sinks[i], o - g * x)
                put(sinks[i], 0, G, x)
                actions[sinks[i]] = [0]
            else:
                put(i, a, G, o)
    ids = rng.sample(range(nA), 2)
    actions[Y] = sorted(ids)
    put(Y, ids[0], G, sign * W)
    put(Y, ids[1], G, sign * W / 2 if sign > 0 else sign * W * 2)
    actions[G] = [0]
    trans["%d,0" % G] = [[G, "1"]]
    absorbing = [False] * n
    absorbing[G] = True
    init = [[0, "1"]] if d == 2 or rng.random() < .6 else [[0, "3/4"], [1, "1/4"]]
    return {"n": n, "nA": nA, "actions": actions, "trans": trans, "reward": reward, "absorbing": absorbing,
            "init": init, "gamma": gamma, "depth": d}


def free_absorbing(rng, m):
    """declared-absorbing states that are not dead ends of the GRAPH (seeded C03-18): an episodic task whose terminal
    state still offers e.g. a `reset` action back to the start.  Each declared-absorbing state gets (75 %) its OWN
    action set - a random subset of the action ids, or (40 %) one brand-new id no other state has - and rows that lead
    to arbitrary states (60 %: into the initial support), with arbitrary rewards.  The planner must ignore all of it
    (value 0, episode over): rows of absorbing states are masked in the model, so optimum and properness do not change;
    but LAO* expands such a node like any other, so it becomes a PARENT - and, through its stored best action, an
    ancestor - of states expanded later."""
    n = m["n"]
    starts = [s for s, p in m["init"] if F(p) > 0]
    changed = []
    for s in range(n):
        if not m["absorbing"][s] or rng.random() < .25:
            continue
        for a in m["actions"][s]:
            for ns, p in m["trans"].pop("%d,%d" % (s, a)):
                m["reward"].pop("%d,%d,%d" % (s, a, ns), None)
        if rng.random() < .4:
            acts = [m["nA"]]
            m["nA"] += 1
        else:
            acts = sorted(rng.sample(range(m["nA"]), rng.randint(1, min(2, m["nA"]))))
        m["actions"][s] = acts
        for a in acts:
            k = rng.choice([1, 1, 2]) if n > 1 else 1
            pool = starts if rng.random() < .6 else list(range(n))
            succ = [rng.choice(pool)]
            if k == 2:
                succ.append(rng.choice([x for x in range(n) if x != succ[0]]))
            ps = gen_mdp._split_prob(rng, len(succ), denom=4)
            m["trans"]["%d,%d" % (s, a)] = [[ns, str(p)] for ns, p in zip(succ, ps)]
            for ns in succ:
                if rng.random() < .4:
                    m["reward"]["%d,%d,%d" % (s, a, ns)] = str(F(-rng.randint(1, 8), 2))
        changed.append(s)
    return changed


def gen_large(rng, K):
    """K-way stochastic dispatch (acyclic): start -> uniformly one of K states -> (hub ->) goal.  The
    optimal closed policy covers K + 2 or K + 3 states and LAO* expands one tip per iteration, so
    planning needs more than K main-loop iterations: run with the DEFAULT constructor budget."""
    hub = rng.random() < .5
    n = K + 2 + (1 if hub else 0)
    goal = n - 1
    nA = 2
    actions = [[0]] + [[0, 1] if rng.random() < .7 else [rng.randrange(2)] for _ in range(K)]
    trans = {"0,0": [[i, str(F(1, K))] for i in range(1, K + 1)]}
    reward = {}
    for i in range(1, K + 1):
        reward["0,0,%d" % i] = "-1"
        for a in actions[i]:
            if hub and rng.random() < .3:
                trans["%d,%d" % (i, a)] = [[K + 1, "1/2"], [goal, "1/2"]]
            else:
                trans["%d,%d" % (i, a)] = [[goal, "1"]]
            for ns, p in trans["%d,%d" % (i, a)]:
                reward["%d,%d,%d" % (i, a, ns)] = str(F(-rng.randint(1, 12), 4))
    if hub:
        actions.append([0, 1])
        for a in (0, 1):
            trans["%d,%d" % (K + 1, a)] = [[goal, "1"]]
            reward["%d,%d,%d" % (K + 1, a, goal)] = str(F(-rng.randint(1, 8), 4))
    actions.append([0])
    trans["%d,0" % goal] = [[goal, "1"]]
    absorbing = [False] * n
    absorbing[goal] = True
    return {"n": n, "nA": nA, "actions": actions, "trans": trans, "reward": reward, "absorbing": absorbing,
            "init": [[0, "1"]], "gamma": rng.choice(["1", "19/20", "9/10"])}


def vstar_dag(m):
    """exact optimal values of an ACYCLIC MDP (self-loops only at absorbing states) by memoised
    backward recursion; used for the large family where Gaussian elimination on Fractions is too slow"""
    g = F(m["gamma"])
    memo = {}

    def val(s):
        if s in memo:
            return memo[s]
        if m["absorbing"][s]:
            memo[s] = F(0)
            return memo[s]
        memo[s] = max(qsa(s, a) for a in m["actions"][s])
        return memo[s]

    def qsa(s, a):
        return sum(F(p) * (F(m["reward"].get("%d,%d,%d" % (s, a, ns), "0")) + g * val(ns))
                   for ns, p in m["trans"]["%d,%d" % (s, a)] if F(p) > 0)
    # the large families number their states so that every successor has a higher index: fill the memo
    # from the back (no deep recursion on corridors of several hundred states)
    for s in reversed(range(m["n"])):
        val(s)
    return [val(s) for s in range(m["n"])], qsa


def vstar_of(m, family):
    if family == "large":
        return vstar_dag(m)[0]
    n, nA, P, R, av, absf, ini, g, masked = prep(m)
    return c01.exact_vstar(P, R, av, masked, g)


def heuristic_for(rng, kind, Vmax, treasure):
    n = len(Vmax)
    if treasure and kind == "const":
        kind = "exact"      # a constant bound of ~1e12 everywhere only tests double-precision cancellation
    if kind == "const":
        c = max([F(0)] + Vmax)
        if rng.random() < .7:
            c = F(math.ceil(c))                 # integral bound: can be handed over as int / np.int64 / bool ...
        c += rng.choice([0, 1, 5])
        h = [c] * n
    elif kind == "exact":
        h = list(Vmax)
    else:
        h = [v + rng.choice([F(0), F(1, 4), F(1), F(3)]) for v in Vmax]
    return [list(up(x).as_integer_ratio()) for x in h]


def optimal_action_on_path(rng, m, V):
    """an optimal action (exact arg-max of the look-ahead on V) of some unmasked state the optimal policy reaches from
    the initial support; None if every reached state is masked"""
    n, nA, P, R, av, absf, ini, g, masked = prep(m)
    best = {}
    for s in range(n):
        if not masked[s]:
            qs = {a: sum(P[s][a][k] * (R[s][a][k] + g * (F(0) if masked[k] else V[k])) for k in range(n))
                  for a in range(nA) if av[s][a]}
            best[s] = max(sorted(qs), key=lambda a: qs[a])
    seen = [s for s in range(n) if ini[s] > 0]
    for s in seen:
        if s in best:
            seen += [k for k in range(n) if P[s][best[s]][k] > 0 and k not in seen]
    cands = [s for s in seen if s in best]
    return best[rng.choice(cands)] if cands else None


def int32_safe(plans):
    """every reward, optimal value, heuristic value AND every partial sum |reward| + |value| msdm can form from them
    fits comfortably (factor 2) in a signed 32-bit integer, for every problem of the case"""
    rmax = max([F(0)] + [abs(F(r)) for pl in plans for r in pl["mdp"]["reward"].values()])
    vmax = max([F(0)] + [abs(F(int(x[0]), int(x[1]))) for pl in plans for x in pl["h"]]
               + [abs(F(v)) for pl in plans for v in pl["vstar"]])
    return rmax + vmax < 2**30


def gen_random_mdp(rng, tier, tweak, force=None):
    nmax = 7 if tier == "quick" else 10
    gamma = "1" if rng.random() < .3 else None
    u = rng.random()
    if u < .08:
        shape = "chain"
        m = gen_chain(rng, rng.choice([3, 5, 6, 7, 9, 11, 13]), gamma)
    elif u < .45:
        shape = "sparse"
        m = gen_sparse(rng, 13 if tier == "quick" else 16, gamma)
    else:
        shape = "dense"
        nm = 1 if rng.random() < .08 else nmax          # a few single-state MDPs in every run
        # 30 %: rows of declared-absorbing states drawn like any other row (gen_mdp absorbing_out="free") instead of self-loops
        m = gen_mdp.gen_mdp(rng, nmax=nm, amax=3, gamma=gamma,
                            proper=(gamma == "1"), min_states=min(nm, rng.choice([1, 2, 3, 4])),
                            absorbing_out="free" if rng.random() < .3 else "self")
    nonpos = F(m["gamma"]) == 1 or shape != "dense" or not any(F(r) > 0 for r in m["reward"].values())
    if rng.random() < .35:
        tweak["free_absorbing"] = free_absorbing(rng, m)
    u = rng.random()
    if force == "bigfrac":
        u = .5          # the non-dyadic tweak, always at large magnitude (two such cases in every run: seeded C03-20)
    if force is None and F(m["gamma"]) == 1 and rng.random() < .3:
        tweak["slow_exit"] = add_slow_exit(rng, m)
    elif u < .10:
        tweak["extreme_probs"] = extreme_probs(rng, m)
    elif u < .20:
        tweak["reward_scale"] = rng.choice([1000, 10**5])
        scale_rewards(m, tweak["reward_scale"])
    elif u < .42:
        tweak["jackpots"] = add_jackpots(rng, m, nonpos)
    elif u < .57:
        tweak["nondyadic"] = nondyadic(rng, m, nonpos)
        if force == "bigfrac" or rng.random() < .7:
            # ... at LARGE magnitude (seeded C03-20): |V| ~ 1e8 .. 1e11 with thirds / tenths / sevenths, so that the float
            # round-off between the linear solve and any re-computed look-ahead is far above every ABSOLUTE 1e-10-type
            # threshold while staying ~1e-16 relative (the tolerances here scale with the magnitude)
            tweak["reward_scale"] = rng.choice([10**7, 10**8, 10**9])
            scale_rewards(m, tweak["reward_scale"])
    elif u < .67 and F(m["gamma"]) == 1:
        tweak["slow_exit"] = add_slow_exit(rng, m)
    return m, shape, nonpos


def gen_case(rng, tier, family=None):
    """a case = ONE planner object (heuristic, seed, flags) and the list of MDPs it plans on in turn"""
    family = family or "random"
    shape = family
    tweak = {}
    other = []          # plans on a DIFFERENT problem (own size, own heuristic table)
    if family == "neartie":
        plans = [gen_neartie(rng)]
        if plans[0].pop("big"):
            tweak["big_magnitude"] = True
        if rng.random() < .4:
            tweak["free_absorbing"] = free_absorbing(rng, plans[0])
    elif family == "ladder":
        plans = [gen_ladder(rng)]
        tweak["ladder_depth"] = plans[0].pop("depth")
        if rng.random() < .4:
            tweak["free_absorbing"] = free_absorbing(rng, plans[0])
    elif family == "large":
        plans = [gen_large(rng, rng.randint(1040, 1120))]
    elif family == "longchain":
        plans = [gen_chain(rng, rng.choice([301, 333, 377]), rng.choice(["1", "19/20"]))]
        for key in list(plans[0]["trans"]):          # acyclic version (judged by backward induction)
            plans[0]["trans"][key] = [[max(ns for ns, p in plans[0]["trans"][key]), "1"]]
    else:
        m, shape, nonpos = gen_random_mdp(rng, tier, tweak, force="bigfrac" if family == "random-bigfrac" else None)
        family = "random"
        plans = [m]
        u = rng.random()
        if u < .35:
            # the same planner object is reused on an MDP with the same labels but different dynamics
            plans.append(perturb(rng, m, nonpos))
            if rng.random() < .6:
                plans.append(m)
        elif u < .5:
            # ... or on an unrelated problem (other size, other action sets), and then on the first again
            m2, _, _ = gen_random_mdp(rng, tier, {})
            other = [m2]
    fam = "large" if family == "longchain" else family
    Vall = [vstar_of(m, fam) for m in plans]
    n = plans[0]["n"]
    Vmax = [max(V[s] for V in Vall) for s in range(n)]
    kind = rng.choice(["const", "exact", "slack"] + (["exact", "slack"] if shape in ("sparse", "neartie", "chain", "ladder") else []))
    rep = gen_rep(rng, len(plans) + 2 * len(other) > 1) if family not in ("large", "longchain") else {}
    if str(rep.get("alabels", "")).startswith("none:") and rng.random() < .7:
        # the action labelled None is one the OPTIMAL policy plays at a state it reaches, and (50 %) the heuristic is a
        # constant bound, whose one-step greedy choice usually differs from the optimal action (seeded C03-21)
        j = optimal_action_on_path(rng, plans[0], Vall[0])
        if j is not None:
            rep["alabels"] = "none:%d" % j
        if rng.random() < .5:
            kind = "const"
    if rep.get("h_as") not in (None, "callable", "partial", "callable_object", "bound_method") and not other and rng.random() < .6:
        kind = "const"      # a numeric (non-callable) heuristic only exists for constant bounds
    treasure = bool((tweak.get("jackpots") or {}).get("treasure"))
    h = heuristic_for(rng, kind, Vmax, treasure)
    out = [{"mdp": m, "vstar": [str(v) for v in V], "h": h} for m, V in zip(plans, Vall)]
    for m2 in other:
        V2 = vstar_of(m2, fam)
        out.append({"mdp": m2, "vstar": [str(v) for v in V2], "h": heuristic_for(rng, kind, V2, False), "other_problem": True})
        out.append(dict(out[0]))
    if rep.get("h_as") == "np.int32" and not int32_safe(out):
        # a heuristic TYPED int32 cannot coexist with numbers outside the int32 range: the node value of an
        # unrevised node is the caller's np.int32 itself and msdm's `reward + gamma*value` (laostar.py:350) is then
        # NumPy's own int32 arithmetic (NumPy 2: OverflowError for a Python-int reward that does not fit, silent
        # wrap-around for a sum that does not) - a property of the caller's number type, not of LAO*.  Such a
        # combination of representations is outside the quantifier; the wide integer type is used instead.
        rep["h_as"] = "np.int64"
    single = len(out) == 1
    return {"family": family, "shape": shape, "plans": out, "h": h, "hkind": kind,
            "seed": rng.randrange(4), "rao": rng.random() < .5, "rno": rng.random() < .5,
            "default_args": family in ("large", "longchain"), "tweak": tweak,
            "rep": rep,
            "budget_mode": (rng.choice(["exact", "exact", "short"])
                            if family == "random" and single and rng.random() < .3 else None)}


def view(case, k):
    """the single-plan case the per-result functions below work on"""
    v = {key: val for key, val in case.items() if key != "plans"}
    v["mdp"], v["vstar"] = case["plans"][k]["mdp"], case["plans"][k]["vstar"]
    v["h"] = case["plans"][k].get("h", case["h"])
    v["other_problem"] = bool(case["plans"][k].get("other_problem"))
    v["plan_index"] = k
    return v


# ---------------------------------------------------------------------------
# what the harness derives from the implementation's answer
# ---------------------------------------------------------------------------
def policy_matrix(case, res):
    """Pi[s][a] (exact rationals of the returned floats); None for a state where the query raised;
    'bad' entries (action outside 0..nA-1) are reported separately"""
    n, nA = case["mdp"]["n"], case["mdp"]["nA"]
    Pi, alien = [], []
    for s in range(n):
        row = res["policy"][s]
        if isinstance(row, dict):
            Pi.append(None)
            continue
        r = [F(0)] * nA
        for a, p in row:
            if isinstance(p, str):
                alien.append((s, a, p))
                continue
            if not (isinstance(a, int) and 0 <= a < nA):
                if vlib.frac(p) != 0:
                    alien.append((s, a, str(vlib.frac(p))))
                continue
            r[a] += vlib.frac(p)
        Pi.append(r)
    return Pi, alien


def closed_set(case, Pi, P, masked, ini):
    """states reachable from the positive initial support under Pi, episodes ending at masked states"""
    n, nA = case["mdp"]["n"], case["mdp"]["nA"]
    C = set(s for s in range(n) if ini[s] > 0)
    fr = sorted(C)
    while fr:
        s = fr.pop()
        if Pi[s] is None or masked[s]:
            continue
        for a in range(nA):
            if Pi[s][a] > 0:
                for k in range(n):
                    if P[s][a][k] > 0 and k not in C:
                        C.add(k)
                        fr.append(k)
    return C


def expected_steps(n, C, pol, P, masked, g):
    """N = 1 + g * P_pol N on C (masked: N = 1), 0 outside C; None if singular"""
    Cl = sorted(C)
    idx = {s: i for i, s in enumerate(Cl)}
    A = [[F(1) if i == j else F(0) for j in range(len(Cl))] for i in range(len(Cl))]
    for s in Cl:
        if masked[s]:
            continue
        for k in range(n):
            if P[s][pol[s]][k] > 0 and k in idx:
                A[idx[s]][idx[k]] -= g * P[s][pol[s]][k]
    x = c01.solve_linear(A, [F(1)] * len(Cl))
    if x is None or any(v < 1 for v in x):
        return None
    N = [F(0)] * n
    for s in Cl:
        N[s] = x[idx[s]]
    return N


def proper_weights(n, nA, P, av, masked, g):
    """W = 1 + the largest expected (discounted) number of steps before absorption over ALL policies, by exact
    policy iteration on the step-counting MDP; None when some policy never terminates (gamma = 1, not proper)"""
    ones = [[[F(1) if P[s][a][k] > 0 else F(0) for k in range(n)] for a in range(nA)] for s in range(n)]
    u = c01.exact_vstar(P, ones, av, masked, g)
    if u is None or any(x < 0 for x in u):
        return None
    return [x + 1 for x in u]


def search_failing(case, res):
    """the property's clauses, evaluated with exact rationals on the implementation's answer"""
    n, nA, P, R, av, absf, ini, g, masked = prep(case["mdp"])
    Vs = [F(x) for x in case["vstar"]]
    scale = scale_of(Vs, [vlib.frac(x) for x in case["h"]], excluded(case))
    tiny = 2 * tolerances(scale)[1]
    if not res["converged"]:
        return {"clause": "LAO* does not report convergence", "tips": res.get("tips")}
    for s, v in res["value_map"]:
        if isinstance(v, str) or vlib.frac(v) < Vs[s] - tiny:
            return {"clause": "value held for an explored state is below its optimal value",
                    "state": s, "held": str(v), "optimal": str(Vs[s])}
    Pi, alien = policy_matrix(case, res)
    if alien:
        return {"clause": "returned policy picks an action that is not available", "entries": alien[:3]}
    for s in range(n):
        if Pi[s] is None:
            continue
        for a in range(nA):
            if Pi[s][a] < 0 or (Pi[s][a] > 0 and not av[s][a]):
                return {"clause": "returned policy picks an action that is not available", "state": s, "action": a}
    C = closed_set(case, Pi, P, masked, ini)
    for s in sorted(C):
        if Pi[s] is None:
            return {"clause": "returned policy is undefined on a state it reaches", "state": s,
                    "error": res["policy"][s]["error"]}
        if abs(sum(Pi[s]) - 1) > F(1, 10**9):
            return {"clause": "returned policy is not a distribution on a state it reaches", "state": s}
    Cl = sorted(C)
    idx = {s: i for i, s in enumerate(Cl)}
    A = [[F(1) if i == j else F(0) for j in range(len(Cl))] for i in range(len(Cl))]
    rhs = [F(0)] * len(Cl)
    for s in Cl:
        if masked[s]:
            continue
        for a in range(nA):
            if Pi[s][a] > 0:
                for k in range(n):
                    if P[s][a][k] > 0:
                        A[idx[s]][idx[k]] -= g * Pi[s][a] * P[s][a][k]
                        rhs[idx[s]] += Pi[s][a] * P[s][a][k] * R[s][a][k]
    Vpi = c01.solve_linear(A, rhs)
    opt = sum(ini[s] * Vs[s] for s in range(n))
    if Vpi is None:
        return {"clause": "returned policy never terminates from some reachable state (undiscounted)"}
    ret = sum(ini[s] * Vpi[idx[s]] for s in Cl)
    if abs(ret - opt) > tiny:
        return {"clause": "exactly evaluated return of the returned policy is not optimal",
                "return": str(ret), "optimal": str(opt)}
    iv = res["initial_value"]
    if isinstance(iv, str) or abs(vlib.frac(iv) - opt) > tiny:
        return {"clause": "initial value differs from the optimal value of the initial distribution",
                "initial_value": str(iv), "optimal": str(opt)}
    return None


def judge_large(case, res):
    """large family (too big for the Coq certificate): the property's clauses AND the certificate's
    structural clauses evaluated in Python with exact rationals; the MDP is acyclic"""
    m = case["mdp"]
    n, nA, g = m["n"], m["nA"], F(m["gamma"])
    Vs = [F(x) for x in case["vstar"]]
    hq = [vlib.frac(x) for x in case["h"]]
    scale = scale_of(Vs, hq, excluded(case))
    rho, ups = tolerances(scale)
    tiny = 2 * ups
    if not res["converged"]:
        return {"clause": "LAO* does not report convergence", "iterations": res.get("iterations"),
                "tips": (res.get("tips") or [])[:5]}
    held = {}
    for s, v in res["value_map"]:
        if isinstance(v, str) or vlib.frac(v) < Vs[s] - tiny:
            return {"clause": "value held for an explored state is below its optimal value",
                    "state": s, "held": str(v), "optimal": str(Vs[s])}
        held[s] = vlib.frac(v)
    Pi = []
    for s in range(n):
        row = res["policy"][s]
        if isinstance(row, dict):
            Pi.append(None)
            continue
        d = {}
        for a, p in row:
            if isinstance(p, str) or (vlib.frac(p) != 0 and a not in m["actions"][s]):
                return {"clause": "returned policy picks an action that is not available", "state": s, "action": a}
            if vlib.frac(p) > 0:
                d[a] = d.get(a, F(0)) + vlib.frac(p)
        Pi.append(d)
    succ = lambda s, a: [(ns, F(p)) for ns, p in m["trans"]["%d,%d" % (s, a)] if F(p) > 0]
    rw = lambda s, a, ns: F(m["reward"].get("%d,%d,%d" % (s, a, ns), "0"))
    C = set(s for s, p in m["init"] if F(p) > 0)
    fr = sorted(C)
    while fr:
        s = fr.pop()
        if Pi[s] is None:
            return {"clause": "returned policy is undefined on a state it reaches", "state": s}
        if abs(sum(Pi[s].values()) - 1) > F(1, 10**9):
            return {"clause": "returned policy is not a distribution on a state it reaches", "state": s}
        if m["absorbing"][s]:
            continue
        for a in Pi[s]:
            for ns, p in succ(s, a):
                if ns not in C:
                    C.add(ns)
                    fr.append(ns)
    memo = {}

    def vpi(s):
        if s not in memo:
            memo[s] = F(0) if m["absorbing"][s] else sum(
                pa * sum(p * (rw(s, a, ns) + g * vpi(ns)) for ns, p in succ(s, a)) for a, pa in Pi[s].items())
        return memo[s]
    for s in sorted(C, reverse=True):
        vpi(s)
    opt = sum(F(p) * Vs[s] for s, p in m["init"])
    ret = sum(F(p) * vpi(s) for s, p in m["init"] if F(p) > 0)
    if abs(ret - opt) > tiny:
        return {"clause": "exactly evaluated return of the returned policy is not optimal",
                "return": str(ret), "optimal": str(opt)}
    iv = res["initial_value"]
    if isinstance(iv, str) or abs(vlib.frac(iv) - opt) > tiny:
        return {"clause": "initial value differs from the optimal value of the initial distribution",
                "initial_value": str(iv), "optimal": str(opt)}
    # certificate clauses c_closed / c_det / c_cons, in Python
    for s in C:
        if s not in held or len(Pi[s]) != 1 or list(Pi[s].values()) != [1]:
            return {"clause": "certificate (python): policy not a point mass inside the explicit graph on C", "state": s,
                    "found": False}
        a = next(iter(Pi[s]))
        look = F(0) if m["absorbing"][s] else sum(
            p * (rw(s, a, ns) + g * (F(0) if m["absorbing"][ns] else held.get(ns, F(0)))) for ns, p in succ(s, a))
        if abs(held[s] - look) > rho:
            return {"clause": "certificate (python): held value not consistent with the policy on C", "state": s,
                    "found": False}
    return None


def terms_for(case, res):
    n, nA, P, R, av, absf, ini, g, masked = prep(case["mdp"])
    Vs = [F(x) for x in case["vstar"]]
    hq = [vlib.frac(x) for x in case["h"]]
    scale = scale_of(Vs, hq, excluded(case))
    rho, ups = tolerances(scale)
    mt = " ".join([nat(n), nat(nA), qten(P), qten(R), bmat(av), blist(absf), qlist(ini), q(g)])
    held = {s: vlib.frac(v) for s, v in res["value_map"]}
    ex = [s in held for s in range(n)]
    V = [held.get(s, F(0)) for s in range(n)]
    Pi, alien = policy_matrix(case, res)
    C = closed_set(case, Pi, P, masked, ini)
    pol = []
    for s in range(n):
        if s in C and Pi[s] is not None and max(Pi[s]) > 0:
            pol.append(max(range(nA), key=lambda a: Pi[s][a]))
        else:
            pol.append(0)
    PiQ = [(r if r is not None else [F(0)] * nA) for r in Pi]
    if g < 1:
        N = [1 / (1 - g)] * n
    else:
        N = expected_steps(n, C, pol, P, masked, g) or [F(0)] * n
    conv = bool(res["converged"]) and not alien
    lao = " ".join([b(conv), blist(ex), qlist(V), blist([s in C for s in range(n)]), natlist(pol),
                    qmat(PiQ), q(res["initial_value"])])
    tl = "(mkLtols %s %s %s %s)" % (q(rho), q(ups), q(ups), q(F(1, 10**12)))
    t_chk = "chk %s %s %s %s %s" % (mt, lao, tl, qlist(Vs), qlist(N))
    # undiscounted: the MDP-level properness certificate (theorems C03_*_proper); None = not proper for all policies
    t_pchk = None
    if g == 1:
        Wt = proper_weights(n, nA, P, av, masked, g)
        if Wt is not None:
            t_pchk = "pchk %s %s %s %s %s" % (mt, lao, tl, qlist(Vs), qlist(Wt))
    # trace
    steps = []
    for st in res["trace"]:
        nodes = {x[0]: x for x in st["nodes"]}
        E = [bool(nodes[s][3]) if s in nodes else False for s in range(n)]
        Vk = [vlib.frac(nodes[s][1]) if s in nodes else hq[s] for s in range(n)]
        pk = [int(nodes[s][2]) if s in nodes and isinstance(nodes[s][2], int) and 0 <= nodes[s][2] < nA else nA
              for s in range(n)]
        Z = [s in st["Z"] for s in range(n)]
        x = st["expand"][0] if len(st["expand"]) == 1 else n
        steps.append("(%s, %s, %s, %s, %s)" % (nat(x), blist(Z), blist(E), qlist(Vk), natlist(pk)))
    t_run = "runchk %s %s %s %s %s %s" % (mt, lao, qlist(Vs), q(rho), qlist(hq), coqlist(steps))
    # mirror of update_ancestors_of, one term per iteration: graph as it is after expand_at(x), before the revision
    m = case["mdp"]
    # from_matrices builds its distributions from the positive entries only: zero-probability entries are not listed
    drop0 = (case.get("rep") or {}).get("cls") == "from_matrices"
    listed = lambda s, a: [ns for ns, p in m["trans"]["%d,%d" % (s, a)] if not (drop0 and F(p) == 0)]
    anc_terms = []
    prev = {}
    for st in res["trace"]:
        nodes = {x[0]: x for x in st["nodes"]}
        if len(st["expand"]) != 1:
            prev = nodes
            continue
        x = st["expand"][0]
        Epre = sorted(set(s for s, nd in prev.items() if nd[3]) | {x})
        polpre = {s: (prev[s][2] if s in prev and prev[s][2] in m["actions"][s] else m["actions"][s][0]) for s in Epre}
        succ = [listed(s, polpre[s]) if s in polpre else [] for s in range(n)]
        plist = [[p for p in Epre if any(k in listed(p, a) for a in m["actions"][p])] for k in range(n)]
        Z = [s in st["Z"] for s in range(n)]
        anc_terms.append("anc_chk %s %s %s %s %s" % (nat(n), coqlist(natlist(r) for r in plist),
                                                   coqlist(natlist(r) for r in succ), nat(x), blist(Z)))
        prev = nodes
    t_anc = coqlist(anc_terms)
    # observation counters: revisions in which a DECLARED-ABSORBING state other than the expanded one is revised
    # (it is an ancestor: C03-18) and its action set differs from the expanded state's; revisions after which two
    # or more previously expanded states play another best action (chained improvements: C03-16)
    abs_anc = abs_anc_other = multi_switch = 0
    prev = {}
    for st in res["trace"]:
        nodes = {x[0]: x for x in st["nodes"]}
        xs = st["expand"]
        za = [s for s in st["Z"] if m["absorbing"][s] and s not in xs]
        abs_anc += bool(za)
        abs_anc_other += any(m["actions"][s] != m["actions"][x] for s in za for x in xs)
        multi_switch += sum(1 for s, nd in prev.items() if nd[3] and s in nodes and nodes[s][2] != nd[2]) >= 2
        prev = nodes
    info = {"acts_on_C": sorted({pol[s] for s in C if not masked[s]}), "abs_anc": abs_anc, "abs_anc_other": abs_anc_other, "multi_switch": multi_switch,"nC": len(C), "nExplored": sum(ex), "n": n, "steps": len(steps),
            "undiscounted": g == 1, "t_pchk": t_pchk,
            "pruned": sum(ex) < len(gen_mdp.reachable(case["mdp"])),
            "sol_eq_C": set(res["solution_states"]) == C}
    return t_chk, t_run, t_anc, info


def run(ctx):
    tier = ctx.tier
    nrand, ntie, nlarge = (56, 14, 1) if tier == "quick" else (600, 140, 3)
    nladder = 8 if tier == "quick" else 80
    if ctx.replay_case:
        cases = [ctx.replay_case["detail"]["case"]]
    else:
        nbig = 3 if tier == "quick" else 30
        cases = ([gen_case(ctx.rng, tier) for _ in range(nrand - nbig)] +
                 [gen_case(ctx.rng, tier, "random-bigfrac") for _ in range(nbig)] +
                 [gen_case(ctx.rng, tier, "neartie") for _ in range(ntie)] +
                 [gen_case(ctx.rng, tier, "ladder") for _ in range(nladder)] +
                 [gen_case(ctx.rng, tier, "large") for _ in range(nlarge)] +
                 [gen_case(ctx.rng, tier, "longchain") for _ in range(nlarge)])
    small = [i for i, c in enumerate(cases) if c.get("family") not in ("large", "longchain")]
    large = [i for i, c in enumerate(cases) if c.get("family") in ("large", "longchain")]
    impl = [None] * len(cases)
    box = {}

    def run_large():
        try:
            box["res"] = ctx.impl("c03_impl.py", {"cases": [cases[i] for i in large]}, shards=len(large))["results"]
        except Exception as e:     # reported below
            box["err"] = repr(e)
    th = None
    if large:
        th = threading.Thread(target=run_large)
        th.start()
    if small:
        rs = ctx.impl("c03_impl.py", {"cases": [cases[i] for i in small]},
                      shards=min(ctx.jobs, 4 if tier == "quick" else 8))["results"]
        for i, r in zip(small, rs):
            impl[i] = r
    terms, meta = [], []
    feats, infos = {}, []
    nplans = nreuse = nshort = 0
    for i in small:
        case, res = cases[i], impl[i]
        if "error" in res:
            ctx.violation("C03:laostar-raises:" + res["error"].split(":")[0], {"case": case, "error": res["error"]}, found=True)
            continue
        for k, rk in enumerate(res["plans"]):
            cv = view(case, k)
            nplans += 1
            nreuse += int(k > 0)
            if "error" in rk:
                ctx.violation("C03:laostar-raises:" + rk["error"].split(":")[0],
                              {"case": case, "plan_index": k, "error": rk["error"], "trace": rk.get("trace_back")}, found=True)
                continue
            if rk.get("inputs_mutated"):
                ctx.violation("C03:planning-mutates-the-caller's-MDP-objects",
                              {"case": case, "plan_index": k}, found=False)
            if rk.get("budget_mode") == "short" and not rk["converged"]:
                # one expansion short of what is needed: an honest "not converged" is outside the property;
                # what remains checkable is that every held value is still an upper bound
                nshort += 1
                Vsx = [F(x) for x in cv["vstar"]]
                sc = scale_of(Vsx, [vlib.frac(x) for x in cv["h"]], excluded(cv))
                low = [(s, v) for s, v in rk["value_map"] if isinstance(v, str) or vlib.frac(v) < Vsx[s] - 2 * tolerances(sc)[1]]
                if low:
                    ctx.violation("C03:value held for an explored state is below its optimal value",
                                  {"case": case, "plan_index": k, "budget": rk["budget"], "states": low[:3]}, found=True)
                continue
            if not rk.get("policy_stable", True):
                ctx.violation("C03:returned-policy-changes-after-the-planner-object-is-reused",
                              {"case": case, "plan_index": k, "early": rk.get("policy_early"), "late": rk["policy"]}, found=False)
            t_chk, t_run, t_anc, info = terms_for(cv, rk)
            infos.append(info)
            terms += [t_chk, t_run, t_anc]
            meta += [("chk", i, k), ("run", i, k), ("anc", i, k)]
            if info["t_pchk"]:
                terms.append(info.pop("t_pchk"))
                meta.append(("pchk", i, k))
            f = gen_mdp.features(cv["mdp"])
            f["absorbing_initial"] = any(cv["mdp"]["absorbing"][s] for s, p in cv["mdp"]["init"] if F(p) > 0)
            f["h_" + case["hkind"]] = True
            f["shape_" + case.get("shape", "dense")] = True
            f["rao"], f["rno"] = case["rao"], case["rno"]
            f["seed_%d" % case["seed"]] = True
            f["planner_object_reused"] = k > 0
            rp = case.get("rep", {})
            f["heuristic_form_" + str(rk.get("h_type"))] = True
            for key in ("labels", "alabels", "dist", "actions_as", "cls", "init_as", "absorbing_as"):
                f["rep_%s_%s" % (key, rp.get(key))] = True
            al_ = str(rp.get("alabels"))
            f["rep_action_labelled_None"] = al_.startswith("none:")
            f["rep_action_labelled_None_played_on_a_reached_state"] = (al_.startswith("none:") and
                int(al_.split(":")[1]) % cv["mdp"]["nA"] in info["acts_on_C"])
            f["rep_state_labelled_None"] = str(rp.get("labels")).startswith("none:")
            f["rep_gamma_int_1"] = bool(rp.get("gamma_int")) and F(cv["mdp"]["gamma"]) == 1
            f["rep_mdp_object_reused"] = bool(rp.get("mdp_reuse")) and k == 2
            f["rep_cached_views_touched"] = bool(rp.get("touch")) and rp.get("cls") != "quick"
            f["budget_exactly_needed"] = rk.get("budget_mode") == "exact"
            f["h_noncallable_effective"] = rk.get("h_type") not in ("lambda", "functools.partial", "callable_object", "bound_method")
            f["init_as_state_effective"] = rp.get("init_as") == "state" and len(cv["mdp"]["init"]) == 1
            f["tweak_extreme_probs"] = bool(case.get("tweak", {}).get("extreme_probs"))
            f["tweak_reward_scale"] = bool(case.get("tweak", {}).get("reward_scale"))
            f["tweak_nondyadic_at_large_magnitude"] = bool(case.get("tweak", {}).get("reward_scale")) and bool(case.get("tweak", {}).get("nondyadic")) and k != 1
            jp = case.get("tweak", {}).get("jackpots") or {}
            f["tweak_jackpot_rare_branch"] = bool(jp)
            f["tweak_jackpot_treasure_state"] = bool(jp.get("treasure"))
            f["tweak_jackpot_initial_entry"] = bool(jp.get("init"))
            f["tweak_jackpot_k_above_40"] = any(r["k"] > 40 for r in jp.get("rows", []))
            f["tweak_slow_exit_only_route_2^-k"] = bool(case.get("tweak", {}).get("slow_exit"))
            f["tweak_nondyadic_thirds_tenths_sevenths"] = bool(case.get("tweak", {}).get("nondyadic")) and k != 1
            f["tweak_nondyadic_row_of_ten_tenths"] = bool((case.get("tweak", {}).get("nondyadic") or {}).get("ten_tenths_row")) and k != 1
            f["neartie_big_magnitude_relative_gap_1e-6"] = bool(case.get("tweak", {}).get("big_magnitude"))
            f["reused_on_other_problem_then_first_again"] = bool(case["plans"][k].get("other_problem")) or (k == 2 and bool(case["plans"][1].get("other_problem")))
            f["same_problem_constructed_twice_in_process"] = k == 2 and not rp.get("mdp_reuse")
            f["rep_shared_list_and_distribution_objects"] = bool(rp.get("share"))
            f["rep_int_typed_numbers"] = bool(rp.get("int_numbers"))
            f["rep_float32_rewards"] = bool(rp.get("float32_rewards"))
            f["rep_from_matrices_integer_arrays"] = rp.get("cls") == "from_matrices" and bool(rp.get("matrices_int"))
            f["rep_is_absorbing_returns_0_1_integer"] = (rp.get("absorbing_as") in ("int", "np.int64")
                                                       and any(cv["mdp"]["absorbing"]))
            f["tweak_declared_absorbing_state_with_outgoing_rows"] = any(
                cv["mdp"]["absorbing"][s] and any(ns != s for a in cv["mdp"]["actions"][s]
                                                   for ns, p in cv["mdp"]["trans"]["%d,%d" % (s, a)] if F(p) > 0)
                for s in range(cv["mdp"]["n"]))
            f["ladder_dependent_near_ties"] = case.get("family") == "ladder"
            f["revision_with_absorbing_ancestor"] = info["abs_anc"] > 0
            f["revision_with_absorbing_ancestor_of_other_action_set"] = info["abs_anc_other"] > 0
            f["revision_switching_two_or_more_best_actions"] = info["multi_switch"] > 0
            f["one_action_id"] = cv["mdp"]["nA"] == 1
            f["nS_equals_nA"] = cv["mdp"]["n"] == cv["mdp"]["nA"]
            f["shape_chain_path_length_n-1"] = case.get("shape") == "chain"
            f["gamma_" + cv["mdp"]["gamma"]] = True
            f["single_state"] = cv["mdp"]["n"] == 1
            f["initially_all_absorbing_support"] = all(cv["mdp"]["absorbing"][s] for s, p in cv["mdp"]["init"] if F(p) > 0)
            for kk, v in f.items():
                if isinstance(v, bool):
                    feats[kk] = feats.get(kk, 0) + int(v)
    vals = ctx.coq(PRE, terms, shard=12 if tier == "quick" else 36)
    nchk = nrun = nanc = anc_drift = npchk = 0
    anc_bad = []
    distinct = set()
    reported = set()
    for (kind, i, k), v in zip(meta, vals):
        case, res = cases[i], impl[i]["plans"][k]
        cv = view(case, k)
        if isinstance(v, vlib.CoqError):
            ctx.violation("C03:coq-evaluation-failed", {"case": case, "plan_index": k, "kind": kind, "error": str(v)[:800]}, found=False)
            continue
        if kind == "anc":
            nanc += len(v)
            if not all(v):
                anc_drift += 1     # mirror of update_ancestors_of differs; run_ok (proved guard) decides
                if (i, k) not in anc_bad:
                    anc_bad.append((i, k))
            continue
        names = CLAUSES if kind == "chk" else PROPER_CLAUSES if kind == "pchk" else RUN_CLAUSES
        if not isinstance(v, list) or len(v) != len(names):
            ctx.violation("C03:coq-evaluation-failed", {"case": case, "plan_index": k, "kind": kind, "error": "unexpected value %r" % (v,)}, found=False)
            continue
        failed = [c for c, okv in zip(names, v) if not okv]
        if kind == "chk":
            nchk += 1
            if len(res["nodes"]) > 1:
                distinct.add(vlib.structural_hash([cv["mdp"], case["h"], case["seed"], case["rao"], case["rno"], k]))
        elif kind == "pchk":
            npchk += 1
        else:
            nrun += 1
        if failed and (i, k) not in reported:
            reported.add((i, k))
            why = search_failing(cv, res)
            detail = {"case": case, "plan_index": k, "failed_clauses": failed, "checker": kind,
                      "impl": {key: res[key] for key in ("converged", "iterations", "initial_value", "value_map",
                                                         "solution_states", "tips", "policy")}}
            tag = "reused-planner:" if k > 0 else ""
            if why:
                detail["failing_clause"] = why
                ctx.violation("C03:" + tag + why["clause"], detail, found=True)
            else:
                detail["correspondence"] = ("model/LAOStar.v:%s (theorems props/C03.v) rejects the implementation's %s"
                                            % ("c03_check" if kind == "chk" else "c03_proper_check" if kind == "pchk" else "c03_run_raw", "recorded run" if kind == "run" else "result"))
                ctx.violation("C03:%s%s-rejects:%s" % (tag, {"chk": "certificate", "pchk": "proper-certificate", "run": "run"}[kind], "+".join(failed)), detail, found=False)
    # large family: judged in Python only (see INFO / coverage)
    nlarge_done, large_info = 0, []
    if th:
        th.join()
        if "err" in box:
            ctx.violation("C03:large:impl-runner-failed", {"case": {"family": "large"}, "error": box["err"][:1500]}, found=False)
        else:
            for i, r in zip(large, box["res"]):
                case = cases[i]
                slim = {key: val for key, val in case.items()}
                if "error" in r:
                    ctx.violation("C03:laostar-raises:" + r["error"].split(":")[0], {"case": slim, "error": r["error"]}, found=True)
                    continue
                for k, rk in enumerate(r["plans"]):
                    nlarge_done += 1
                    if "error" in rk:
                        ctx.violation("C03:large:laostar-raises:" + rk["error"].split(":")[0],
                                      {"case": slim, "plan_index": k, "error": rk["error"]}, found=True)
                        continue
                    why = judge_large(view(case, k), rk)
                    if rk.get("inputs_mutated"):
                        ctx.violation("C03:planning-mutates-the-caller's-MDP-objects", {"case": slim, "plan_index": k}, found=False)
                    large_info.append({"family": case["family"], "states": case["plans"][k]["mdp"]["n"], "iterations": rk["iterations"],
                                       "converged": rk["converged"], "solution_states": len(rk["solution_states"])})
                    if why:
                        found = why.pop("found", True)
                        ctx.violation("C03:large:" + why["clause"],
                                      {"case": slim, "plan_index": k, "failing_clause": why,
                                       "impl": {key: rk[key] for key in ("converged", "iterations", "initial_value", "tips")}},
                                      found=found)
    sample = None
    if cases:
        c0 = cases[small[0]] if small else None
        if c0 is not None and "plans" in impl[small[0]]:
            r0 = impl[small[0]]["plans"][0]
            sample = {"case": c0, "impl": {key: r0.get(key) for key in ("converged", "initial_value", "value_map", "policy")}}
    ctx.coverage.update({
        "evaluations": nchk + nrun + nanc + npchk + nlarge_done,
        "distinct_nontrivial": len(distinct),
        "rule": ("a case is ONE LAOStar object (heuristic, seed 0..3, randomize_action_order / randomize_nextstate_order on/off) and the list of MDPs it plans on in turn. "
                 "family random: MDPs from harness/gen_mdp.py (1..%d states, 1..3 actions, state-dependent action sets, k/8 probabilities, zero entries, duplicate rows, explicit/implicit absorbing states incl. absorbing initial states, multi-state initial distributions; gamma in {1/2,3/4,7/8,9/10,19/20}, or gamma = 1 proper) or gen_sparse (6..%d states, forward-moving, side chains); in 40%% of them the same object then plans on a perturbed MDP with the same labels (re-drawn probabilities/rewards) and possibly on the first one again. "
                 "family neartie: chains of states with two actions of identical transitions (self-loop 1 - 2^-10), per-step reward gap 2^-22..2^-21, both id orders, gamma in {1, 1-2^-10, 1-2^-12}. "
                 "random-family tweaks (one per case at most): rare branches 2^-27..2^-60 with rewards ~1/p / treasure states / tiny initial entries; slow-exit state whose only route to termination has probability 2^-27..2^-32 (gamma = 1); non-dyadic thirds / tenths / sevenths incl. a row of ten 0.1s; extreme 1-2^-k rows; rewards x1e3 / x1e5; corridors of 3..13 states; reuse of the planner on an unrelated problem of another size and then on the first again. "
                 "family ladder: d = 2..4 levels of DEPENDENT near-ties (level i only prefers `down` after level i+1 switched), relative gaps 6e-8..1.2e-4 at magnitudes 1..5e6, gamma in {1, 127/128, 63/64, 31/32, 99/100}. "
                 "declared-absorbing states with their OWN action set and outgoing (ignored) rows back into the graph (free_absorbing / gen_mdp absorbing_out=free); is_absorbing returning bool / int / np.int64 / np.bool_; TabularMarkovDecisionProcess.from_matrices with boolean or integer arrays. "
                 "family longchain: acyclic corridor of 301..377 states planned with default arguments (Python-judged like large). "
                 "family large: ~1100-way stochastic dispatch planned with DEFAULT constructor arguments (iteration budget), judged in Python only (convergence flag, exact backward-induction optimum, exact policy return, closure/consistency) because the Coq certificate is too slow at that size. "
                 "heuristic in {constant upper bound, exact optimum rounded up to a double, optimum + per-state slack} (admissible for every MDP of the case); distinct = structural hash of (MDP, heuristic, seed, flags, position in the plan list); non-trivial = explicit graph with more than one node" % ((7, 13) if tier == "quick" else (10, 16))),
        "samples": [sample] if sample else [],
        "certificate_checks": nchk, "run_checks": nrun,
        "undiscounted_plans": sum(1 for x in infos if x["undiscounted"]),
        "undiscounted_plans_all_policies_proper_certified": npchk,
        "ancestor_mirror_evaluations": nanc, "ancestor_mirror_drift_cases": anc_drift,
        "main_loop_iterations_checked": sum(x["steps"] for x in infos),
        "plans": nplans, "plans_on_reused_planner_object": nreuse,
        "budget_one_short_honestly_unconverged": nshort,
        "neartie_cases": sum(1 for c in cases if c.get("family") == "neartie"),
        "ladder_cases": sum(1 for c in cases if c.get("family") == "ladder"),
        "revisions_with_absorbing_ancestor": sum(x["abs_anc"] for x in infos),
        "revisions_with_absorbing_ancestor_of_other_action_set": sum(x["abs_anc_other"] for x in infos),
        "revisions_switching_two_or_more_best_actions": sum(x["multi_switch"] for x in infos),
        "large_python_only": large_info,
        "cases_with_unexplored_reachable_states": sum(1 for x in infos if x["pruned"]),
        "cases_C_smaller_than_explored": sum(1 for x in infos if x["nC"] < x["nExplored"]),
        "cases_solution_graph_differs_from_C": sum(1 for x in infos if not x["sol_eq_C"]),
        "input_features": feats, "cases": len(cases),
    })
