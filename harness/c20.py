"""C20 — built-in domains define well-formed models for every layout and parameter.

Correspondence (every run): generated layouts / parameters -> msdm domain objects (harness/impl/c20_impl.py)
  * GridWorld: exact comparison with the Gallina mirror model/GridWorld.v (gw_dump, vm_compute) of
    state_list, is_absorbing, actions, every next-state distribution, every positive-successor reward,
    the initial distribution, wall / absorbing cell sets; ValueIteration().plan_on completes, finite.
  * Tiger, LoadUnload, HeavenOrHell, CliffWalking, WindyGridWorld: exact comparison with the mirrors in
    model/Domains.v, evaluated on msdm's own state list (+ closure checkers hh_closed_check / windy_closed_check).
  * all domains: the proved-sound certificate checker model/Domains.v:wf_check (theory/DomainsTheory.v:
    wf_check_sound) evaluated in Coq on what msdm returned (normalisation, successors inside the state list,
    finite rewards, >= 1 action, initial and observation distributions).
When something differs an independent Python oracle (Fractions) looks for a concrete failing clause of the property.
"""
from fractions import Fraction as F
import itertools
import vlib
from vlib import nat, natlist, coqlist, b as cb

INFO = {
    "level": "proof",
    "coq_files": ["model/GridWorld.v", "model/Domains.v"],
    "trusted_base": [
        "discrete models over Z/nat/Q: the theorems are about the very functions vm_compute runs (no transfer)",
        "layout strings reach the model as lists of rows of character codes; parameters are dyadic rationals "
        "(exact as doubles); uniform initial probabilities 1/n are compared with the correctly rounded double of 1/n",
        "gridstringutils.string_to_element_array / GridMDP.grid parsing is modelled by: one symbol per character, "
        "'.' = no feature (GridWorld only); layouts contain no whitespace",
    ],
    "assumptions": [
        "layouts are rectangular, contain no whitespace characters, at least one row and one column",
        "state lists of reachability-defined domains (windy, cliff, heaven-or-hell) are taken from msdm and checked "
        "for closure by a Coq-evaluated checker rather than re-derived",
    ],
}

PRE = """From Coq Require Import ZArith QArith List Bool.
From MSDM Require Import model.GridWorld model.Domains theory.DomainsClosure.
Import ListNotations.
Local Open Scope Z_scope.
Definition tcode (s : tside) : Z := match s with TL => 0 | TR => 1 end.
Definition tiger_dump (c : Q) :=
  ( map (fun s => map (fun a => map (fun nsp => (tcode (fst nsp), qz (snd nsp), qz (tiger_reward s a (fst nsp))))
                                    (tiger_next s a)) tiger_actions) tiger_states,
    map (fun a => map (fun ns => map (fun op => (tcode (fst op), qz (snd op))) (tiger_obs c a ns)) tiger_states) tiger_actions,
    map (fun sp => (tcode (fst sp), qz (snd sp))) tiger_init ).
Definition ocode (o : luobs) : Z := match o with OLoad => 0 | OUnload => 1 | OOther => 2 end.
Definition lu_dump (n : nat) :=
  ( lu_states n,
    map (fun s => map (fun d => let ns := lu_step (Z.of_nat n) s d in (ns, qz (lu_reward s ns))) lu_actions) (lu_states n),
    map (fun s => map (fun op => ocode (fst op)) (lu_obs (Z.of_nat n) s)) (lu_states n) ).
Definition hh_dump (g : layout) (c stepc hr lr : Q) (sl : list hhstate) :=
  ( (hh_closed_check g false sl, hh_closed_check g true sl),
    map (fun s => (hh_is_absorbing g s,
                   map (fun a => let ns := hh_step g s a in (ns, qz (hh_reward g stepc hr lr ns))) hh_actions)) sl,
    map (fun a => map (fun ns => map (fun op => (fst op, qz (snd op))) (hh_obs g c a ns)) sl) hh_actions,
    map (fun sp => (fst sp, qz (snd sp))) (hh_init g) ).
Definition windy_dump (w : windyp) (sl : list pos) :=
  ( (windy_closed_check w false sl, windy_closed_check w true sl),
    map (fun s => (windy_is_absorbing w s,
                   map (fun a => map (fun nsp => (fst nsp, qz (snd nsp), qz (windy_reward w s a (fst nsp))))
                                     (windy_next w s a)) gm_actions)) sl,
    map (fun sp => (fst sp, qz (snd sp))) (windy_init w),
    windy_states w ).
Definition cliff_dump (rows : layout) (sl : list pos) :=
  ( map (fun s => (cliff_is_absorbing rows s,
                   map (fun a => map (fun nsp => (fst nsp, qz (snd nsp), qz (cliff_reward rows s a)))
                                     (cliff_next rows s a)) gm_actions)) sl,
    map (fun sp => (fst sp, qz (snd sp))) (cliff_init rows),
    cliff_states rows ).
"""

KINDNAME = {"gridworld": "gridworld", "windy": "windygridworld", "cliff": "cliffwalking", "tiger": "tiger",
            "loadunload": "loadunload", "heavenorhell": "heavenorhell"}
TOL = F(1, 10**9)


# ---------------------------------------------------------------------------------------------
# literals
# ---------------------------------------------------------------------------------------------
def ql(x):
    f = vlib.frac(x)
    return "((%d) # %d)%%Q" % (f.numerator, f.denominator)


def dbl(x):
    """the double msdm is given for a generated parameter, as an exact rational (identity on dyadic parameters)"""
    return F(float(vlib.frac(x)))


def rd(x):
    """round an exact rational to the nearest double: what ONE IEEE operation on exact operands returns"""
    return F(float(x))


def qd(x):
    return ql(dbl(x))


def zl(n):
    return "(%d)" % int(n)


def posl(p):
    return "(%s, %s)" % (zl(p[0]), zl(p[1]))


def symlist(chars):
    return natlist(ord(c) for c in chars)


def rowsl(rows):
    return coqlist(symlist(r) for r in rows)


def frewl(fr):
    return coqlist("(%s, %s)" % (nat(ord(f)), qd(r)) for f, r in fr.items())


def fz(v):
    """(num, den) pair printed by qz -> Fraction"""
    return F(int(v[0]), int(v[1]))


def fr_of(x):
    """impl exact encoding -> Fraction or None (non finite)"""
    if x is None or isinstance(x, str):
        return None
    return vlib.frac(x)


# ---------------------------------------------------------------------------------------------
# generators
# ---------------------------------------------------------------------------------------------
QUART = ["0", "1/4", "1/2", "3/4", "1"]
GAMMAS = ["1/2", "3/4", "7/8", "9/10", "19/20", "1"]
NEAR = ["1048575/1048576", "1/1073741824"]        # 1 - 2^-20 and 2^-30: exact doubles next to the boundaries


P40, P52, P60 = "1/1099511627776", "1/4503599627370496", "1/1152921504606846976"
Q40, Q52 = "1099511627775/1099511627776", "4503599627370495/4503599627370496"
TINY = [P40, P52, Q40, Q52]            # 2^-40, 2^-52 and their complements: exact doubles far below isclose's atol
NONDY = ["1/3", "1/10", "7/10", "2/7", "9/10", "2/3"]
NONDY_R = ["1/10", "-7/10", "1/3", "-1/7", "-3/10"]


def prob_choice(rng, base, tiny=TINY, nondy=True):
    r = rng.random()
    if r < .08:
        return rng.choice(NEAR)
    if r < .17:
        return rng.choice(tiny)
    if nondy and r < .25:
        return rng.choice(NONDY)
    return rng.choice(base)


def is_dyadic(x):
    d = F(x).denominator
    return d & (d - 1) == 0


def f32_exact(x):
    f = F(x)
    return is_dyadic(f) and abs(f.numerator).bit_length() <= 24 and f.denominator <= 2 ** 40


def neg(v):
    return v[1:] if v.startswith("-") else "-" + v


def gamma_choice(rng, base):
    r = rng.random()
    if r < .04:
        return "0"
    if r < .05:
        return "1048575/1048576"    # value iteration runs to its iteration cap: kept rare
    return rng.choice(base)


def rand_rows(rng, alphabet, weights, hmax=4, wmax=5, need=None):
    r = rng.random()
    if r < .1:
        h, w = 1, rng.randint(1, wmax)
    elif r < .2:
        h, w = rng.randint(1, hmax), 1
    else:
        h, w = rng.randint(1, hmax), rng.randint(1, wmax)
    rows = [[rng.choices(alphabet, weights)[0] for _ in range(w)] for _ in range(h)]
    return rows


def place(rng, rows, c, n=1):
    h, w = len(rows), len(rows[0])
    for _ in range(n):
        rows[rng.randrange(h)][rng.randrange(w)] = c


def cut(rng, rows, c):
    """a full row or column of c: cuts the grid in two"""
    h, w = len(rows), len(rows[0])
    if w >= 2 and (h < 2 or rng.random() < .5):
        x = rng.randrange(w)
        for y in range(h):
            rows[y][x] = c
    elif h >= 2:
        y = rng.randrange(h)
        for x in range(w):
            rows[y][x] = c


def gen_gridworld(rng, rows=None, simple=False):
    alphabet = [".", "#", "g", "s", "x", "a", "c"]
    weights = [45, 15, 8, 10, 10, 6, 6]
    feats = {"cut": False, "nostart": False, "overlap": False, "emptyroles": False}
    if rows is None:
        rows = rand_rows(rng, alphabet, weights)
        if rng.random() < .2:
            cut(rng, rows, "g")
            feats["cut"] = True
        if rng.random() < .93:
            if not any("s" in r for r in rows) or rng.random() < .3:
                place(rng, rows, "s", rng.randint(1, 3))
    absf, wallf, inif = ["g"], ["#"], ["s"]
    r = rng.random()
    if not simple and r < .15:
        absf, wallf, inif = ["g", "x"], ["#", "c"], ["s", "a"]
    elif not simple and r < .25:     # overlapping roles are accepted by the constructor
        absf, wallf, inif = ["g", "a"], ["#", "a"], ["s", "g"]
        feats["overlap"] = True
    elif not simple and r < .30:     # empty feature-role collections
        absf, wallf, inif = rng.choice([([], ["#"], ["s"]), (["g"], [], ["s"]), ([], [], ["s"])])
        feats["emptyroles"] = True
    gamma = gamma_choice(rng, GAMMAS)
    big = not simple and rng.random() < .06
    ndr = not simple and not big and rng.random() < .1      # non-dyadic rewards (0.1, -0.7, 1/3 ...)
    if simple or rng.random() < .15:
        fr = None
    else:
        fr = {}
        for f in rng.sample(["g", "x", "a", "c", "s", "#"], rng.randint(0, 4)):
            v = F(rng.choice([-1000000, 1000000, -65536, 1000, 1000000000, -4000000001])) / (1 if rng.random() < .5 else 4) \
                if big else (F(rng.choice(NONDY_R)) if ndr else F(rng.randint(-40, 40), 4))
            if f not in absf and v > 0 and F(gamma) > F(99, 100):
                v = -v          # gamma ~ 1: no positive-reward cycles (value iteration would not converge)
            fr[f] = str(v)
    step = rng.choice(["-1", "-1", "-1/2", "0", "-2", "1/4"]) if not big else rng.choice(["-1000", "-1"])
    if ndr:
        step = rng.choice(["-1/10", "-1/3"])
    if F(gamma) > F(99, 100) and F(step) > 0:
        step = "-1"
    rows = ["".join(r) for r in rows]
    feats["nostart"] = not any(c in inif for r in rows for c in r)
    case = {"kind": "gridworld", "rows": rows, "tile_as": rng.choice(["list", "str", "tuple", "str_padded"]),
            "feat_form": rng.choice(["tuple", "list", "str"]), "frew_form": rng.choice(["dict", "pairs"]),
            "ints": rng.random() < .4, "decoy": rng.random() < .3,
            "absorbing_features": absf, "wall_features": wallf, "initial_features": inif,
            "feature_rewards": fr, "step_cost": step,
            "success_prob": prob_choice(rng, ["0", "1/4", "1/2", "3/4", "1", "1"], tiny=TINY + [P60]),
            "discount_rate": gamma, "plan": not feats["nostart"], "feats": feats}
    return finish(rng, case, ["step_cost", "success_prob"])


def windy_f32_safe(case):
    """every float32 intermediate of the windy pipeline (products p*q, sums of r*p) is exact: quarter-valued wind
    probability and small quarter-valued costs / rewards"""
    vals = [case["step_cost"], case["wall_bump_cost"]] + list((case.get("feature_rewards") or {}).values())
    return case["wind_probability"] in QUART and all(is_dyadic(v) and abs(F(v)) <= 64 and F(v).denominator <= 4 for v in vals)


def finish(rng, case, numeric_keys):
    """forms and reuse scenarios shared by all domains"""
    vals = [case[k] for k in numeric_keys] + list((case.get("feature_rewards") or {}).values())
    pk = [case[k] for k in ("success_prob", "wind_probability", "coherence") if k in case]
    if not case.get("ints") and all(f32_exact(v) for v in vals) and all(f32_exact(1 - F(v)) for v in pk) \
            and (case["kind"] != "windy" or windy_f32_safe(case)) and rng.random() < .25:
        case["np32"] = True          # numpy float32 scalars (only where every parameter is exact in float32)
        case["ints"] = False
    case["rebuild"] = rng.choice([None, None, 0, 1, 2])
    case["shared_planner"] = rng.random() < .5
    case.setdefault("decoy", rng.random() < .3)
    return case


def gen_windy(rng, default_fr=False, rows=None, wp=None):
    alphabet = [".", "#", "$", "@", "^", "v", "<", ">", "x"]
    weights = [40, 12, 6, 8, 7, 7, 7, 7, 6]
    fixed = rows is not None
    rows = [list(r) for r in rows] if fixed else rand_rows(rng, alphabet, weights)
    feats = {"cut": False}
    if not fixed and rng.random() < .15:
        cut(rng, rows, "$")
        feats["cut"] = True
    if not any("@" in r for r in rows) or (not fixed and rng.random() < .2):
        place(rng, rows, "@", rng.randint(1, 2))
    gamma = gamma_choice(rng, ["1/2", "3/4", "9/10", "19/20", "99/100", "1"])
    startf, goalf, wallf = rng.choice([(None, None, None)] * 3 + [("@$", "$", "#"), ("@x", "$x", "#"), ("@", "$", "#x")])
    goals = goalf or "$"
    wprob = wp if wp is not None else prob_choice(rng, QUART, tiny=[P40, Q40])
    big = rng.random() < .06 and wprob in QUART
    ndr = not big and rng.random() < .08
    fr = {}
    for f in rng.sample(["x", "$", ".", "^", "@"], rng.randint(0, 3)):
        v = F(rng.choice([-1000000, 1000000, -65536, 1000])) if big else (F(rng.choice(NONDY_R)) if ndr else F(rng.randint(-40, 40), 4))
        if f not in goals and v > 0 and F(gamma) > F(99, 100):
            v = -v
        fr[f] = str(v)
    case = {"kind": "windy", "rows": ["".join(r) for r in rows], "feature_rewards": None if default_fr else fr,
            "step_cost": rng.choice(["-1/10", "-1/3"]) if ndr else rng.choice(["-1", "-1/2", "0"]),
            "wall_bump_cost": rng.choice(["-1", "0", "-5/2"]),
            "wind_probability": wprob, "discount_rate": gamma, "feats": feats,
            "start_features": startf, "goal_features": goalf, "wall_features": wallf,
            "pad": rng.random() < .4, "ints": rng.random() < .4, "decoy": rng.random() < .3}
    # the windy pipeline performs several float operations per number: with non-dyadic inputs the exact-rational
    # mirror is compared within 1e-12 (new inputs only; dyadic cases stay bit-exact)
    case["approx"] = not all(is_dyadic(v) for v in [case["step_cost"], case["wall_bump_cost"], wprob] + list(fr.values()))
    return finish(rng, case, ["step_cost", "wall_bump_cost", "wind_probability"])


def gen_hh(rng, default=False, rows_in=None):
    feats = {"cut": False}
    if default:
        rows = None
    else:
        alphabet = [".", "#", "g", "h", "c", "s"]
        weights = [45, 15, 10, 10, 10, 10]
        rows = rand_rows(rng, alphabet, weights, hmax=3, wmax=4)
        if rng.random() < .15:
            cut(rng, rows, rng.choice("gh"))
            feats["cut"] = True
        if not any("s" in r for r in rows) or rng.random() < .2:
            place(rng, rows, "s", 1)
        rows = ["".join(r) for r in rows]
    if rows_in is not None:
        rows = rows_in
    case = {"kind": "heavenorhell", "rows": rows, "coherence": prob_choice(rng, QUART, tiny=TINY + [P60]),
            "discount_rate": gamma_choice(rng, ["1/2", "3/4", "19/20", "1"]),
            "step_cost": rng.choice(["-1", "-1/2", "0", "-1/10"]),
            "heaven_reward": rng.choice(["50", "10", "0", "1000000", "1/3", "1000000000"]),
            "hell_reward": rng.choice(["-50", "-10", "0", "-1000000", "-7/10"]),
            "feats": feats, "pad": rng.random() < .4, "ints": rng.random() < .4, "decoy": rng.random() < .3}
    return finish(rng, case, ["coherence", "step_cost", "heaven_reward", "hell_reward"])


def gen_cases(rng, tier):
    cases = []
    ngw, nwd, nhh = (240, 120, 80) if tier == "quick" else (2000, 800, 500)
    for _ in range(ngw):
        cases.append(gen_gridworld(rng))
    if tier != "quick":
        # exhaustive small layouts over the reduced alphabet . # g s
        for (h, w) in [(1, 1), (1, 2), (2, 1), (1, 3), (3, 1), (2, 2), (2, 3)]:
            for cells in itertools.product(".#gs", repeat=h * w):
                rows = [list(cells[i * w:(i + 1) * w]) for i in range(h)]
                cases.append(gen_gridworld(rng, rows=rows, simple=True))
    # sizes at the edges: a single cell (one non-terminal state), start = goal, corridors of odd length
    for rows in (["s"], ["g"], ["s.....g"], ["s", ".", ".", ".", ".", ".", "g"]):
        cases.append(gen_gridworld(rng, rows=[list(r) for r in rows], simple=True))
    for _ in range(nwd):
        cases.append(gen_windy(rng))
    for rows in (["@"], ["@.....$"], [">>>@>>$"]):
        cases.append(gen_windy(rng, rows=rows))
    for rows in (["s"], ["s.....c"], ["g", ".", "s", ".", "h"]):
        cases.append(gen_hh(rng, rows_in=rows))
    # rarely taken branches of _effect_of_walls: wind pushes off the grid and the action leaves on the other axis
    # (both clamps + two bump costs), wind into a wall, wind along a border, every wind direction at a corner
    for rows in (["<@"], ["@>"], ["v@"], ["^", "@"], ["@", "v"], ["<.", "@."], [".>", ".@"], ["#<@"], [">#", "@."], ["^@", "#."]):
        for wp in ("1", "1/2"):
            cases.append(gen_windy(rng, rows=rows, wp=wp))
    cases.append(gen_windy(rng, default_fr=True))
    for i in range(nhh):
        cases.append(gen_hh(rng, default=(i == 0)))
    for c in QUART + NEAR + TINY + NONDY:
        for g in (["3/4", "19/20"] if tier == "quick" else ["0", "1/2", "3/4", "19/20", "1"]):
            case = {"kind": "tiger", "coherence": c, "discount_rate": g, "ints": c in ("0", "1") and g == "3/4"}
            cases.append(finish(rng, case, ["coherence"]))
    for n in ([1, 2, 3, 4, 5, 7, 8] if tier == "quick" else list(range(1, 14)) + [20]):
        case = {"kind": "loadunload", "nstates": n, "discount_rate": rng.choice(["1/2", "19/20", "99/100"])}
        cases.append(finish(rng, case, []))
    cases.append({"kind": "cliff"})
    return cases


# ---------------------------------------------------------------------------------------------
# generic certificate term (all domains): msdm's output re-indexed against msdm's own state list
# ---------------------------------------------------------------------------------------------
def key(x):
    return vlib.structural_hash(x)


def entry_term(idx, p, r):
    it = "None" if idx is None else "(Some %s)" % nat(idx)
    rt = "None" if r is None else "(Some %s)" % ql(r)
    return "(%s, %s, %s)" % (it, ql(p), rt)


def wf_term(res):
    """-> (term, problems) where problems lists non-representable things (negative / non-finite probabilities)"""
    sl = res["state_list"]
    sidx = {key(s): i for i, s in enumerate(sl)}
    bad = []
    rows_t = []
    for si, row in enumerate(res["rows"]):
        acts_t = []
        for ai, ent in enumerate(row.get("next", [])):
            es = []
            for ns, p, r in ent:
                pf = fr_of(p)
                if pf is None:
                    bad.append(("non-finite probability", si, ai))
                    pf = F(-1)
                rf = fr_of(r) if pf > 0 else F(0)
                es.append(entry_term(sidx.get(key(ns)), pf, rf))
            acts_t.append(coqlist(es))
        rows_t.append(coqlist(acts_t))
    init_t = []
    for s, p in res.get("init", []):
        pf = fr_of(p)
        init_t.append(entry_term(sidx.get(key(s)), pf if pf is not None else F(-1), F(0)))
    obs_t = []
    nO = 0
    if "obs" in res:
        olist = []
        for a, per in res["obs"]:
            for ns, d in per:
                for o, p in d:
                    if key(o) not in olist:
                        olist.append(key(o))
        nO = len(olist)
        for a, per in res["obs"]:
            for ns, d in per:
                obs_t.append(coqlist(entry_term(olist.index(key(o)), fr_of(p) if fr_of(p) is not None else F(-1), F(0))
                                     for o, p in d))
    term = "wf_check %s %s %s %s %s %s" % (nat(len(sl)), nat(nO), ql(TOL), coqlist(rows_t), coqlist(init_t), coqlist(obs_t))
    return term, bad


def wf_oracle(case, res):
    """independent Python evaluation of the well-formedness clauses; returns list of (signature-suffix, detail)"""
    out = []
    sl = res["state_list"]
    skeys = {key(s) for s in sl}
    for si, row in enumerate(res["rows"]):
        if "error" in row:
            continue
        if len(row["actions"]) == 0:
            out.append(("state-without-actions", {"state": sl[si]}))
        for ai, ent in enumerate(row["next"]):
            tot = F(0)
            for ns, p, r in ent:
                pf = fr_of(p)
                if pf is None or pf < 0:
                    out.append(("probability-negative-or-not-finite", {"state": sl[si], "action": row["actions"][ai], "p": p}))
                    continue
                tot += pf
                if pf > 0 and key(ns) not in skeys:
                    out.append(("successor-of-absorbing-state-outside-state-list" if row["abs"] else "successor-outside-state-list",
                                {"state": sl[si], "action": row["actions"][ai], "successor": ns, "probability": str(pf)}))
                if pf > 0 and fr_of(r) is None:
                    out.append(("reward-not-finite", {"state": sl[si], "action": row["actions"][ai], "successor": ns, "reward": r}))
            if abs(tot - 1) > TOL:
                out.append(("next-state-distribution-not-normalised", {"state": sl[si], "action": row["actions"][ai], "sum": str(tot)}))
    nostart = case["kind"] == "gridworld" and case["feats"]["nostart"]
    if "init" in res and not nostart:
        tot = F(0)
        for s, p in res["init"]:
            pf = fr_of(p)
            tot += pf if pf is not None else 0
            if pf is None or pf < 0 or (pf > 0 and key(s) not in skeys):
                out.append(("initial-state-outside-state-list-or-bad-probability", {"state": s, "p": p}))
        if abs(tot - 1) > TOL:
            out.append(("initial-distribution-not-normalised", {"sum": str(tot)}))
    for a, per in res.get("obs", []):
        for ns, d in per:
            ps = [fr_of(p) for o, p in d]
            if any(p is None or p < 0 for p in ps) or abs(sum(ps) - 1) > TOL:
                out.append(("observation-distribution-not-normalised", {"action": a, "next_state": ns, "dist": d}))
    return out


# ---------------------------------------------------------------------------------------------
# canonical forms of implementation output
# ---------------------------------------------------------------------------------------------
def tup(x):
    return tuple(tup(y) for y in x) if isinstance(x, (list, tuple)) else x


def impl_dist(ent):
    """[[ns, p, r]...] -> {ns: (p, r)} over positive-probability successors"""
    d = {}
    for ns, p, r in ent:
        pf = fr_of(p)
        if pf is not None and pf == 0:
            continue
        k = tup(ns)
        if k in d:
            d[k] = (d[k][0] + pf, d[k][1])
        else:
            d[k] = (pf, fr_of(r))
    return d


def model_dist(lst, nkey):
    """model entries (key components..., (pn, pd), (rn, rd)) -> {key: (p, r)}, zero-probability entries dropped"""
    d = {}
    for e in lst:
        k = tup(e[:nkey]) if nkey > 1 else e[0]
        p, r = rd(fz(e[nkey])), rd(fz(e[nkey + 1]))
        if p == 0:
            continue
        d[k] = (d[k][0] + p, r) if k in d else (p, r)
    return d


F32TOL = F(4, 2 ** 24)      # a few float32 ulps: np.float32 parameters whose products / sums are rounded to 24 bits


def close_dist(md, idd, tol=F(1, 10 ** 12)):
    """same support; probabilities and rewards within 1e-12 (only used for non-dyadic windy inputs)"""
    if set(md) != set(idd):
        return False
    for k in md:
        (p, r), (ip, ir) = md[k], idd[k]
        if ip is None or ir is None or abs(p - ip) > tol or abs(r - ir) > tol * (1 + abs(r)):
            return False
    return True


def uniform_ok(impl_init, model_init, nkey):
    """impl: [[s, p]...]; model: [(key..., (1, n))]: same support, impl p is the double nearest to 1/n"""
    mi = {}
    for e in model_init:
        mi[tup(e[:nkey]) if nkey > 1 else e[0]] = fz(e[nkey])
    ii = {tup(s): fr_of(p) for s, p in impl_init}
    if set(mi) != set(ii):
        return False
    return all(ii[k] is not None and ii[k] == F(float(mi[k])) for k in mi)


# ---------------------------------------------------------------------------------------------
# grid world
# ---------------------------------------------------------------------------------------------
def gw_frew(case):
    fr = case["feature_rewards"]
    return {"g": "0"} if fr is None else fr


def gw_term(case):
    return "gw_dump (mkGW %s %s %s %s %s %s %s)" % (
        rowsl(case["rows"]), symlist(case["absorbing_features"]), symlist(case["wall_features"]),
        symlist(case["initial_features"]), frewl(gw_frew(case)), qd(case["step_cost"]), qd(case["success_prob"]))


def gw_oracle(case, res):
    """the grid-world clauses of the property, evaluated on msdm's output with Fractions (independent of the Coq model)"""
    rows = case["rows"]
    h, w = len(rows), len(rows[0])
    p = dbl(case["success_prob"])          # the doubles msdm was given
    step = dbl(case["step_cost"])
    fr = {f: dbl(v) for f, v in gw_frew(case).items()}

    def ch(s):
        x, y = s
        return rows[h - 1 - y][x] if 0 <= x < w and 0 <= y < h else None

    def feat(s):
        c = ch(s)
        return None if c in (None, ".") else c
    TERM = (-1, -1)
    sl = [tup(s) for s in res["state_list"]]
    out = []
    if sorted(sl) != sorted([TERM] + [(x, y) for x in range(w) for y in range(h)]):
        out.append(("state-list-is-not-grid-plus-terminal", {"state_list": sl}))
    for s, row in zip(sl, res["rows"]):
        if "error" in row:
            out.append(("transition-raises", {"state": s, "error": row["error"]}))
            continue
        for a, ent in zip(row["actions"], row["next"]):
            a = tuple(a)
            d = impl_dist(ent)
            det = {"state": s, "action": a, "dist": {str(k): [str(v[0]), str(v[1])] for k, v in d.items()}}
            if s == TERM or feat(s) in case["absorbing_features"]:
                if d != {TERM: (F(1), F(0))}:
                    out.append(("absorbing-feature-cell-or-terminal-does-not-go-to-zero-reward-terminal", det))
                continue
            tgt = (s[0] + a[0], s[1] + a[1])
            free = ch(tgt) is not None and feat(tgt) not in case["wall_features"] and tgt != s
            for ns, (pp, r) in d.items():
                if ns != s and ns != tgt:
                    out.append(("moves-other-than-commanded", det))
                if abs(ns[0] - s[0]) + abs(ns[1] - s[1]) > 1:
                    out.append(("moves-more-than-one-cell", det))
                if ns != s and (ch(ns) is None or feat(ns) in case["wall_features"]):
                    out.append(("enters-wall-or-leaves-grid", det))
                if r != rd(step + fr.get(feat(ns), F(0))):       # one float addition: correctly rounded sum
                    out.append(("reward-is-not-step-cost-plus-entered-cell-feature-reward", dict(det, successor=ns)))
            want = ({tgt: p, s: rd(1 - p)} if free else {s: F(1)})     # 1 - p is one float subtraction
            want = {k: v for k, v in want.items() if v != 0}
            if {k: v[0] for k, v in d.items()} != want:
                out.append(("success-probability-not-exact", dict(det, expected={str(k): str(v) for k, v in want.items()})))
    return out


def gw_branches(case, res, acc):
    """which branch of GridWorld.next_state_dist / reward each (state, action) went through (measured on the inputs)"""
    rows = case["rows"]
    h, w = len(rows), len(rows[0])

    def feat(s):
        x, y = s
        c = rows[h - 1 - y][x] if 0 <= x < w and 0 <= y < h else None
        return None if c in (None, ".") else c
    fr = gw_frew(case)
    for s, row in zip(res["state_list"], res["rows"]):
        s = tuple(s)
        for a in row.get("actions", []):
            t = (s[0] + a[0], s[1] + a[1])
            if s == (-1, -1):
                b = "terminal"
            elif feat(s) in case["absorbing_features"]:
                b = "absorbing-feature-cell"
            elif not (0 <= t[0] < w and 0 <= t[1] < h):
                b = "off-grid"
            elif feat(t) in case["wall_features"]:
                b = "wall" + ("-from-a-wall-cell" if feat(s) in case["wall_features"] else "")
            elif t == s:
                b = "no-op-action"
            elif F(case["success_prob"]) != 1:
                b = "slip-mix" + ("-p0" if F(case["success_prob"]) == 0 else "")
            else:
                b = "deterministic-move"
            acc[b] = acc.get(b, 0) + 1
            if b in ("slip-mix", "deterministic-move"):
                k = "reward:" + ("feature-with-reward" if feat(t) in fr else "feature-without-reward" if feat(t) else "plain-cell")
                acc[k] = acc.get(k, 0) + 1


def gw_compare(case, res, val):
    """exact diff of the mirror dump against msdm; returns list of difference names"""
    diffs = []
    states, rows, init, (walls, absn) = val
    sl = [tup(s) for s in res["state_list"]]
    if [tup(s) for s in states] != sl:
        diffs.append("state_list")
        return diffs
    for s, mrow, irow in zip(sl, rows, res["rows"]):
        mabs, macts = mrow
        if "error" in irow:
            diffs.append("transition-raises")
            continue
        if mabs != irow["abs"]:
            diffs.append("is_absorbing")
        if [tup(a) for a in irow["actions"]] != [(-1, 0), (0, -1), (0, 0), (0, 1), (1, 0)]:
            diffs.append("actions")
            continue
        for a, ment, ient in zip(irow["actions"], macts, irow["next"]):
            if model_dist(ment, 2) != impl_dist(ient):
                diffs.append("next_state_dist/reward")
    if "init" not in res or not uniform_ok(res["init"], init, 2):
        diffs.append("initial_state_dist")
    ex = res.get("extras", {})
    if [tup(s) for s in ex.get("walls", [])] != [tup(s) for s in walls]:
        diffs.append("walls")
    if [tup(s) for s in ex.get("absorbing_states", [])] != [tup(s) for s in absn]:
        diffs.append("absorbing_states")
    return sorted(set(diffs))


# ---------------------------------------------------------------------------------------------
# other domains: terms and comparers
# ---------------------------------------------------------------------------------------------
def tiger_term(case):
    return "tiger_dump %s" % qd(case["coherence"])


TS = {"left": 0, "right": 1}


ULP1 = F(1, 2 ** 52)


def tiger_exact(case):
    """1 - coherence is exactly representable, so c, 1 - c and 1 - (1 - c) are route-independent doubles"""
    c0 = dbl(case["coherence"])
    return rd(1 - c0) == 1 - c0


def tiger_compare(case, res, val):
    diffs = []
    nxt, obs, init = val
    if res["state_list"] != ["left", "right"]:
        return ["state_list"]
    for si, irow in enumerate(res["rows"]):
        if irow.get("actions") != ["left", "right", "listen"] or irow["abs"]:
            diffs.append("actions/is_absorbing")
            continue
        for ai in range(3):
            md = model_dist(nxt[si][ai], 1)
            idd = {TS[k]: v for k, v in impl_dist(irow["next"][ai]).items()}
            if md != idd:
                diffs.append("next_state_dist/reward")
    iobs = {a: {ns: {TS[o]: fr_of(p) for o, p in d if fr_of(p) != 0} for ns, d in per} for a, per in res.get("obs", [])}
    for ai, a in enumerate(["left", "right", "listen"]):
        for si, s in enumerate(["left", "right"]):
            exact = tiger_exact(case)
            mq = {e[0]: fz(e[1]) for e in obs[ai][si]}             # exact model values (c, 1 - c)
            io = iobs.get(a, {}).get(s)
            if exact or a != "listen":
                # 1 - coherence is a double: every float route (c, 1-c, 1-(1-c)) gives the same bits -> bit-exact
                if io != {k: rd(v) for k, v in mq.items() if rd(v) != 0}:
                    diffs.append("observation_dist")
            else:
                # non-dyadic coherence: msdm may reach c / 1-c by different float routes (c itself or 1-(1-c));
                # accept one ulp at 1.0 (2^-52 absolute) around the exact model value, nothing more
                if io is None or set(io) != {k for k, v in mq.items() if v != 0} \
                        or any(io[k] is None or abs(io[k] - mq[k]) > ULP1 for k in io):
                    diffs.append("observation_dist")
    if {TS[s]: fr_of(p) for s, p in res.get("init", [])} != {e[0]: fz(e[1]) for e in init}:
        diffs.append("initial_state_dist")
    return sorted(set(diffs))


def tiger_oracle(case, res):
    """property clause specific to tiger beyond well-formedness: listening reports the tiger's side with probability coherence"""
    out = []
    c0 = dbl(case["coherence"])
    for a, per in res.get("obs", []):
        if a != "listen":
            continue
        for ns, d in per:
            dd = {o: fr_of(p) for o, p in d}
            got = dd.get(ns)
            # bit-exact when 1 - coherence is a double (all float routes agree); else within one ulp at 1.0 of c
            bad = got is None or (got != c0 if tiger_exact(case) else abs(got - c0) > ULP1)
            c = c0
            if bad:
                out.append(("listen-accuracy-is-not-coherence", {"next_state": ns, "dist": d, "coherence": str(c)}))
    return out


def lu_term(case):
    return "lu_dump %s" % nat(case["nstates"])


OBS = {"load": 0, "unload": 1, "other": 2}


def lu_compare(case, res, val):
    diffs = []
    states, nxt, obs = val
    sl = [tup(s) for s in res["state_list"]]
    if [tup(s) for s in states] != sl:
        return ["state_list"]
    for si, irow in enumerate(res["rows"]):
        if [tup(a) for a in irow.get("actions", [])] != [(-1,), (1,)] or irow["abs"]:
            diffs.append("actions/is_absorbing")
            continue
        for ai in range(2):
            l, ld, r = nxt[si][ai]
            if impl_dist(irow["next"][ai]) != {(l, ld): (F(1), fz(r))}:
                diffs.append("next_state_dist/reward")
    for a, per in res.get("obs", []):
        for (ns, d), mo in zip(per, obs):
            if [(OBS[o], fr_of(p)) for o, p in d] != [(mo[0], F(1))]:
                diffs.append("observation_dist")
    if [(tup(s), fr_of(p)) for s, p in res.get("init", [])] != [((0, False), F(1))]:
        diffs.append("initial_state_dist")
    return sorted(set(diffs))


def hh_rows(case):
    return case["rows"] if case["rows"] is not None else ["h.g", "#.#", "#sc"]


def hh_state(s):
    x, y, hv, hl = s
    assert (hv, hl) in (("g", "h"), ("h", "g"))
    return "(%s, %s, %s)" % (zl(x), zl(y), cb(hv == "g"))


def hh_term(case, res):
    return "hh_dump %s %s %s %s %s %s" % (
        rowsl(hh_rows(case)), qd(case["coherence"]), qd(case["step_cost"]), qd(case["heaven_reward"]),
        qd(case["hell_reward"]), coqlist(hh_state(s) for s in res["state_list"]))


def hh_key(s):
    return (s[0], s[1], s[2] == "g")


HHA = [(0, -1, False), (0, 1, False), (-1, 0, False), (1, 0, False), (0, 0, True)]


def hh_compare(case, res, val):
    diffs = []
    closed_all, closed_nonabs, rows, obs, init = val
    for mrow, irow in zip(rows, res["rows"]):
        mabs, macts = mrow
        if "error" in irow:
            diffs.append("transition-raises")
            continue
        if mabs != irow["abs"]:
            diffs.append("is_absorbing")
        if [tup(a) for a in irow["actions"]] != HHA:
            diffs.append("actions")
            continue
        for ment, ient in zip(macts, irow["next"]):
            x, y, hv, r = ment
            idd = {hh_key(k): v for k, v in impl_dist(ient).items()}
            if idd != {(x, y, hv): (F(1), rd(fz(r)))}:
                diffs.append("next_state_dist/reward")
    iobs = {tup(a): per for a, per in res.get("obs", [])}
    for ai, a in enumerate(HHA):
        per = iobs.get(a)
        if per is None:
            diffs.append("observation_dist")
            continue
        for (ns, d), mo in zip(per, obs[ai]):
            md = {(e[0], e[1], chr(e[2])): rd(fz(e[3])) for e in mo if rd(fz(e[3])) != 0}
            idd = {}
            for o, p in d:
                if fr_of(p) != 0:
                    idd[tup(o)] = idd.get(tup(o), 0) + fr_of(p)
            # heaven == hell symbol cannot happen; coherence 1/2 keeps two distinct keys
            if md != idd:
                diffs.append("observation_dist")
    mi = {(e[0], e[1], e[2]): fz(e[3]) for e in init}
    if {hh_key(s): fr_of(p) for s, p in res.get("init", [])} != mi:
        diffs.append("initial_state_dist")
    return sorted(set(diffs)), closed_all, closed_nonabs


def windy_term(case, res):
    fr = case["feature_rewards"] or {}
    w = "(mkWindy %s %s %s %s %s %s %s %s)" % (
rowsl(case["rows"]), frewl(fr), qd(case["step_cost"]), qd(case["wall_bump_cost"]), qd(case["wind_probability"]),
        symlist(case.get("start_features") or "@"), symlist(case.get("goal_features") or "$"),
        symlist(case.get("wall_features") or "#"))
    return "windy_dump %s %s" % (w, coqlist(posl(s) for s in res["state_list"]))


GMA = [(0, -1), (0, 1), (1, 0), (-1, 0)]


def grid_compare(res, rows, init, approx=False, tol=F(1, 10 ** 12)):
    diffs = []
    for mrow, irow in zip(rows, res["rows"]):
        mabs, macts = mrow
        if "error" in irow:
            diffs.append("transition-raises")
            continue
        if mabs != irow["abs"]:
            diffs.append("is_absorbing")
        if [tup(a) for a in irow["actions"]] != GMA:
            diffs.append("actions")
            continue
        for ment, ient in zip(macts, irow["next"]):
            md, idd = model_dist(ment, 2), impl_dist(ient)
            if (not close_dist(md, idd, tol)) if approx else (md != idd):
                diffs.append("next_state_dist/reward")
    if "init" not in res or not uniform_ok(res["init"], init, 2):
        diffs.append("initial_state_dist")
    return sorted(set(diffs))


def cliff_term(case, res):
    return "cliff_dump cliff_grid %s" % coqlist(posl(s) for s in res["state_list"])


def input_features(cases, impl):
    """measured counters for the audit classes (numbers of generated cases / entries)"""
    def probs(c):
        return [c[k] for k in ("success_prob", "wind_probability", "coherence") if k in c]

    def nums(c):
        return probs(c) + [c[k] for k in ("step_cost", "wall_bump_cost", "heaven_reward", "hell_reward") if k in c] \
            + list((c.get("feature_rewards") or {}).values())
    tiny = lambda v: 0 < F(v) < F(1, 2 ** 27) or 0 < 1 - F(v) < F(1, 2 ** 27)
    f = {
        "tiny_probability_cases(<2^-27 from 0 or 1)": sum(1 for c in cases if any(tiny(v) for v in probs(c))),
        "tiny_probability_2^-60": sum(1 for c in cases if P60 in probs(c)),
        "non_dyadic_probability_cases": sum(1 for c in cases if any(not is_dyadic(v) for v in probs(c))),
        "non_dyadic_reward_cases": sum(1 for c in cases if any(not is_dyadic(v) for v in nums(c)[len(probs(c)):])),
        "windy_compared_within_1e-12": sum(1 for c in cases if c.get("approx")),
        "magnitude>=1e6_cases": sum(1 for c in cases if any(abs(F(v)) >= 10 ** 6 for v in nums(c))),
        "magnitude>=1e9_cases": sum(1 for c in cases if any(abs(F(v)) >= 10 ** 9 for v in nums(c))),
        "int_parameters": sum(1 for c in cases if c.get("ints")),
        "numpy_float32_parameters": sum(1 for c in cases if c.get("np32")),
        "decoy_object_first": sum(1 for c in cases if c.get("decoy")),
        "rebuilt_after_k_unrelated_objects": {str(k): sum(1 for c in cases if c.get("rebuild") == k) for k in (0, 1, 2)},
        "shared_planner_object": sum(1 for c in cases if c.get("shared_planner")),
        "discount_0": sum(1 for c in cases if c.get("discount_rate") == "0"),
        "discount_1-2^-20(VI to its iteration cap)": sum(1 for c in cases if c.get("discount_rate") == "1048575/1048576"),
    }
    one_state = eq = tinyent = arrays_checked = 0
    corr = set()
    for c, r in zip(cases, impl):
        sl = r.get("state_list")
        if not sl:
            continue
        nonterm = [s for s in sl if s != [-1, -1]]
        one_state += len(nonterm) == 1
        na = len((r.get("rows") or [{}])[0].get("actions", []))
        eq += len(sl) == na
        if c.get("rows") and (len(c["rows"]) == 1 or len(c["rows"][0]) == 1):
            corr.add(max(len(c["rows"]), len(c["rows"][0])))
        for row in r.get("rows", []):
            for ent in row.get("next", []):
                for ns, p, rw in ent:
                    pf = fr_of(p)
                    if pf is not None and 0 < pf < F(1, 2 ** 27):
                        tinyent += 1
        arrays_checked += bool(r.get("arrays", {}).get("arrays_match"))
    f.update({"one_nonterminal_state_cases": one_state, "n_states_equals_n_actions_cases": eq,
              "corridor_lengths": sorted(corr), "transition_entries_with_probability<2^-27": tinyent,
              "cases_with_arrays_equal_to_functions_exactly": arrays_checked})
    return f


# ---------------------------------------------------------------------------------------------
def run(ctx):
    tier = ctx.tier
    if ctx.replay_case:
        cases = [ctx.replay_case["detail"]["case"]]
    else:
        cases = gen_cases(ctx.rng, tier)
    import time
    t0 = time.time()
    impl = ctx.impl("c20_impl.py", {"cases": cases}, shards=8 if tier == "quick" else 16)["results"]
    t_impl = time.time() - t0

    terms, meta = [], []
    counts = {}
    stage_fail = {}
    branches = {}

    sig_count = {}

    def viol(case, sig, detail, found=True):
        full = "C20:%s:%s" % (KINDNAME[case["kind"]], sig)
        sig_count[full] = sig_count.get(full, 0) + 1
        if sig_count[full] > 3:      # at most 3 replay files per signature and run; the rest is counted
            return
        d = {"case": case}
        d.update(detail)
        ctx.violation(full, d, found=found)

    for i, (case, res) in enumerate(zip(cases, impl)):
        kind = case["kind"]
        counts[kind] = counts.get(kind, 0) + 1
        if "error" in res:       # runner-level failure
            viol(case, "runner-error:" + res["error"].split(":")[0], {"error": res["error"], "trace": res.get("trace")}, found=False)
            continue
        se = res.get("stage_error", {})
        # --- known-shape defect: WindyGridWorld(grid) with the default feature_rewards=None
        if kind == "windy" and case["feature_rewards"] is None:
            msg = " ".join(se.values())
            if "NoneType" in msg and "get" in msg:
                viol(case, "default-feature_rewards-none-raises",
                     {"clause": "a layout accepted by WindyGridWorld with its default parameters has no transition distribution: "
                                "next_state_dist raises", "stage_error": se,
                      "repro": "from msdm.domains.gridmdp.windygridworld import WindyGridWorld; "
                               "list(WindyGridWorld('@.$').state_list)  # AttributeError: 'NoneType' object has no attribute 'get' "
                               "(self.feature_rewards.get in _effect_of_features; feature_rewards defaults to None)"})
                continue
        if "construct" in se or "state_list" in se or "rows" not in res:
            viol(case, "constructor-or-state-list-raises:" + list(se.values())[0].split(":")[0], {"stage_error": se})
            continue
        # --- well-formedness oracle (python) + certificate (coq)
        wfo = wf_oracle(case, res)
        seen = set()
        for sig, det in wfo:
            if sig in seen:
                continue
            seen.add(sig)
            viol(case, sig, dict(det, clause=sig, stage_error=se))
        outside = any(s.endswith("outside-state-list") for s in seen)
        if "next" in se and not seen:
            viol(case, "transition-raises:" + se["next"].split(":")[0], {"stage_error": se})
        if "init" in se and not (kind == "gridworld" and case["feats"]["nostart"]):
            viol(case, "initial-distribution-raises:" + se["init"].split(":")[0], {"stage_error": se})
        if "obs" in se:
            viol(case, "observation-distribution-raises:" + se["obs"].split(":")[0], {"stage_error": se})
        for st in ("arrays", "plan", "extras"):
            if st in se and not outside:    # a successor outside the state list is the reported root cause
                viol(case, "%s-raise:%s" % (st, se[st].split(":")[0]), {"stage_error": se})
        if "arrays" in res and res["arrays"].get("arrays_match") is False:
            viol(case, "tabular-arrays-differ-from-functions",
                 {"clause": "transition / reward / initial / observation arrays do not hold exactly what next_state_dist, reward, "
                            "initial_state_dist, observation_dist return (an entry was dropped or changed)",
                  "mismatch": res["arrays"].get("arrays_mismatch")})
        if res.get("rebuild_same") not in (None, True) and not outside:
            viol(case, "same-problem-built-twice-differs",
                 {"clause": "a second object of the same problem, built after unrelated objects of the same class, answers differently",
                  "rebuild": res.get("rebuild_same")})
        if res.get("mutated"):
            viol(case, "caller-or-shared-object-mutated", {"mutated": res["mutated"]})
        if "arrays" in res:
            ar = res["arrays"]
            if not (ar["rows_normalised"] and ar["nonneg"] and ar["reward_finite"] and ar.get("obs_normalised", True)):
                viol(case, "tabular-arrays-malformed", {"arrays": ar})
        if "plan" in res and not (res["plan"]["finite"] and res["plan"]["policy_ok"]):
            viol(case, "value-iteration-result-not-finite", {"plan": res["plan"]})
        if res.get("requery_same") is not True and not outside and "next" not in se:
            viol(case, "object-reuse-changes-answers",
                 {"clause": "the same domain object, asked again after its arrays were built and it was planned on, "
                            "returns different state list / actions / distributions / rewards", "requery": res.get("requery_same")})
        for k in se:
            stage_fail[kind + ":" + k] = stage_fail.get(kind + ":" + k, 0) + 1
        if kind == "gridworld":
            gw_branches(case, res, branches)
        nostart = kind == "gridworld" and case["feats"]["nostart"]
        if not nostart:
            t, bad = wf_term(res)
            terms.append(t)
            meta.append(("wf", i, bool(seen) or bool(bad) or "init" in se))
        # --- mirrors
        if kind == "gridworld":
            terms.append(gw_term(case))
        elif kind == "tiger":
            terms.append(tiger_term(case))
        elif kind == "loadunload":
            terms.append(lu_term(case))
        elif kind == "heavenorhell":
            terms.append(hh_term(case, res))
        elif kind == "windy":
            terms.append(windy_term(case, res))
        elif kind == "cliff":
            terms.append(cliff_term(case, res))
        meta.append(("mirror", i, None))

    t0 = time.time()
    vals = ctx.coq(PRE, terms, shard=30 if tier == "quick" else 80)
    t_coq = time.time() - t0
    nwf = nmir = 0
    distinct = set()
    mirror_diffs = {}
    for (what, i, expect_bad), v in zip(meta, vals):
        case, res = cases[i], impl[i]
        kind = case["kind"]
        if isinstance(v, vlib.CoqError):
            viol(case, "coq-evaluation-failed", {"what": what, "error": str(v)[:800]}, found=False)
            continue
        if what == "wf":
            nwf += 1
            if v is not True and not expect_bad:
                # the certificate rejects but the python oracle found no failing clause
                viol(case, "certificate-rejects", {"correspondence": "model/Domains.v:wf_check rejects msdm's output"}, found=False)
            if v is True and expect_bad:
                viol(case, "oracle-and-certificate-disagree", {"note": "python oracle flagged a clause wf_check accepts"}, found=False)
            continue
        nmir += 1
        distinct.add(vlib.structural_hash({k: case[k] for k in case if k not in ("feats", "tile_as", "discount_rate", "plan")}))
        try:
            if kind == "gridworld":
                diffs = gw_compare(case, res, v)
                if case["feats"]["nostart"] and "init" in res and res["init"] == []:
                    pass
                orc = gw_oracle(case, res)
                seen = set()
                for sig, det in orc:
                    if sig not in seen:
                        seen.add(sig)
                        viol(case, sig, dict(det, clause=sig, mirror_diffs=diffs))
                if diffs and not orc:
                    viol(case, "mirror-differs:" + "+".join(diffs),
                         {"correspondence": "model/GridWorld.v:gw_dump differs from msdm", "diffs": diffs}, found=False)
            elif kind == "tiger":
                diffs = tiger_compare(case, res, v)
                orc = tiger_oracle(case, res)
                for sig, det in orc[:1]:
                    viol(case, sig, dict(det, clause=sig, mirror_diffs=diffs))
                if diffs and not orc:
                    viol(case, "mirror-differs:" + "+".join(diffs), {"diffs": diffs}, found=False)
            elif kind == "loadunload":
                diffs = lu_compare(case, res, v)
                if diffs:
                    viol(case, "mirror-differs:" + "+".join(diffs), {"diffs": diffs}, found=False)
            elif kind == "heavenorhell":
                diffs, call, cnon = hh_compare(case, res, v)
                if diffs:
                    viol(case, "mirror-differs:" + "+".join(diffs), {"diffs": diffs}, found=False)
                if not cnon:
                    viol(case, "closure-checker-rejects-non-absorbing", {"checker": "hh_closed_check g true"}, found=False)
            elif kind in ("windy", "cliff"):
                if kind == "windy":
                    call, cnon, rows, init, mstates = v
                else:
                    rows, init, mstates = v
                    cnon = True
                # np.float32 parameters outside the class where every float32 intermediate is exact (not generated any
                # more; kept for replays): msdm computes in float32, compare within a few float32 ulps
                f32noise = kind == "windy" and bool(case.get("np32")) and not windy_f32_safe(case)
                diffs = grid_compare(res, rows, init, approx=bool(case.get("approx")) or f32noise,
                                     tol=F32TOL if f32noise else F(1, 10 ** 12))
                # the executable closure the theorems windy_reach_closed / cliff_reach_closed are about
                # (theory/DomainsClosure.v: windy_states / cliff_states) = msdm's reachability-derived state_list
                if sorted(tup(x) for x in mstates) != sorted(tup(x) for x in res["state_list"]):
                    diffs = sorted(set(diffs + ["state_list"]))
                if diffs:
                    viol(case, "mirror-differs:" + "+".join(diffs), {"diffs": diffs}, found=False)
                if not cnon:
                    viol(case, "closure-checker-rejects-non-absorbing", {"checker": "windy_closed_check w true"}, found=False)
            for d in diffs:
                mirror_diffs[kind + ":" + d] = mirror_diffs.get(kind + ":" + d, 0) + 1
        except Exception as e:      # malformed dump = broken correspondence
            import traceback
            viol(case, "mirror-comparison-crashed", {"error": repr(e), "trace": traceback.format_exc()[-1200:], "value": str(v)[:500]}, found=False)

    gwc = [c for c in cases if c["kind"] == "gridworld"]
    ctx.coverage.update({
        "evaluations": nwf + nmir,
        "distinct_nontrivial": len(distinct),
        "rule": "per domain: random rectangular layouts up to 5x4 (grid world alphabet . # g s x a c with default and alternative / "
                "overlapping feature-role tuples; windy alphabet . # $ @ ^ v < > x; heaven-or-hell alphabet . # g h c s up to 4x3), "
                "10% one-row and 10% one-column grids, full goal rows/columns cutting the grid in two, start cells anywhere (7% of grid "
                "worlds without any start cell), success / wind probability and coherence in {0,1/4,1/2,3/4,1}, step costs, quarter-valued "
                "feature rewards, discount rates {1/2..1}; tiger all coherences; load-unload sizes 1..8 (thorough 1..13, 20); the cliff "
                "walking instance; thorough adds all layouts over . # g s of sizes 1x1, 1x2, 2x1, 1x3, 3x1, 2x2, 3x2 (w x h). distinct = structural hash of the case "
                "without discount rate; non-trivial = every case (each has >= 1 state with 2+ outcomes or a wall/goal interaction)",
        "samples": [{"case": cases[0], "impl_state_list": impl[0].get("state_list")}] if cases else [],
        "certificate_checks": nwf, "mirror_comparisons": nmir, "cases_per_domain": counts,
        "mirror_differences": mirror_diffs, "impl_stage_errors": stage_fail,
        "gridworld_features": {k: sum(1 for c in gwc if c["feats"].get(k)) for k in ("cut", "nostart", "overlap", "emptyroles")},
        "gridworld_sizes": sorted({"%dx%d" % (len(c["rows"][0]), len(c["rows"])) for c in gwc}),
        "success_probs": {p: sum(1 for c in gwc if c["success_prob"] == p) for p in QUART},
        "cases": len(cases), "input_features": input_features(cases, impl), "violation_signature_counts": sig_count, "gridworld_branch_counts": branches,
        "representations": {k: sum(1 for c in cases if c.get(k)) for k in ("ints", "decoy", "pad")},
        "gridworld_forms": {f: sum(1 for c in gwc if c.get("tile_as") == f or c.get("feat_form") == f or c.get("frew_form") == f)
                            for f in ("list", "str", "tuple", "str_padded", "dict", "pairs")},
        "near_boundary_probabilities": sum(1 for c in cases if c.get("success_prob") in NEAR or c.get("wind_probability") in NEAR
                                           or c.get("coherence") in NEAR),
        "seconds": {"impl": round(t_impl, 1), "coq": round(t_coq, 1)},
    })
