#!/usr/bin/env python3
"""try_benign.py <prop> <src_dir> <k> [--save]: apply a behaviour-preserving change in a scratch worktree, run ./check <prop>
(quick, seeds 0 and 1) against it; the check must stay silent.  --save stores it under /verif/benign/<prop>-<k>/"""
import json, os, shutil, subprocess, sys
prop, src, k = sys.argv[1], sys.argv[2], sys.argv[3]
save = "--save" in sys.argv
ROOT = os.path.dirname(os.path.dirname(os.path.abspath(__file__)))
d = os.path.join(src, k)
patch = os.path.join(d, "patch.diff")
def sh(cmd, **kw):
    return subprocess.run(cmd, shell=True, capture_output=True, text=True, **kw)
WT = "/tmp/benrun_%s_%s" % (prop, k)
sh("git -C /repo worktree remove --force %s" % WT)
assert sh("git -C /repo worktree add -q --detach %s HEAD" % WT).returncode == 0
r = sh("git -C %s apply %s" % (WT, patch))
if r.returncode != 0:
    print("PATCH DOES NOT APPLY:", r.stderr[-500:]); sh("git -C /repo worktree remove --force %s" % WT); sys.exit(2)
evf = os.path.join(ROOT, "evidence", prop + ".json")
ev_backup = open(evf).read() if os.path.exists(evf) else None
results = {}
try:
    demo = subprocess.run(["/venv/bin/python", os.path.join(d, "demo.py")], capture_output=True, text=True,
                          env=dict(os.environ, PYTHONPATH=WT), timeout=1800).returncode
    for seed in ("0", "1"):
        c = subprocess.run(["./check", prop, "--tier", "quick"], cwd=ROOT, capture_output=True, text=True,
                           env=dict(os.environ, VERIF_SEED=seed, MSDM_REPO=WT), timeout=3000)
        lines = [l for l in c.stdout.splitlines() if not l.startswith("KNOWN-FINDING")]
        sigs = []
        for l in lines:
            if l.startswith("VIOLATION"):
                rp = l.split("replay=")[1].split()[0]
                try:
                    sigs.append(json.load(open(os.path.join(ROOT, rp)))["signature"])
                except Exception:
                    pass
        results[seed] = {"exit": c.returncode, "tail": lines[-3:], "signatures": sorted(set(sigs))[:8],
                         "no_failing_input_found": sum("no-failing-input-found" in l for l in lines),
                         "violation_lines": sum(l.startswith("VIOLATION") for l in lines)}
finally:
    sh("git -C /repo worktree remove --force %s" % WT)
    sh("cd %s && python3 harness/extract_sites.py > /dev/null" % ROOT)
    if ev_backup is not None:
        open(evf, "w").write(ev_backup)
    sh("find %s/replays -name '%s_*' -newer %s -delete" % (ROOT, prop, patch))
alarm = any(v["exit"] != 0 for v in results.values())
print(json.dumps({"prop": prop, "k": k, "demo_patched_exit": demo, "check": results, "alarm": alarm}, indent=1))
if save:
    out = os.path.join(ROOT, "benign", "%s-%s" % (prop, k))
    os.makedirs(out, exist_ok=True)
    for f in ("patch.diff", "demo.py", "notes.md"):
        if os.path.exists(os.path.join(d, f)):
            shutil.copy(os.path.join(d, f), os.path.join(out, f))
    json.dump({"property": prop, "kind": "behaviour-preserving change (property still holds)",
               "demo_with_patch_exit": demo, "check_result": results, "check_raised_alarm": alarm,
               "repo_head": sh("git -C /repo rev-parse --short HEAD").stdout.strip()},
              open(os.path.join(out, "meta.json"), "w"), indent=1)
