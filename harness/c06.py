"""C06 — matrix, table and wrapper views of an MDP agree with its functional definition.

Correspondence: functional MDPs given by finite tables over mixed hashable labels
(harness/gen_mdp.py structure + the label generator below) -> msdm (harness/impl/c06_impl.py:
reachable_states with the pop order recorded, state/action lists, all arrays and tables, the
boolean vectors, from_matrices round trip, QuickTabularMDP / QuickMDP wrappers, ValueIteration on
original / rebuilt / wrapped) -> the Gallina model model/Tabular.v evaluated by vm_compute on the
same tables (ids instead of labels), compared exactly.  Independent Fraction oracle
(gen_mdp.arrays / spec_reach below) decides whether a difference is a violated clause of the
property (found=True) or a broken model (found=False).
"""
from fractions import Fraction as F
import vlib
from vlib import q, nat, natlist, bmat, blist, coqlist
import gen_mdp

INFO = {
    "level": "proof",
    "coq_files": ["model/Tabular.v", "theory/TabularTheory.v"],
    "trusted_base": [
        "labels (ints, strings, tuples, frozendicts) are replaced by nat ids harness-side; ids are ranks under a total "
        "order that extends Python's `<` wherever it is defined; `sorted()` succeeding is modelled as all pairs comparable "
        "(the harness checks both facts on every generated label set)",
        "the pop order of the built-in set is recorded through the calls reachable_states makes to actions() and replayed "
        "in the model (theorems hold for every pop order)",
        "generated probabilities/rewards are dyadic, so msdm's floats and the model's rationals are the same numbers",
    ],
    "assumptions": ["explicit state/action lists are duplicate-free and contain every positive-probability successor / available action",
                    "probabilities are non-negative"],
}

# Absorbing states with outgoing transitions are generated (14% of the cases), but only those where every
# positive-probability successor of a listed absorbing state is itself in msdm's reachable set (e.g. the absorbing
# state is initial, or its successors are reached some other way).  With True, inputs are also generated where a
# non-initial absorbing state has a successor nothing else reaches: the inferred state list omits it and
# transition_matrix raises KeyError (SIG_ABS_SUCC).  Coordinator decision: outside the property's consistent range
# (the text says such successors are not expanded, so no array could hold the row) -> not generated in gating runs.
GEN_ABSORBING_SUCC_OUTSIDE = False

SIG_ABS_INIT = "C06:reachable:absorbing-initial-state-expanded"
SIG_ABS_SUCC = "C06:matrices:absorbing-state-successor-outside-state-list"
SIG_ZERO_INIT = "C06:plan:zero-probability-initial-state-outside-state-list"

PRE = """From Coq Require Import List Arith Bool QArith ZArith.
From MSDM Require Import model.Tabular.
Import ListNotations.
Local Open Scope Q_scope.
Definition qz (x : Q) := let y := Qred x in (Qnum y, Zpos (Qden y)).
Definition qz1 := map qz. Definition qz2 := map qz1. Definition qz3 := map qz2.
Definition dz (d : dist) := map (fun e => (fst e, qz (snd e))) d.
Definition tabcmp (t : list (list bool)) (x y : nat) := nth y (nth x t []) false.
Definition c06_view (m : fmdp) (sl al : list nat) :=
  let M := to_matrices m sl al in
  (defined m sl al, qz1 (m_s0 M), qz3 (m_tf M), qz2 (m_am M), qz3 (m_rf M),
   qz2 (sa_reward_matrix (m_rf M) (m_tf M)), m_abs M, dead_end_vec (m_am M),
   unable_vec (m_gamma M) (m_tf M) (m_am M) (m_abs M), qz (m_gamma M)).
Definition c06_sl m es cs ords fuel := state_list m es (tabcmp cs) (fun _ => ords) pick_head fuel.
Definition c06_al m es ea cs ca ords orda fuel :=
  action_list m (c06_sl m es cs ords fuel) ea (tabcmp ca) (fun _ => orda).
Definition c06_lists m es ea cs ca ords orda fuel :=
  let r := reachable m pick_head None fuel in
  let sl := c06_sl m es cs ords fuel in
  let aset := action_set m sl in
  (r, reachable m pick_last None fuel, sortable (tabcmp cs) r, sl,
   aset, sortable (tabcmp ca) aset, c06_al m es ea cs ca ords orda fuel).
Definition c06_reach m (runs : list (option nat * list nat)) fuel :=
  map (fun r => reach_run m (pick_trace (snd r)) (fst r) fuel) runs.
Definition c06_funcs m sl :=
  (dz (finit m), map (fun s => (factions m s, fabsorbing m s, map (fun a => dz (fnext m s a)) (factions m s))) sl).
Definition c06_rebuilt m sl al fuel :=
  let m2 := from_matrices (to_matrices m sl al) in
  (reachable m2 pick_head None fuel, c06_funcs m2 sl, c06_view m2 sl al).
Definition c06_quick (mq : option fmdp) cs ca ords orda fuel :=
  match mq with
  | None => None
  | Some m => Some (true, c06_lists m None None cs ca ords orda fuel,
                    c06_view m (c06_sl m None cs ords fuel) (c06_al m None None cs ca ords orda fuel))
  end.
Definition with_const_reward (m : fmdp) (r : Q) :=
  mkF (finit m) (factions m) (fnext m) (fun _ _ _ => r) (fabsorbing m) (fgamma m).
Definition c06_case m es ea cs ca ords orda ordsq ordaq runs fuel (mv : option fmdp) ordsv ordav :=
  let sl := c06_sl m es cs ords fuel in
  let al := c06_al m es ea cs ca ords orda fuel in
  (c06_reach m runs fuel, c06_lists m es ea cs ca ords orda fuel, c06_view m sl al,
   c06_rebuilt m sl al fuel, c06_quick (quick_wrap m) cs ca ordsq ordaq fuel,
   c06_quick mv cs ca ordsv ordav fuel).
Definition c06_funcs_r m sl :=
  (dz (finit m), map (fun s => (factions m s, fabsorbing m s,
     map (fun a => map (fun e => (fst e, qz (snd e), qz (freward m s a (fst e)))) (fnext m s a)) (factions m s))) sl).
Definition c06_raw (M : mats) cs ca ordsq ordaq fuel :=
  let m := from_matrices M in
  (reachable m pick_head None fuel, c06_funcs_r m (m_sl M), c06_view m (m_sl M) (m_al M),
   c06_quick (quick_wrap m) cs ca ordsq ordaq fuel).
Local Open Scope Z_scope.
"""

# ---------------------------------------------------------------------------
# labels
# ---------------------------------------------------------------------------
WORDS = ["a", "b", "ab", "B", "goal", "s0", "x", "left", "", "z9", "Up", "north"]

try:
    from frozendict import frozendict as _fd
except Exception:                                   # stand-in without ordering
    class _fd(dict):
        def __hash__(self):
            return hash(frozenset(self.items()))


def dec(e):
    k, v = e
    if k == "i":
        return int(v)
    if k == "s":
        return str(v)
    if k == "f":
        return float(v)
    if k == "b":
        return bool(v)
    if k == "t":
        return tuple(dec(x) for x in v)
    return _fd({kk: dec(vv) for kk, vv in v})


def tkey(e):
    """total order extending Python's `<` on the decoded labels wherever that is defined"""
    k, v = e
    if k in ("i", "f", "b"):                 # ints, floats and bools compare with each other by value
        return (0, float(v))
    if k == "s":
        return (1, v)
    if k == "t":
        return (2, [tkey(x) for x in v])
    return (3, [[kk, tkey(vv)] for kk, vv in sorted(v)])


def gen_label(rng, kind, depth=0):
    if kind == "int":
        return ["i", rng.randint(-3, 12)]
    if kind == "num":                        # ints, non-integral floats, 0.0, False / True
        r = rng.random()
        if r < .45:
            return ["i", rng.randint(-3, 12)]
        if r < .85:
            return ["f", rng.choice([-1.5, 0.5, 2.5, 0.0, 7.25, 1e6])]
        return ["b", rng.random() < .5]
    if kind == "str":
        return ["s", rng.choice(WORDS)]
    if kind == "tup":
        return ["t", [["i", rng.randint(0, 3)], ["i", rng.randint(0, 3)]]]
    if kind == "tup_is":
        return ["t", [["i", rng.randint(0, 2)], ["s", rng.choice(WORDS)]]]
    if kind == "fd":
        keys = rng.choice([["x", "y"], ["dx", "dy"], ["x"]])
        return ["d", [[k, ["i", rng.randint(-1, 2)]] for k in keys]]
    # mixed
    r = rng.random()
    if r < .06:
        return gen_label(rng, "num")
    if r < .22:
        return gen_label(rng, "int")
    if r < .44:
        return gen_label(rng, "str")
    if r < .56:
        return gen_label(rng, "fd")
    if r < .64 or depth >= 2:
        return gen_label(rng, rng.choice(["tup", "tup_is"]))
    k = rng.randint(0, 3)
    return ["t", [gen_label(rng, "mixed", depth + 1) for _ in range(k)]]


FALSY = {"int": [["i", 0]], "num": [["i", 0], ["f", 0.0], ["b", False]], "str": [["s", ""]], "fd": [["d", []]],
         "mixed": [["i", 0], ["f", 0.0], ["b", False], ["s", ""], ["t", []], ["d", []]]}


def is_falsy(e):
    return not dec(e)


def gen_labels(rng, n, kind):
    out, seen = [], set()
    tries = 0
    if kind in FALSY and rng.random() < .35:      # a falsy label (0, 0.0, False, "", (), frozendict())
        e = rng.choice(FALSY[kind])
        out.append(e)
        seen.add(repr(e))
    while len(out) < n:
        e = gen_label(rng, kind)
        h = repr(e)
        tries += 1
        if h in seen:
            if tries > 200:                       # tiny universe exhausted: fall back to fresh ints
                e = ["i", 100 + len(out)]
                h = repr(e)
            else:
                continue
        seen.add(h)
        out.append(e)
    out.sort(key=tkey)
    return out


def comparable(x, y):
    try:
        x < y
        y < x
        return True
    except TypeError:
        return False


def cmp_table(labels):
    objs = [dec(e) for e in labels]
    return [[comparable(x, y) for y in objs] for x in objs]


def label_universe_ok(labels):
    """harness invariants: ids distinct as Python objects; `<` agrees with id order where defined;
    sorted() of any pair-wise comparable subset = id order (checked on the whole list when comparable)"""
    objs = [dec(e) for e in labels]
    if len(set(objs)) != len(objs):
        return False
    for i, x in enumerate(objs):
        for j, y in enumerate(objs):
            if i < j and comparable(x, y) and not (x < y):
                return False
    return True


def py_sorted_ids(labels, ids):
    """what Python's sorted() does on the labels of `ids`: id sequence, or None on TypeError"""
    objs = {i: dec(labels[i]) for i in ids}
    inv = {v: k for k, v in objs.items()}
    try:
        return [inv[o] for o in sorted(objs.values())]
    except TypeError:
        return None


# ---------------------------------------------------------------------------
# cases
# ---------------------------------------------------------------------------
def gen_case(rng, tier):
    nmax = 5 if tier == "quick" else 7
    # probabilities that are NOT dyadic (tenths, 0.7/0.2/0.1, thirds, sevenths, 1/k over many outcomes): the case then
    # holds the exact rational of the double msdm receives (see float_exact), so "the arrays hold exactly the numbers the
    # functions return" is compared bit-exactly against the floats the functions return
    nondyadic = rng.random() < .3
    if nondyadic and rng.random() < .4:
        nmax = 11                                   # room for many-outcome rows (ten outcomes of 0.1)
    r = rng.random()
    abs_out = r < .14
    # boundary discount rates: 1, 0 (myopic; falsy in Python), 2^-20; else gen_mdp's 1/2..19/20
    rg = rng.random()
    gamma = "1" if rg < .2 else "0" if rg < .32 else "1/1048576" if rg < .37 else "1048575/1048576" if rg < .42 else None
    qv = None
    uniform = False
    if rng.random() < .25:
        qv = {"det": rng.random() < .5, "const_reward": rng.random() < .5, "const_actions": rng.random() < .5,
              "init_state": rng.random() < .4, "init_callable": rng.random() < .5}
        uniform = qv["const_actions"]
    no_goal = not abs_out and rng.random() < .08          # no explicitly absorbing state at all
    m = gen_mdp.gen_mdp(rng, nmax=nmax, amax=3, gamma=gamma, uniform_actions=uniform, goal=not no_goal,
                        absorbing_out=("free" if abs_out else "self"), min_states=2 if abs_out else 1)
    n, nA = m["n"], m["nA"]
    if abs_out and rng.random() < .6:
        # start in an absorbing state (with positive probability)
        ab = [s for s in range(n) if m["absorbing"][s]]
        if ab:
            s = rng.choice(ab)
            if s not in [x for x, _ in m["init"]]:
                m["init"][0][0] = s
    if nondyadic and qv is None:
        def nd_split(k):
            r2 = rng.random()
            if r2 < .3:
                return [F(1, k)] * k                                    # 1/k each (k = 10: ten outcomes of 0.1)
            if k == 3 and r2 < .5:
                return rng.choice([[F(7, 10), F(2, 10), F(1, 10)], [F(3, 10), F(3, 10), F(4, 10)], [F(1, 3)] * 3])
            den = rng.choice([d for d in (3, 5, 6, 7, 9, 10, 100) if d >= k])
            return gen_mdp._split_prob(rng, k, denom=den)
        for key in sorted(m["trans"]):
            s_, a_ = map(int, key.split(","))
            if m["absorbing"][s_] or rng.random() < .35:
                continue
            k = rng.choice([2, 3, 3, min(n, 5), n]) if n >= 2 else 1
            k = max(1, min(k, n))
            if k == 1:
                continue
            succ = rng.sample(range(n), k)
            row = [[ns, str(p)] for ns, p in zip(succ, nd_split(k))]
            if k < n and rng.random() < .15:
                row.append([rng.choice([x for x in range(n) if x not in succ]), "0"])
            rng.shuffle(row)
            for kk in [kk for kk in m["reward"] if kk.startswith(key + ",")]:
                m["reward"].pop(kk)
            for ns, p in row:
                if rng.random() < .6:
                    r3 = F(rng.randint(-16, 16), 4)
                    if rng.random() < .3:
                        r3 = rng.choice([F(1, 10), F(1, 3), F(-7, 10), F(2, 7), F(-1, 3)])    # non-dyadic rewards
                    if r3 != 0:
                        m["reward"]["%s,%d" % (key, ns)] = str(r3)
            m["trans"][key] = row
        if rng.random() < .5:
            k = rng.randint(2, min(n, 4)) if n >= 2 else 1
            if k >= 2:
                m["init"] = [[s_, str(p)] for s_, p in zip(rng.sample(range(n), k), nd_split(k))]
    if qv and uniform and rng.random() < .5:
        perm = list(range(nA))
        rng.shuffle(perm)
        m["actions"] = [list(perm) for _ in range(n)]
    if qv and qv["det"]:
        for k, row in m["trans"].items():
            ns = rng.choice([x for x, p in row if F(p) > 0])
            m["trans"][k] = [[ns, "1"]]
    if qv and qv["init_state"]:
        m["init"] = [[m["init"][0][0], "1"]]
    if qv and qv["const_reward"]:
        m["reward_const"] = str(F(rng.randint(-8, 8), 4))
        m["reward"] = {"%s,%d" % (k, ns): m["reward_const"] for k, row in m["trans"].items() for ns, p in row}
    elif qv:
        qv["const_reward"] = False
    # reward entries on zero-probability successors (must not reach the reward matrix)
    for k, row in m["trans"].items():
        for ns, p in row:
            if F(p) == 0 and "reward_const" not in m and rng.random() < .7:
                m["reward"]["%s,%d" % (k, ns)] = str(F(rng.randint(-8, 8), 4) or 1)
    # a dead end (state without actions)
    if not uniform and n >= 2 and rng.random() < .1:
        s = rng.randrange(n)
        for a in m["actions"][s]:
            m["trans"].pop("%d,%d" % (s, a))
            for k in [k for k in m["reward"] if k.startswith("%d,%d," % (s, a))]:
                m["reward"].pop(k)
        m["actions"][s] = []
    # large magnitudes / tiny relative gaps between rewards (separate cases: the float sums stay exact)
    if qv is None and m["reward"] and rng.random() < .12:
        keys = sorted(m["reward"])
        if rng.random() < .5:
            for k in rng.sample(keys, min(len(keys), 2)):
                m["reward"][k] = str(rng.choice([1, -1]) * rng.choice([1000, 2 ** 20, 10 ** 6, 10 ** 9, 10 ** 9 + 1000]))
        else:
            base = F(rng.randint(-3, 3))
            for k, d in zip(rng.sample(keys, min(len(keys), 2)), [F(1, 2 ** 30), -F(1, 2 ** 30)]):
                m["reward"][k] = str(base + d)
    # near-boundary initial probabilities (S0 keeps p > 0 however small)
    pos = [e for e in m["init"] if F(e[1]) > 0]
    if not (qv and qv["init_state"]) and len(pos) >= 2 and rng.random() < .12:
        tiny = F(1, 2 ** rng.choice([27, 30, 40]))
        rest = [e for e in m["init"] if F(e[1]) == 0]
        pos = pos[:2]
        pos[0][1], pos[1][1] = str(1 - tiny), str(tiny)
        rng.shuffle(pos)
        m["init"] = pos + rest
    # boundary of the implicit-absorbing rule (exact `== 1` / `== 0` tests in absorbing_state_vec):
    # a NON-absorbing state whose every action self-loops with probability 1 - 2^-k (rest elsewhere, no rewards),
    # or self-loops with probability exactly 1 but earns a reward of +-2^-30 on one action.  All dyadic: floats exact.
    m_boundary = None
    if qv is None and rng.random() < .22:
        cand = [s for s in range(n) if m["actions"][s] and not m["absorbing"][s]]
        pref = [s for s in cand if s in [x for x, p in m["init"] if F(p) > 0]]
        if cand:
            s = rng.choice(pref or cand)
            kind = rng.choice(["prob", "prob", "reward"]) if n >= 2 else "reward"
            if nA >= 2 and not uniform and rng.random() < .45:
                kind = "cancel"                      # rewards of both signs that cancel across the actions
                m["actions"][s] = rng.sample(range(nA), rng.randint(2, nA))
                for a in range(nA):
                    if a not in m["actions"][s]:
                        m["trans"].pop("%d,%d" % (s, a), None)
            for k in [k for k in m["reward"] if k.startswith("%d," % s)]:
                m["reward"].pop(k)
            if kind == "prob":
                for a in set(m["actions"][s]):
                    eps = F(1, 2 ** rng.choice([10, 20, 30]))
                    other = rng.choice([x for x in range(n) if x != s])
                    row = [[s, str(1 - eps)], [other, str(eps)]]
                    rng.shuffle(row)
                    m["trans"]["%d,%d" % (s, a)] = row
            elif kind == "cancel":
                acts_ = list(m["actions"][s])
                for a in acts_:
                    m["trans"]["%d,%d" % (s, a)] = [[s, "1"]]
                r_ = F(rng.choice([1, 2, 3, 5]), rng.choice([1, 4]))
                vals = [r_, -r_] if len(acts_) == 2 or rng.random() < .5 else [2 * r_, -r_, -r_]
                rng.shuffle(acts_)
                for a, v in zip(acts_, vals):
                    m["reward"]["%d,%d,%d" % (s, a, s)] = str(v)
            else:
                for a in set(m["actions"][s]):
                    m["trans"]["%d,%d" % (s, a)] = [[s, "1"]]
                a = rng.choice(m["actions"][s])
                m["reward"]["%d,%d,%d" % (s, a, s)] = str(rng.choice([1, -1]) * F(1, 2 ** 30))
            m_boundary = kind
    # corridor: n not a power of two, the last state n-1 steps from the start (reachability / Floyd-Warshall depth)
    chain = False
    if qv is None and not abs_out and not nondyadic and rng.random() < .05:
        chain = True
        n = rng.choice([6, 7, 9, 11])
        nA = rng.randint(1, 2)
        stay = rng.random() < .5
        m.update({"n": n, "nA": nA, "actions": [list(range(nA)) for _ in range(n)], "trans": {}, "reward": {},
                  "absorbing": [False] * (n - 1) + [rng.random() < .6], "init": [[0, "1"]]})
        for s_ in range(n):
            for a_ in range(nA):
                nxt = min(s_ + 1, n - 1)
                if a_ == 1:
                    m["trans"]["%d,%d" % (s_, a_)] = [[s_, "1"]]
                elif stay and nxt != s_:
                    m["trans"]["%d,%d" % (s_, a_)] = [[nxt, "3/4"], [s_, "1/4"]]
                else:
                    m["trans"]["%d,%d" % (s_, a_)] = [[nxt, "1"]]
                if nxt != s_ or a_ == 1:
                    m["reward"]["%d,%d,%d" % (s_, a_, nxt if a_ == 0 else s_)] = "-1"
        m["reward"].pop("%d,0,%d" % (n - 1, n - 1), None)
        m_boundary = None
    # a tiny positive probability (2^-27 .. 2^-60, below isclose's atol) that decides the answer: preferably the ONLY
    # route into a state, optionally carrying a reward ~1/p
    tiny_route = None
    if qv is None and not chain and n >= 2 and rng.random() < .18:
        reach_now = spec_reach({"mdp": m}, True)
        rows = [k for k in sorted(m["trans"]) if int(k.split(",")[0]) in reach_now and not m["absorbing"][int(k.split(",")[0])]
                and int(k.split(",")[1]) in m["actions"][int(k.split(",")[0])]]
        if rows:
            key = rng.choice(rows)
            row = m["trans"][key]
            outside = [t for t in range(n) if t not in reach_now]
            cand = [t for t in (outside or range(n)) if t not in [x for x, _ in row]]
            if cand:
                t = rng.choice(cand)
                kx = rng.choice([27, 30, 40, 60])
                big = max(row, key=lambda e: F(e[1]))
                if kx <= 40 and F(big[1]).denominator <= 8 and F(big[1]) > F(1, 8):
                    big[1] = str(F(big[1]) - F(1, 2 ** kx))      # row still sums to 1 exactly
                row.append([t, str(F(1, 2 ** kx))])               # (k = 60: the float row sum is 1.0 either way)
                rng.shuffle(row)
                if rng.random() < .5 and "reward_const" not in m:
                    m["reward"]["%s,%d" % (key, t)] = str(rng.choice([1, -1]) * 2 ** kx)
                tiny_route = kx
    # no action anywhere: empty action list, arrays of shape (n, 0, n)
    if qv is None and not abs_out and n <= 2 and rng.random() < .25:
        m["actions"] = [[] for _ in range(n)]
        m["trans"], m["reward"] = {}, {}
        m_boundary = None
    # actions(s) listing an action twice (assignment, not accumulation, fills the arrays)
    if not uniform and rng.random() < .08:
        cand = [s for s in range(n) if m["actions"][s]]
        if cand:
            s = rng.choice(cand)
            m["actions"][s] = list(m["actions"][s])
            m["actions"][s].insert(rng.randint(0, len(m["actions"][s])), rng.choice(m["actions"][s]))
    skind = rng.choice(["int", "int", "num", "str", "tup", "tup_is", "fd", "mixed", "mixed", "mixed"])
    akind = rng.choice(["int", "num", "str", "str", "tup", "fd", "mixed", "mixed"])
    case = {"mdp": m, "slabels": gen_labels(rng, n, skind), "alabels": gen_labels(rng, nA, akind),
            "skind": skind, "akind": akind, "abs_out": abs_out, "boundary": m_boundary,
            # pass the discount rate as a Python int (0 / 1) instead of a float (0.0 / 1.0)
            "gamma_int": m["gamma"] in ("0", "1") and rng.random() < .5,
            "explicit_states": None, "explicit_actions": None, "qv": qv,
            "cutoffs": sorted(set([rng.randint(0, n + 1) for _ in range(rng.randint(1, 3))]
                                  + ([0] if rng.random() < .35 else []) + ([1] if rng.random() < .35 else []))),
            "cutoff_positional": rng.random() < .5,
            "vi": {"max_iterations": 60, "max_residual": "1/100000"}}
    # falsy start state for the `initial_state=` form of the quick constructor
    if qv and qv["init_state"]:
        fal = [i for i, e in enumerate(case["slabels"]) if is_falsy(e)]
        if fal:
            m["init"] = [[fal[0], "1"]]
    # representations: reachable_states call order / float cut-offs, list vs tuple containers, msdm's own
    # Deterministic / Uniform distribution classes where a row has that shape
    order = [None] + case["cutoffs"]
    rng.shuffle(order)
    case.update({"reach_order": order, "cutoff_float": rng.random() < .3, "actions_as_list": rng.random() < .3,
                 "explicit_as_list": rng.random() < .4, "fm_lists": rng.choice(["domaintuple", "list", "tuple"]),
                 "dist_repr": "native" if rng.random() < .4 else "dict"})
    # hand-made dense arrays for from_matrices that are NOT canonical: the base MDP's arrays plus transition rows under
    # unavailable actions, rewards on zero-probability transitions, truthy action-matrix entries other than 1
    if rng.random() < .4:
        sl, al = list(range(n)), list(range(nA))
        rng.shuffle(sl)
        rng.shuffle(al)
        P, R, av, absf, ini = gen_mdp.arrays(m, sl, al)
        for i in range(n):
            for j in range(nA):
                if not av[i][j] and rng.random() < .7:
                    succ = rng.sample(range(n), rng.randint(1, min(3, n)))
                    for k2, pr in zip(succ, gen_mdp._split_prob(rng, len(succ))):
                        P[i][j][k2] = pr
                for k2 in range(n):
                    if (not av[i][j] or P[i][j][k2] == 0) and rng.random() < .6:
                        R[i][j][k2] = F(rng.randint(-16, 16), 4) or F(1)
        case["raw"] = {"sl": sl, "al": al, "s0": [str(x) for x in ini],
                       "tf": [[[str(x) for x in r] for r in mm] for mm in P],
                       "rf": [[[str(x) for x in r] for r in mm] for mm in R],
                       "am": [[("2" if rng.random() < .1 else "1") if x else "0" for x in r] for r in av],
                       "abs": [bool(x) for x in absf]}
    r = rng.random()
    if r < (.5 if abs_out else .3):
        p = list(range(n))
        rng.shuffle(p)
        case["explicit_states"] = p
    if rng.random() < .3:
        p = list(range(nA))
        rng.shuffle(p)
        case["explicit_actions"] = p
    case["nondyadic"] = bool(nondyadic and qv is None)
    case["tiny_route"], case["chain"] = tiny_route, chain
    float_exact(case)
    # (4) shared mutable input objects, (6) integer-typed inputs and float32 / int arrays for from_matrices
    case["share_objects"] = rng.random() < .35
    case["int_rewards"] = rng.random() < .3
    if case.get("raw"):
        nums = [F(x) for x in case["raw"]["s0"]] + [F(x) for mm in case["raw"]["tf"] + case["raw"]["rf"] for r in mm for x in r]
        f32 = all(x.denominator & (x.denominator - 1) == 0 and abs(x.numerator) < 2 ** 24 and x.denominator <= 2 ** 100 for x in nums)
        ints = all(x.denominator == 1 for x in nums)
        case["raw_dtype"] = rng.choice(["float64", "float64"] + (["float32"] if f32 else []) + (["int", "int"] if ints else []))
    if rng.random() < .012:
        case["big_chain"] = {"L": rng.randint(1000, 2000), "cutoffs": [rng.randint(0, 2200) for _ in range(2)]}
    return case


def fx(p):
    """the exact rational of the double nearest to p (identity on dyadic numbers)"""
    return str(F(float(F(p))))


def float_exact(case):
    """replace every probability by the exact rational of the double msdm is given: impl (float(Fraction)), model and
    oracle then all work with the very same number"""
    m = case["mdp"]
    for row in m["trans"].values():
        for e in row:
            e[1] = fx(e[1])
    for e in m["init"]:
        e[1] = fx(e[1])
    for k in m["reward"]:
        m["reward"][k] = fx(m["reward"][k])
    raw = case.get("raw")
    if raw:
        raw["rf"] = [[[fx(x) for x in r] for r in mm] for mm in raw["rf"]]
        raw["s0"] = [fx(x) for x in raw["s0"]]
        raw["tf"] = [[[fx(x) for x in r] for r in mm] for mm in raw["tf"]]


def drop_tiny(case):
    """the case with every probability below isclose's default atol (1e-8) removed"""
    m = dict(case["mdp"])
    m["trans"] = {k: [[ns, p] for ns, p in row if not (0 < F(p) < F(1, 10 ** 8))] for k, row in m["trans"].items()}
    m["init"] = [[s_, p] for s_, p in m["init"] if not (0 < F(p) < F(1, 10 ** 8))]
    return {"mdp": m}


def spec_reach(case, expand_initial):
    """least set containing the positive initial support and closed under positive-probability
    successors of expanded members; expanded = non-absorbing (the property's words), or
    non-absorbing or initial (expand_initial=True: what msdm does)"""
    m = case["mdp"]
    s0 = [s for s, p in m["init"] if F(p) > 0]
    seen = set(s0)
    todo = [s for s in s0 if expand_initial or not m["absorbing"][s]]
    while todo:
        s = todo.pop()
        for a in m["actions"][s]:
            for ns, p in m["trans"]["%d,%d" % (s, a)]:
                if F(p) != 0 and ns not in seen:
                    seen.add(ns)
                    if not m["absorbing"][ns]:
                        todo.append(ns)
    return seen


def absorbing_successor_outside(case):
    """some state msdm reaches has a positive-probability successor that msdm's reachable set omits
    (only possible below a non-initial absorbing state)"""
    m = case["mdp"]
    full = spec_reach(case, True)
    return any(F(p) != 0 and ns not in full for s in full for a in m["actions"][s] for ns, p in m["trans"]["%d,%d" % (s, a)])


def absorbing_initial_witness(case):
    """[absorbing state in the positive initial support, positive-probability successor] pairs whose successor the
    property's wording (absorbing states not expanded) leaves out of the reachable set"""
    m = case["mdp"]
    words = spec_reach(case, False)
    return [[s, ns] for s, p0 in m["init"] if F(p0) > 0 and m["absorbing"][s]
            for a in m["actions"][s] for ns, p in m["trans"]["%d,%d" % (s, a)] if F(p) != 0 and ns not in words]


def raw_functional(case):
    """the functional MDP that from_matrices builds from the raw arrays (its closures read them like this),
    as a gen_mdp-style case over the same ids: the oracle for every view of that MDP"""
    raw, m = case["raw"], case["mdp"]
    sl, al = raw["sl"], raw["al"]
    n, nA = len(sl), len(al)
    actions = [None] * n
    trans, reward = {}, {}
    for i, s in enumerate(sl):
        actions[s] = [al[j] for j in range(nA) if F(raw["am"][i][j]) != 0]
        for j, a in enumerate(al):
            trans["%d,%d" % (s, a)] = [[sl[k], raw["tf"][i][j][k]] for k in range(n) if F(raw["tf"][i][j][k]) > 0]
            for k in range(n):
                reward["%d,%d,%d" % (s, a, sl[k])] = raw["rf"][i][j][k]
    absb = [None] * n
    for i, s in enumerate(sl):
        absb[s] = raw["abs"][i]
    fm = {"n": n, "nA": nA, "actions": actions, "trans": trans, "reward": reward, "absorbing": absb,
          "init": [[sl[i], raw["s0"][i]] for i in range(n) if F(raw["s0"][i]) > 0], "gamma": m["gamma"]}
    d = dict(case)
    d.update({"mdp": fm, "explicit_states": sl, "explicit_actions": al})
    return d


def raw_term(case, res):
    raw = case["raw"]
    n = len(raw["sl"])
    M = "(mkM %s %s %s %s %s %s %s %s)" % (natlist(raw["sl"]), natlist(raw["al"]), vlib.qlist(raw["s0"]), vlib.qten(raw["tf"]),
                                          vlib.qmat(raw["am"]), vlib.qten(raw["rf"]), blist(raw["abs"]), q(case["mdp"]["gamma"]))
    qk = res.get("raw_quick", {})
    return "c06_raw %s %s %s %s %s %s" % (M, bmat(cmp_table(case["slabels"])), bmat(cmp_table(case["alabels"])),
                                          natlist(lst(qk, "state_list")), natlist(lst(qk, "action_list")), nat(3 * n + 6))


def oracle_view(case, sl, al):
    """independent exact expectation of every array in the given orders (None: an index is missing)"""
    m = case["mdp"]
    try:
        P, R, av, absf, ini = gen_mdp.arrays(m, sl, al)
    except KeyError:
        return None
    for s in sl:
        if any(a not in al for a in m["actions"][s]):
            return None
    nS, nA = len(sl), len(al)
    dead = [not any(av[i]) for i in range(nS)]
    absv = []
    for i in range(nS):
        selfloop = all((P[i][j][i] == 1) or not av[i][j] for j in range(nA)) and not dead[i]
        zero = all(R[i][j][k] == 0 for j in range(nA) for k in range(nS))
        absv.append(bool((selfloop and zero) or absf[i]))
    if F(m["gamma"]) < 1:
        unable = [False] * nS
    else:
        can = list(absv)
        for _ in range(nS):
            can = [can[i] or any(av[i][j] and P[i][j][k] > 0 and can[k] for j in range(nA) for k in range(nS)) for i in range(nS)]
        unable = [not c for c in can]
    return {"s0": ini, "tf": P, "am": [[F(int(x)) for x in r] for r in av], "rf": R,
            "sarf": [[sum(P[i][j][k] * R[i][j][k] for k in range(nS)) for j in range(nA)] for i in range(nS)],
            "abs": absv, "dead": dead, "unable": unable, "gamma": F(m["gamma"])}


# ---------------------------------------------------------------------------
# Coq terms
# ---------------------------------------------------------------------------
def dist_lit(row):
    return coqlist("(%s, %s)" % (nat(s), q(p)) for s, p in row)


def fmdp_term(case):
    m = case["mdp"]
    tr = coqlist("(%s, %s, %s)" % (nat(k.split(",")[0]), nat(k.split(",")[1]), dist_lit(row))
                 for k, row in sorted(m["trans"].items()))
    rw = coqlist("(%s, %s, %s, %s)" % tuple([nat(x) for x in k.split(",")] + [q(r)])
                 for k, r in sorted(m["reward"].items()))
    t = "(mk_fmdp %s %s %s %s %s %s)" % (dist_lit(m["init"]), coqlist(natlist(a) for a in m["actions"]),
                                        tr, rw, blist(m["absorbing"]), q(m["gamma"]))
    if "reward_const" in m:
        t = "(with_const_reward %s %s)" % (t, q(m["reward_const"]))
    return t


def optlist(x):
    return "None" if x is None else "(Some %s)" % natlist(x)


def quickvar_term(case):
    qv, m = case.get("qv"), case["mdp"]
    if not qv:
        return "None"
    base = fmdp_term(case)
    if qv["det"]:
        tbl = coqlist("(%s, %s, %s)" % (nat(k.split(",")[0]), nat(k.split(",")[1]), nat(row[0][0]))
                      for k, row in sorted(m["trans"].items()))
        nsd, nxt = "None", "(Some (lookup2 0%%nat %s))" % tbl
    else:
        nsd, nxt = "(Some (fnext %s))" % base, "None"
    rw = "(RConst %s)" % q(m["reward_const"]) if qv["const_reward"] else "(RFun (freward %s))" % base
    ac = "(AConst %s)" % natlist(m["actions"][0]) if qv["const_actions"] else "(AFun (factions %s))" % base
    if qv["init_state"]:
        ini, ist = "None", "(Some %s)" % nat(m["init"][0][0])
    elif qv["init_callable"]:
        ini, ist = "(Some (IFun (fun _ => finit %s)))" % base, "None"
    else:
        ini, ist = "(Some (IDist %s))" % dist_lit(m["init"]), "None"
    return "(quick %s %s %s %s (fabsorbing %s) %s %s %s)" % (nsd, rw, ac, ini, base, nxt, ist, q(m["gamma"]))


def lst(v, key):
    x = v.get(key) if isinstance(v, dict) else None
    return x if isinstance(x, list) else []


def case_term(case, res):
    n = case["mdp"]["n"]
    runs = coqlist("(%s, %s)" % ("None" if r.get("max") is None else "(Some %s)" % nat(r["max"]), natlist(r.get("trace", [])))
                   for r in res["reach"])
    o, qk, qvv = res["orig"], res.get("quick", {}), res.get("quick_var", {})
    return "c06_case %s %s %s %s %s %s %s %s %s %s %s %s %s %s" % (
        fmdp_term(case), optlist(case["explicit_states"]), optlist(case["explicit_actions"]),
        bmat(cmp_table(case["slabels"])), bmat(cmp_table(case["alabels"])),
        natlist(lst(o, "state_list")), natlist(lst(o, "action_list")),
        natlist(lst(qk, "state_list")), natlist(lst(qk, "action_list")),
        runs, nat(3 * n + 6), quickvar_term(case),
        natlist(lst(qvv, "state_list")), natlist(lst(qvv, "action_list")))


# ---------------------------------------------------------------------------
# comparison
# ---------------------------------------------------------------------------
ARR = ["s0", "tf", "am", "rf", "sarf", "abs", "dead", "unable"]


def zq(x):
    """model (num, den) pairs -> Fractions, recursively"""
    if isinstance(x, tuple) and len(x) == 2 and all(isinstance(v, int) and not isinstance(v, bool) for v in x):
        return F(x[0], x[1])
    if isinstance(x, list):
        return [zq(v) for v in x]
    return x


def model_view(v):
    d = {"defined": v[0], "s0": zq(v[1]), "tf": zq(v[2]), "am": zq(v[3]), "rf": zq(v[4]), "sarf": zq(v[5]),
         "abs": v[6], "dead": v[7], "unable": v[8], "gamma": zq(v[9])}
    return d


def impl_view(o, nS, nA):
    d = {}
    for k in ARR:
        x = o.get(k)
        d[k] = x if isinstance(x, dict) else fq3(x, k, nS, nA)
    g = o.get("gamma")
    d["gamma"] = g if isinstance(g, dict) else F(g[0], g[1])
    return d


def fq3(x, k, nS, nA):
    """the [n, d] encoding is ambiguous for 2-element rows of ints only at the leaves: decode by known rank"""
    rank = {"s0": 1, "tf": 3, "am": 2, "rf": 3, "sarf": 2, "abs": 0, "dead": 0, "unable": 0}[k]

    def go(y, r):
        if r == 0:
            return F(y[0], y[1])
        return [go(v, r - 1) for v in y]
    if rank == 0:
        return x
    return go(x, rank)


def first_diff(a, b, path=()):
    if isinstance(a, list) and isinstance(b, list):
        if len(a) != len(b):
            return {"index": list(path), "impl_len": len(a), "expected_len": len(b)}
        for i, (x, y) in enumerate(zip(a, b)):
            d = first_diff(x, y, path + (i,))
            if d:
                return d
        return None
    if a != b:
        return {"index": list(path), "impl": str(a), "expected": str(b)}
    return None


def close_iv(a, b):
    if isinstance(a, str) or isinstance(b, str):
        return a == b
    a, b = F(*a), F(*b)
    return abs(a - b) <= F(1, 10**12) * max(1, abs(a), abs(b))


class Checker:
    def __init__(self, ctx, case, res, replay_case=None):
        self.ctx, self.case, self.res = ctx, case, res
        self.replay_case = replay_case or case          # what a replay file must hold
        self.nviol = 0

    def report(self, sig, info, found):
        self.nviol += 1
        d = {"case": self.replay_case}
        d.update(info)
        self.ctx.violation(sig, d, found=found)

    def compare_view(self, tag, o, mv, sl, al, expect_defined_sig=None):
        """o: impl view dict; mv: model view; sl/al: id lists the arrays are indexed by"""
        case = self.case
        orc = oracle_view(case, sl, al)
        keyerr = [k for k in ("tf", "rf", "am") if isinstance(o.get(k), dict)]
        if not mv["defined"]:
            # the model predicts a failing .index call
            if orc is not None:
                self.report("C06:model-differs:%s:defined" % tag, {"why": "model says an index is missing, oracle disagrees"}, False)
            if keyerr and all(o[k]["error"].startswith("KeyError") for k in keyerr):
                if case["abs_out"]:
                    self.report(SIG_ABS_SUCC, {"view": tag, "state_list": sl, "action_list": al, "error": o[keyerr[0]]["error"],
                                               "clause": "an absorbing state's positive-probability successor is outside the inferred "
                                                         "state list: transition_matrix raises KeyError instead of holding the numbers "
                                                         "next_state_dist returns"}, True)
                else:
                    self.report("C06:%s:index-missing-KeyError" % tag, {"state_list": sl, "action_list": al, "error": o[keyerr[0]]["error"]}, True)
            else:
                self.report("C06:%s:index-missing-but-no-KeyError" % tag, {"impl": {k: o.get(k) for k in ("tf", "rf", "am")}}, False)
            return False
        iv = impl_view(o, len(sl), len(al))
        ok = True
        for k in ARR + ["gamma"]:
            x = iv[k]
            if isinstance(x, dict):
                self.report("C06:%s:%s:raises:%s" % (tag, k, x["error"].split(":")[0]), {"error": x["error"], "state_list": sl, "action_list": al}, True)
                ok = False
                continue
            # the discount rate is the one number that is not dyadic: msdm holds the nearest double
            rnd = (lambda z: F(float(z))) if k == "gamma" else (lambda z: z)
            if k == "sarf" and orc is not None:
                # einsum over doubles: where a summand involves a full-mantissa (non-dyadic) probability the float
                # dot product carries rounding; bound n * 2^-52 * sum |r p| (dyadic entries stay exact: bound 0)
                x = [[self.sarf_snap(x[i][j], orc, i, j) if i < len(orc["tf"]) and j < len(orc["tf"][i]) else x[i][j]
                      for j in range(len(x[i]))] for i in range(len(x))] if isinstance(x, list) else x
            d_model = first_diff(x, rnd(mv[k]))
            d_orc = first_diff(x, rnd(orc[k])) if orc is not None else None
            if d_orc:
                self.report("C06:%s:%s:differs-from-functional-definition" % (tag, k),
                            {"state_list": sl, "action_list": al, "diff": d_orc,
                             "clause": "array entry is not the number the MDP's functions return"}, True)
                ok = False
            elif d_model:
                self.report("C06:model-differs:%s:%s" % (tag, k), {"state_list": sl, "action_list": al, "diff": d_model}, False)
                ok = False
        return ok

    @staticmethod
    def sarf_snap(v, orc, i, j):
        """the exact value if the float v is within the dot-product rounding bound of it, else v itself"""
        P, R = orc["tf"][i][j], orc["rf"][i][j]
        terms = [(p, r) for p, r in zip(P, R) if r != 0 and p != 0]
        prods = [p * r for p, r in terms]
        if not prods:
            return v
        den = max(t.denominator for t in prods)          # all dyadic: every product and partial sum is a multiple of 1/den
        if sum(abs(t) for t in prods) * den < 2 ** 53:   # ... and fits a double: the float computation is exact, so must v be
            return v
        exact = sum(p * r for p, r in terms)
        bound = len(P) * F(1, 2 ** 52) * sum(abs(p * r) for p, r in terms)
        return exact if abs(v - exact) <= bound else v

    def compare_lists(self, tag, o, ml, explicit_s, explicit_a):
        """ml = model c06_lists tuple; returns (sl, al) as reported by msdm or None"""
        case = self.case
        r_head, r_last, sort_s, sl_m, aset, sort_a, al_m = ml
        sl, al = o.get("state_list"), o.get("action_list")
        if not isinstance(sl, list) or not isinstance(al, list):
            e = sl if isinstance(sl, dict) else al
            self.report("C06:%s:lists:raises:%s" % (tag, e["error"].split(":")[0]), {"error": e["error"]}, True)
            return None
        if set(r_head) != set(r_last):
            self.report("C06:model:reachable-depends-on-pop-order", {"head": r_head, "last": r_last}, False)
        ok = True
        for name, lab, impl_l, expl, mset, msort, mlist in (("state_list", case["slabels"], sl, explicit_s, r_head, sort_s, sl_m),
                                                           ("action_list", case["alabels"], al, explicit_a, aset, sort_a, al_m)):
            if len(set(impl_l)) != len(impl_l):
                self.report("C06:%s:%s:duplicates" % (tag, name), {"impl": impl_l, "clause": "list has duplicates"}, True)
                ok = False
            if expl is not None:
                if impl_l != expl:
                    self.report("C06:%s:%s:explicit-list-not-kept" % (tag, name), {"impl": impl_l, "explicit": expl}, True)
                    ok = False
                continue
            if set(impl_l) != set(mset):
                ok = False
                if name == "state_list":
                    self.reach_mismatch(tag + ":state_list", set(impl_l), set(mset))
                else:
                    exp = set(a for s in sl for a in case["mdp"]["actions"][s])
                    self.report("C06:%s:action_list:not-the-union-of-available-actions" % tag if set(impl_l) != exp
                                else "C06:model-differs:%s:action_list" % tag, {"impl": impl_l, "model": mset}, set(impl_l) != exp)
                continue
            py = py_sorted_ids(lab, mset)
            if (py is not None) != bool(msort) or (py is not None and py != sorted(mset)):
                self.ctx.coverage["label_universe_inconsistent"] = self.ctx.coverage.get("label_universe_inconsistent", 0) + 1
                continue
            if msort and impl_l != mlist:
                self.report("C06:%s:%s:not-sorted" % (tag, name), {"impl": impl_l, "expected": mlist,
                            "clause": "sortable labels but the list is not in sorted order"}, True)
                ok = False
        return (sl, al) if ok else None

    def reach_mismatch(self, tag, impl_set, model_set):
        case = self.case
        code = spec_reach(case, True)
        if impl_set != code:
            self.report("C06:%s:not-the-reachable-set" % tag, {"impl": sorted(impl_set), "expected": sorted(code),
                        "clause": "state set is not the positive-probability closure of the initial support"}, True)
        else:
            self.report("C06:model-differs:%s" % tag, {"impl": sorted(impl_set), "model": sorted(model_set)}, False)


def check_case(ctx, case, res, val, stats):
    ck = Checker(ctx, case, res)
    m = case["mdp"]
    reach_m, lists_m, view_m, rebuilt_m, quick_m, quickv_m = val
    # --- reachable_states, replayed with the recorded pop order --------------------
    full_code = spec_reach(case, True)
    full_words = spec_reach(case, False)
    s0 = set(s for s, p in m["init"] if F(p) > 0)
    for run, mr in zip(res["reach"], reach_m):
        if "error" in run:
            ck.report("C06:reachable:raises:%s" % run["error"].split(":")[0], {"run": run}, True)
            continue
        vis, pops = mr
        R = set(run["result"])
        stats["reach_runs"] += 1
        if run["size"] != len(R) or run["type"] != "set":
            ck.report("C06:reachable:result-not-a-set", {"run": run}, True)
        if pops != run["trace"] or set(vis) != R:
            # certificate-style clauses of the cut-off spec decide whether the property is violated
            k = run["max"]
            bad = None
            if not s0 <= R:
                bad = "positive initial support not contained in the result"
            elif not R <= full_code:
                bad = "result contains a state that is not reachable with positive probability"
            elif k is None and R != full_code:
                bad = "result is not the full reachable set although no cut-off was given"
            elif k is not None and R != full_code and len(R) < k:
                bad = "search stopped below max_states although states were left to expand"
            else:
                # conformance of msdm's own pop sequence with the loop's contract (cut-off tested before every pop;
                # props/C06.v reachable_cutoff_stop is its first instance): order of pops is free, this is not
                V = set(s0)
                for t in run["trace"]:
                    if k is not None and len(V) >= k:
                        bad = "a state was expanded although max_states states had already been visited"
                        break
                    if t not in V:
                        bad = "a state was expanded that had not been visited"
                        break
                    V |= set(ns for a in m["actions"][t] for ns, p in m["trans"]["%d,%d" % (t, a)] if F(p) != 0)
                if not bad and V != R:
                    bad = "result is not the initial support plus the successors of the expanded states"
            if bad:
                ck.report("C06:reachable:" + bad.replace(" ", "-"), {"run": run, "clause": bad, "full": sorted(full_code)}, True)
            else:
                # the replayed mirror differs but every clause of the proved cut-off spec
                # (props/C06.v reachable_cutoff_spec, all pop orders) holds of msdm's result: drift, no alarm
                stats["reach_replay_drift"] += 1
        if run["max"] is not None and R != full_code:
            stats["cutoff_binding"] += 1
        if run["max"] is None and R == full_code and R != full_words:
            # the property's wording: successors of absorbing states are not expanded
            wit = absorbing_initial_witness(case)
            if not wit:
                ck.report("C06:reachable:differs-from-property-wording", {"run": run, "reachable_as_worded": sorted(full_words)}, True)
                continue
            ck.report(SIG_ABS_INIT, {"run": run, "reachable_as_worded": sorted(full_words), "reachable_by_msdm": sorted(R),
                                     "absorbing_initial_state_and_successor": wit,
                                     "clause": "an absorbing initial state is expanded: the reachable set / inferred state list contains "
                                               "successors of an absorbing state"}, True)
            stats["absorbing_initial_expanded"] += 1
    for run in res["reach"]:
        if "error" not in run and run.get("again") != run["result"]:
            ck.report("C06:reachable:second-call-differs", {"run": run, "clause": "the same call returns a different set the second time"}, True)
    # --- lists and arrays of the original ----------------------------------------------
    o = res["orig"]
    if res.get("orig_again") != o:
        ck.report("C06:orig:second-read-differs", {"first": o, "second": res.get("orig_again")}, True)
    la = ck.compare_lists("orig", o, lists_m, case["explicit_states"], case["explicit_actions"])
    if la is None:
        return ck.nviol
    sl, al = la
    mv = model_view(view_m)
    ok = ck.compare_view("orig", o, mv, sl, al)
    stats["views"] += 1
    if not ok:
        return ck.nviol
    # tables wrap the same numbers
    for t, a in (("tf_table", "tf"), ("rf_table", "rf"), ("sarf_table", "sarf")):
        if o.get(t) != o.get(a):
            ck.report("C06:orig:%s:differs-from-array" % t, {"table": o.get(t), "array": o.get(a)}, True)
    if o.get("table_lists") != [sl, al, sl, al]:
        ck.report("C06:orig:table-lists-differ", {"table_lists": o.get("table_lists")}, True)
    if o.get("writeable") != [False] * 4:
        ck.report("C06:orig:arrays-writeable", {"writeable": o.get("writeable")}, True)
    rv = o.get("reach_vec")
    if rv != [s in full_code for s in sl]:
        ck.report("C06:orig:reachable_state_vec", {"impl": rv, "expected": [s in full_code for s in sl]}, True)
    # --- from_matrices round trip ----------------------------------------------------
    rb = res["rebuilt"]
    if "error" in rb:
        ck.report("C06:rebuilt:raises:%s" % rb["error"].split(":")[0], {"error": rb["error"]}, True)
    else:
        mv2 = model_view(rebuilt_m[2])
        if rb.get("state_list") != sl or rb.get("action_list") != al:
            ck.report("C06:rebuilt:lists-differ", {"impl": [rb.get("state_list"), rb.get("action_list")], "orig": [sl, al]}, True)
        else:
            for k in ARR + ["gamma"]:
                if rb.get(k) != o.get(k):
                    ck.report("C06:rebuilt:%s:differs-from-original" % k, {"rebuilt": rb.get(k), "orig": o.get(k),
                              "clause": "rebuilding from the arrays does not give identical arrays"}, True)
            # model side of the same statement
            for k in ARR + ["gamma"]:
                if mv2[k] != mv[k] or not mv2["defined"]:
                    ck.report("C06:model:round-trip:%s" % k, {"model_rebuilt": str(mv2[k]), "model": str(mv[k])}, False)
            if rb.get("reach") != sorted(set(rebuilt_m[0])):
                ck.report("C06:rebuilt:reachable-differs", {"impl": rb.get("reach"), "model": sorted(set(rebuilt_m[0]))},
                          rb.get("reach") != sorted(full_code & set(sl)))
            # functions of the rebuilt MDP, pointwise
            fm_init, fm_rows = rebuilt_m[1]
            fi = rb.get("funcs")
            exp = {"init": sorted([s, [zq(p).numerator, zq(p).denominator]] for s, p in fm_init)}
            for s, (acts, ab, nxt) in zip(sl, fm_rows):
                exp[str(s)] = {"actions": acts, "absorbing": ab,
                               "next": {str(a): sorted([ns, [zq(p).numerator, zq(p).denominator]] for ns, p in row) for a, row in zip(acts, nxt)}}
            if fi != exp:
                ck.report("C06:rebuilt:functions-differ-from-model", {"impl": fi, "model": exp}, False)
            stats["round_trips"] += 1
    # --- quick constructors --------------------------------------------------------
    for tag, key, mq in (("quick", "quick", quick_m), ("quick_var", "quick_var", quickv_m)):
        qr = res.get(key)
        if qr is None:
            continue
        if "error" in qr and "state_list" not in qr:
            ck.report("C06:%s:raises:%s" % (tag, qr["error"].split(":")[0]), {"error": qr["error"]}, True)
            continue
        if mq is None:
            ck.report("C06:model:%s:constructor-assertion" % tag, {}, False)
            continue
        _, ql_m, qview_m = mq[1]
        la2 = ck.compare_lists(tag, qr, ql_m, None, None)
        if la2 is None:
            continue
        okq = ck.compare_view(tag, qr, model_view(qview_m), la2[0], la2[1])
        stats["quick_views"] += 1
        if okq and case["explicit_states"] is None and case["explicit_actions"] is None:
            for k in ["state_list", "action_list", "gamma"] + ARR:
                if qr.get(k) != o.get(k):
                    ck.report("C06:%s:%s:differs-from-original" % (tag, k), {"wrapped": qr.get(k), "orig": o.get(k),
                              "clause": "wrapping the functions in the quick constructor does not give identical arrays/lists"}, True)
        if qr.get("reach") != sorted(full_code):
            ck.report("C06:%s:reachable-differs" % tag, {"impl": qr.get("reach"), "expected": sorted(full_code)}, True)
    if res.get("inputs_mutated") != []:
        ck.report("C06:inputs-mutated", {"mutated": res.get("inputs_mutated"),
                  "clause": "an object handed to msdm (distribution, action list, explicit list) was changed"}, True)
    if "raw" in res and res.get("raw_inputs_mutated") not in ([], None):
        ck.report("C06:raw:inputs-mutated", {"mutated": res.get("raw_inputs_mutated"),
                  "clause": "from_matrices changed (or froze) the arrays / lists it was given"}, True)
    lt = res.get("late", {})
    for key2 in ("new_object", "first_object_again"):
        if lt.get(key2) != o:
            d = [k2 for k2 in o if lt.get(key2, {}).get(k2) != o[k2]]
            ck.report("C06:late:%s:differs" % key2, {"differs_in": d, "first": {k2: o[k2] for k2 in d}, "late": {k2: lt.get(key2, {}).get(k2) for k2 in d},
                      "clause": "the same problem gives different views when built/read again later in the process"}, True)
    bc = res.get("big_chain")
    if bc is not None:
        L = case["big_chain"]["L"]
        exp_cut_ok = isinstance(bc, dict) and "error" not in bc and all(
            (min(k, 1) <= c <= L) and (c >= min(k, L) or c == L) for k, c in zip(case["big_chain"]["cutoffs"], bc.get("cut", [])))
        if not exp_cut_ok or bc.get("full") != L or not bc.get("full_ok") or not bc.get("state_list_ok") or bc.get("action_list") != ["go", "run"]:
            ck.report("C06:big-chain", {"impl": bc, "L": L}, True)
        stats["big_chain"] += 1
    qu = res.get("quick_used")
    if qu is not None and qu != {k: v for k, v in res.get("quick", {}).items() if k != "reach"}:
        ck.report("C06:quick:wrapping-a-used-object-differs", {"wrapped_used": qu, "wrapped_fresh": res.get("quick"),
                  "clause": "wrapping the functions of an MDP whose views were already computed gives different views"}, True)
    if res.get("quick_assertions") != ["AssertionError", "AssertionError"]:
        ck.report("C06:quick:constructor-assertions", {"impl": res.get("quick_assertions")}, False)
    tp = res.get("table_paths")
    exp_tp = {"state_table_from_dict": True, "state_table_from_list": True, "missing_key": "StateActionIndexError",
              "from_state_list_2d": "NotImplementedError"}
    if al:
        exp_tp["state_action_table_from_dict"] = True
    if tp != exp_tp:
        ck.report("C06:tables:constructors-or-error-path", {"impl": tp, "expected": exp_tp}, True)
    qp = res.get("quick_plain", {})
    if "error" in qp:
        ck.report("C06:quick_plain:raises:%s" % qp["error"].split(":")[0], {"error": qp["error"]}, True)
    elif not qp["funcs_equal"] or qp["reach"] != sorted(full_code) or F(*qp["gamma"]) != F(float(F(m["gamma"]))):
        ck.report("C06:quick_plain:differs", {"impl": qp, "expected_reach": sorted(full_code)}, True)
    # --- planning results -------------------------------------------------------------
    pl = res.get("plan")
    if pl:
        po = pl.get("orig")
        sh = pl.get("shared")
        want = ([pl["rebuilt"]] if "rebuilt" in pl else []) + [po]
        norm = lambda x: x["error"].split(":")[0] if "error" in x else x
        if isinstance(sh, dict) or [norm(x) for x in sh] != [norm(x) for x in want]:
            ck.report("C06:plan:reused-planner-differs", {"shared": sh, "fresh": want,
                      "clause": "a ValueIteration object reused on a second MDP returns different results than a fresh one"}, True)
        gs = pl.get("global_shared")
        if gs is not None:
            plan_same(ck, "process-wide-planner", po, gs, stats, "a ValueIteration object used on earlier, different MDPs returns different results than a fresh one")
        for tag in ("rebuilt", "quick"):
            pr = pl.get(tag)
            if pr is None:
                continue
            if tag == "quick" and (case["explicit_states"] is not None or case["explicit_actions"] is not None):
                stats["plan_skipped_different_lists"] += 1
                continue
            stats["plan_compared"] += 1
            if ("error" in po) != ("error" in pr) or ("error" in po and po["error"].split(":")[0] != pr["error"].split(":")[0]):
                zero_init_outside = [s for s, p in m["init"] if F(p) == 0 and s not in sl]
                if "error" in po and "error" not in pr and zero_init_outside:
                    ck.report(SIG_ZERO_INIT, {"orig": po, tag: pr, "state_list": sl, "zero_probability_initial_states_outside_state_list": zero_init_outside,
                              "clause": "ValueIteration raises on the original MDP (zero-probability initial-state entry outside the "
                                        "state list) but returns a result on the %s MDP" % tag}, True)
                else:
                    ck.report("C06:plan:%s:error-differs" % tag, {"orig": po, tag: pr}, True)
            elif "error" not in po and {k: v for k, v in po.items() if k != "initial_value"} == {k: v for k, v in pr.items() if k != "initial_value"} \
                    and po != pr and close_iv(po["initial_value"], pr["initial_value"]):
                # the expectation over the initial distribution is summed in dict order, which from_matrices changes:
                # a last-place difference of that one float sum is not a different planning result
                stats["plan_initial_value_rounding"] += 1
            elif po != pr:
                ck.report("C06:plan:%s:result-differs" % tag, {"orig": po, tag: pr,
                          "clause": "ValueIteration returns different results on the %s MDP" % tag}, True)
    return ck.nviol


def big_model_row(spec, s, a):
    """next-state items of the structured large model (same formula as harness/impl/c06_impl.py:big_model_row), as the
    exact rationals of the doubles msdm is given"""
    S, kind = spec["S"], spec["kind"]
    fp, fq = F(float(F(spec["p"][a]))), F(float(F(spec["q"][a])))
    if kind == "corridor":
        if s == S - 1:
            return [(s, F(1))]
        return [(min(s + a + 1, S - 1), fp), (s, fq)]
    if kind == "ring":
        return [((s + a + 1) % S, fp), (s, fq)]
    t, u = (s * spec["mult"][a] + spec["off"][a]) % S, (s + a + 1) % S
    return [(t, F(1))] if t == u else [(t, fp), (u, fq)]


def gen_big_model(rng, above):
    """corridor / ring / sparse-random MDP whose dense transition tensor has just more than `above` entries"""
    A = rng.choice([3, 4, 5]) if above <= 2 ** 22 else rng.choice([4, 5])
    S = int((above / A) ** .5) + rng.randint(2, 40)
    pq = [("9/10", "1/10"), ("7/10", "3/10"), ("1/3", "2/3"), ("3/7", "4/7"), ("1/10", "9/10"), ("99/100", "1/100")]
    ch = [rng.choice(pq) for _ in range(A)]
    return {"kind": rng.choice(["corridor", "ring", "sparse"]), "S": S, "A": A, "above": above,
            "p": [c[0] for c in ch], "q": [c[1] for c in ch], "r": [str(F(-rng.randint(1, 30), 10)) for _ in range(A)],
            "mult": [rng.choice([3, 5, 7, 11]) for _ in range(A)], "off": [rng.randint(0, S - 1) for _ in range(A)],
            "init": ["9/10", "1/10"], "gamma": "19/20"}


def check_big_model(ctx, case, res, stats):
    """MODEL SIZE class: judged by the Python clause only (exact sparse oracle, O(nnz)); no Coq evaluation"""
    spec, bm = case["big_model"], res.get("big_model")
    nv = [0]

    def report(sig, info):
        nv[0] += 1
        d = {"case": case, "spec": spec}
        d.update(info)
        ctx.violation("C06:big-model:" + sig, d, found=True)
    if not isinstance(bm, dict) or "error" in bm:
        report("raises", {"impl": bm})
        return nv[0]
    stats["big_models"] += 1
    stats["big_model_entries"] = max(stats.get("big_model_entries", 0), spec["S"] ** 2 * spec["A"])
    S, A = spec["S"], spec["A"]
    fd = lambda x: F(float(F(x)))
    avail = lambda s: range(A - 1) if (A > 1 and s % 7 == 3) else range(A)
    exp_tf, exp_rf, exp_sarf = {}, {}, {}
    for s in range(S):
        for a in avail(s):
            tot = F(0)
            for ns, p in big_model_row(spec, s, a):
                exp_tf[(s, a, ns)] = p
                if ns != s:
                    exp_rf[(s, a, ns)] = fd(spec["r"][a])
                    tot += p * fd(spec["r"][a])
            exp_sarf[(s, a)] = tot
    if not bm["state_list_ok"] or bm["action_list"] != list(range(A)) or bm["reach"] != S or bm["shape"] != [S, A, S]:
        report("lists", {"impl": {k: bm[k] for k in ("state_list_ok", "action_list", "reach", "shape")}})
    got = {(i, j, k): F(v[0], v[1]) for i, j, k, v in bm["tf_nnz"]}
    if got != exp_tf:
        bad = [k for k in set(got) | set(exp_tf) if got.get(k) != exp_tf.get(k)][:5]
        report("tf:differs-from-functional-definition", {"entries": [[list(k), str(got.get(k)), str(exp_tf.get(k))] for k in bad], "n_bad": len(bad),
               "clause": "a transition_matrix entry of a large model is not the double next_state_dist returned"})
    gotr = {(i, j, k): F(v[0], v[1]) for i, j, k, v in bm["rf_nnz"]}
    if gotr != exp_rf:
        bad = [k for k in set(gotr) | set(exp_rf) if gotr.get(k) != exp_rf.get(k)][:5]
        report("rf:differs-from-functional-definition", {"entries": [[list(k), str(gotr.get(k)), str(exp_rf.get(k))] for k in bad]})
    exp_am_zero = sorted([s, A - 1] for s in range(S) if A > 1 and s % 7 == 3)
    if sorted(bm["am_zero"]) != exp_am_zero or bm["am_values"] not in ([0.0, 1.0], [1.0]) or not bm["unavailable_rows_zero"]:
        report("am:differs-from-functional-definition", {"am_zero": bm["am_zero"][:10], "am_values": bm["am_values"], "unavailable_rows_zero": bm["unavailable_rows_zero"]})
    if F(*bm["rowsum_dev"]) > F(1, 2 ** 52):                   # two doubles per row: |sum - 1| <= 2 ulp
        report("tf:rows-do-not-sum-to-one", {"max_deviation": str(F(*bm["rowsum_dev"]))})
    for s in range(S):
        for a in range(A):
            v, e = F(*bm["sarf"][s][a]), exp_sarf.get((s, a), F(0))
            if abs(v - e) > 2 * F(1, 2 ** 52) * abs(e):        # one product + at most one addition of doubles
                report("sarf:differs-from-functional-definition", {"index": [s, a], "impl": str(v), "expected": str(e)})
                break
        else:
            continue
        break
    if [[i, F(*v)] for i, v in bm["s0_nnz"]] != [[0, fd(spec["init"][0])], [1, fd(spec["init"][1])]]:
        report("s0:differs-from-functional-definition", {"impl": bm["s0_nnz"]})
    if bm["abs_true"] != ([S - 1] if spec["kind"] == "corridor" else []) or bm["dead_true"] != []:
        report("abs:differs-from-functional-definition", {"abs_true": bm["abs_true"], "dead_true": bm["dead_true"]})
    if F(*bm["tt"]) != big_model_row(spec, S // 2, 0)[0][1] or F(*bm["gamma"]) != fd(spec["gamma"]):
        report("table-or-gamma", {"tt": bm["tt"], "gamma": bm["gamma"]})
    return nv[0]


def plan_same(ck, tag, po, pr, stats, clause):
    if po is None or pr is None:
        return
    stats["plan_compared"] += 1
    if ("error" in po) != ("error" in pr) or ("error" in po and po["error"].split(":")[0] != pr["error"].split(":")[0]):
        ck.report("C06:plan:%s:error-differs" % tag, {"first": po, "second": pr}, True)
    elif "error" not in po and {k: v for k, v in po.items() if k != "initial_value"} == {k: v for k, v in pr.items() if k != "initial_value"} \
            and po != pr and close_iv(po["initial_value"], pr["initial_value"]):
        stats["plan_initial_value_rounding"] += 1
    elif po != pr:
        ck.report("C06:plan:%s:result-differs" % tag, {"first": po, "second": pr, "clause": clause}, True)


def check_raw(ctx, case, res, val, stats):
    """from_matrices on non-canonical dense arrays: every view of the MDP it returns against that MDP's own
    functions (model: from_matrices + to_matrices on the raw arrays; oracle: raw_functional)"""
    fcase = raw_functional(case)
    ck = Checker(ctx, fcase, res, replay_case=case)
    raw = case["raw"]
    sl, al = raw["sl"], raw["al"]
    rr = res.get("raw")
    if rr is None or ("error" in rr and "state_list" not in rr):
        ck.report("C06:raw:from_matrices-raises:%s" % (rr or {"error": "missing"})["error"].split(":")[0], {"impl": rr}, True)
        return ck.nviol
    reach_m, funcs_m, view_m, quick_m = val
    stats["raw_views"] += 1
    if rr.get("state_list") != sl or rr.get("action_list") != al:
        ck.report("C06:raw:lists-not-kept", {"impl": [rr.get("state_list"), rr.get("action_list")], "given": [sl, al]}, True)
        return ck.nviol
    # the functions, before and after the cached views were computed
    fm_init, fm_rows = funcs_m
    pr = lambda x: [zq(x).numerator, zq(x).denominator]
    exp = {"init": sorted([s, pr(p)] for s, p in fm_init)}
    for s, (acts, ab, nxt) in zip(sl, fm_rows):
        exp[str(s)] = {"actions": acts, "absorbing": ab,
                       "next": {str(a): sorted([ns, pr(p)] for ns, p, r in row) for a, row in zip(acts, nxt)},
                       "reward": {"%d,%d" % (a, ns): pr(r) for a, row in zip(acts, nxt) for ns, p, r in row}}
    for key in ("funcs", "funcs_after"):
        if rr.get(key) != exp:
            fo = raw_functional(case)["mdp"]
            ok_o = all(rr.get(key, {}).get(str(s), {}).get("actions") == fo["actions"][s] for s in sl) if isinstance(rr.get(key), dict) else False
            ck.report("C06:raw:%s:differ-from-model" % key, {"impl": rr.get(key), "model": exp}, not ok_o)
    mv = model_view(view_m)
    ok = ck.compare_view("raw", rr, mv, sl, al)
    if ok:
        for t, a in (("tf_table", "tf"), ("rf_table", "rf"), ("sarf_table", "sarf")):
            if rr.get(t) != rr.get(a):
                ck.report("C06:raw:%s:differs-from-array" % t, {"table": rr.get(t), "array": rr.get(a)}, True)
    full = spec_reach(fcase, True)
    if rr.get("reach") != sorted(full) or set(reach_m) != full:
        ck.report("C06:raw:reachable-differs", {"impl": rr.get("reach"), "model": sorted(set(reach_m)), "expected": sorted(full)},
                  rr.get("reach") != sorted(full))
    if rr.get("reach_vec") != [s in full for s in sl]:
        ck.report("C06:raw:reachable_state_vec", {"impl": rr.get("reach_vec")}, True)
    # wrapping its functions in the quick constructor
    qr = res.get("raw_quick")
    same_lists = False
    if qr is not None:
        if "error" in qr and "state_list" not in qr:
            ck.report("C06:raw_quick:raises:%s" % qr["error"].split(":")[0], {"error": qr["error"]}, True)
        elif quick_m is None:
            ck.report("C06:model:raw_quick:constructor-assertion", {}, False)
        else:
            _, ql_m, qview_m = quick_m[1]
            la2 = ck.compare_lists("raw_quick", qr, ql_m, None, None)
            if la2 is not None:
                okq = ck.compare_view("raw_quick", qr, model_view(qview_m), la2[0], la2[1])
                same_lists = okq and la2[0] == sl and la2[1] == al
                if ok and same_lists:
                    for k in ARR + ["gamma"]:
                        if qr.get(k) != rr.get(k):
                            ck.report("C06:raw_quick:%s:differs-from-wrapped-mdp" % k, {"wrapped": qr.get(k), "from_matrices": rr.get(k),
                                      "clause": "wrapping the functions of a from_matrices MDP gives different arrays"}, True)
    # a second round trip serves the same views
    rb = res.get("raw_rebuilt")
    if rb is not None and ok:
        for k in ["state_list", "action_list", "gamma"] + ARR:
            if rb.get(k) != rr.get(k):
                ck.report("C06:raw_rebuilt:%s:differs" % k, {"rebuilt": rb.get(k), "first": rr.get(k),
                          "clause": "rebuilding from the arrays of a from_matrices MDP does not give identical arrays"}, True)
    pl = res.get("raw_plan")
    if pl and ok:
        plan_same(ck, "raw-vs-rebuilt", pl.get("raw"), pl.get("rebuilt"), stats, "ValueIteration differs between a from_matrices MDP and its rebuild")
        if same_lists:
            plan_same(ck, "raw-vs-quick", pl.get("raw"), pl.get("quick"), stats, "ValueIteration differs between a from_matrices MDP and the quick wrapper of its functions")
    return ck.nviol


def run(ctx):
    tier = ctx.tier
    ncases = 300 if tier == "quick" else 6000
    if ctx.replay_case:
        cases = [ctx.replay_case["detail"]["case"]]
    else:
        cases = []
        while len(cases) < ncases:
            c = gen_case(ctx.rng, tier)
            if not (label_universe_ok(c["slabels"]) and label_universe_ok(c["alabels"])):
                continue
            if not GEN_ABSORBING_SUCC_OUTSIDE and absorbing_successor_outside(c):
                continue
            cases.append(c)
        # MODEL SIZE: a few structured large models (dense tensor just above 2^22 and above 2^24 entries)
        sizes = [2 ** 22, 2 ** 24] if tier == "quick" else [2 ** 22, 2 ** 24, 2 ** 22, 2 ** 23, 2 ** 24, 2 ** 22]
        for c, above in zip(cases[3::37], sizes):
            c["big_model"] = gen_big_model(ctx.rng, above)
    impl = ctx.impl("c06_impl.py", {"cases": cases}, shards=8 if tier == "quick" else 16)["results"]
    terms, idx = [], []
    for i, (case, res) in enumerate(zip(cases, impl)):
        if "error" in res and "orig" not in res:
            ctx.violation("C06:impl-error:" + res["error"].split(":")[0], {"case": case, "error": res["error"], "trace": res.get("trace")}, found=False)
            continue
        terms.append(case_term(case, res))
        idx.append(i)
    raw_idx = [i for i in idx if cases[i].get("raw")]
    vals = ctx.coq(PRE, terms + [raw_term(cases[i], impl[i]) for i in raw_idx], shard=10 if tier == "quick" else 40)
    raw_vals = dict(zip(raw_idx, vals[len(terms):]))
    vals = vals[:len(terms)]
    stats = {k: 0 for k in ("reach_runs", "reach_replay_drift", "cutoff_binding", "absorbing_initial_expanded", "views", "round_trips",
                            "quick_views", "raw_views", "big_chain", "big_models", "big_model_entries", "plan_compared", "plan_skipped_different_lists", "plan_initial_value_rounding")}
    feats = {}
    distinct = set()
    nok = 0
    for i, v in zip(idx, vals):
        case, res = cases[i], impl[i]
        if isinstance(v, vlib.CoqError):
            ctx.violation("C06:coq-evaluation-failed", {"case": case, "error": str(v)[:800]}, found=False)
            continue
        try:
            nv = check_case(ctx, case, res, v, stats)
            if case.get("big_model"):
                nv += check_big_model(ctx, case, res, stats)
            if case.get("raw"):
                rv = raw_vals.get(i)
                if isinstance(rv, vlib.CoqError) or rv is None:
                    ctx.violation("C06:coq-evaluation-failed", {"case": case, "error": str(rv)[:800]}, found=False)
                    nv += 1
                else:
                    nv += check_raw(ctx, case, res, rv, stats)
        except Exception as e:                     # malformed output: broken correspondence, not a finding
            import traceback
            ctx.violation("C06:harness-comparison-crashed", {"case": case, "error": traceback.format_exc()[-1500:]}, found=False)
            continue
        nok += nv == 0
        distinct.add(vlib.structural_hash({k: case[k] for k in ("mdp", "slabels", "alabels", "explicit_states", "explicit_actions")}))
        f = {"explicit_states": case["explicit_states"] is not None, "explicit_actions": case["explicit_actions"] is not None,
             "abs_out": case["abs_out"], "quick_variant": bool(case["qv"]),
             "states_sortable": bool(v[1][2]), "actions_sortable": bool(v[1][5]),
             "dead_end": any(len(a) == 0 for a in case["mdp"]["actions"]),
             "boundary_prob": case.get("boundary") == "prob", "boundary_reward": case.get("boundary") == "reward",
             "boundary_cancelling_rewards": case.get("boundary") == "cancel",
             "cutoff_zero": 0 in case["cutoffs"], "cutoff_one": 1 in case["cutoffs"], "cutoff_positional": bool(case.get("cutoff_positional")),
             "cutoff_le_initial_support": any(k <= len([1 for _, p in case["mdp"]["init"] if F(p) > 0]) for k in case["cutoffs"]),
             "gamma_near_one": F(999, 1000) < F(case["mdp"]["gamma"]) < 1, "no_actions_at_all": not any(case["mdp"]["actions"]),
             "no_explicit_absorbing": not any(case["mdp"]["absorbing"]),
             "falsy_state_label": any(is_falsy(e) for e in case["slabels"]), "falsy_action_label": any(is_falsy(e) for e in case["alabels"]),
             "tiny_initial_probability": any(0 < F(p) < F(1, 1000) for _, p in case["mdp"]["init"]),
             "large_reward": any(abs(F(r)) >= 1000 for r in case["mdp"]["reward"].values()),
             "tiny_reward_gap": any(F(r).denominator == 2 ** 30 and abs(F(r)) > F(1, 2) for r in case["mdp"]["reward"].values()),
             "cutoff_first": case["reach_order"][0] is not None, "cutoff_float": case["cutoff_float"],
             "actions_as_list": case["actions_as_list"], "native_distributions": case["dist_repr"] == "native",
             "fm_" + case["fm_lists"]: True,
             "tiny_probability_route": case.get("tiny_route") is not None,
             "tiny_probability_only_route": case.get("tiny_route") is not None and spec_reach(case, True) != spec_reach(drop_tiny(case), True),
             "tiny_probability_2^-60": case.get("tiny_route") == 60,
             "reward_ge_1e9": any(abs(F(r)) >= 10 ** 9 for r in case["mdp"]["reward"].values()),
             "nondyadic_reward": any(F(r).denominator > 2 ** 40 for r in case["mdp"]["reward"].values()),
             "corridor": bool(case.get("chain")), "n_states_eq_n_actions": case["mdp"]["n"] == case["mdp"]["nA"],
             "one_state": case["mdp"]["n"] == 1, "one_action": case["mdp"]["nA"] == 1,
             "shared_input_objects": bool(case.get("share_objects")), "int_rewards": bool(case.get("int_rewards")),
             "raw_float32": case.get("raw_dtype") == "float32", "raw_int_arrays": case.get("raw_dtype") == "int",
             "raw_from_matrices": bool(case.get("raw")), "nondyadic_probabilities": bool(case.get("nondyadic")),
             "many_outcome_row": any(len(r) >= 8 for r in case["mdp"]["trans"].values()),
             "gamma_zero": F(case["mdp"]["gamma"]) == 0, "gamma_tiny": 0 < F(case["mdp"]["gamma"]) < F(1, 1000),
             "gamma_passed_as_int": bool(case.get("gamma_int")),
             "repeated_action": any(len(set(a)) != len(a) for a in case["mdp"]["actions"]),
             "skind_" + case["skind"]: True, "akind_" + case["akind"]: True}
        f.update({k: x for k, x in gen_mdp.features(case["mdp"]).items() if isinstance(x, bool)})
        for k, x in f.items():
            feats[k] = feats.get(k, 0) + int(bool(x))
    cov = {
        "evaluations": len(idx),
        "distinct_nontrivial": len(distinct),
        "rule": "functional MDPs from harness/gen_mdp.py (1..%d states, 1..3 actions, k/8 probabilities, in 30%% of the cases non-dyadic rows (tenths, 0.7/0.2/0.1, thirds, sevenths, 1/k over up to 11 outcomes; the case holds the exact rational of each double), zero-probability entries in "
                "next-state and initial distributions, rewards on zero-probability successors, explicit/implicit absorbing states, near-absorbing states (self-loop probability 1 - 2^-k, k in {10,20,30}, or reward +-2^-30 on a certain self-loop, or rewards of both signs cancelling across certain self-loops), dead ends, actions listed twice, "
                "gamma in {1/2..19/20, 1, 0, 2^-20, 1-2^-20}, 0 and 1 passed as int or float) rewards up to 1e6 or 2^-30 apart, initial probabilities 2^-30 / 1-2^-30, MDPs without any action or without absorbing states; 40%% also go through from_matrices on non-canonical dense arrays (transition rows under unavailable actions, rewards on zero-probability transitions, action-matrix entries 2); relabelled with ints / floats / bools / falsy labels (0, 0.0, False, '', (), frozendict()) / strings / int tuples / (int,str) tuples / frozendicts / nested mixed tuples "
                "(sortable and unsortable sets), explicit (shuffled, with unreachable states) or inferred state and action lists, 1-3 "
                "max_states cut-offs in 0..n+1, constant/deterministic QuickMDP argument variants; %s; distinct = structural hash of (MDP, labels, "
                "explicit lists); plus 2 (quick) / 6 (thorough) structured large models (corridor / ring / sparse-random, 0.9/0.1-type rows, dense tensor just above 2^22 and 2^24 entries) judged by an exact sparse Python oracle only; every case is non-trivial (>= 1 state with a transition row or a dead end)"
                % (5 if tier == "quick" else 7, "14%% of the cases let absorbing states have outgoing transitions (successors %s)" % ("unrestricted" if GEN_ABSORBING_SUCC_OUTSIDE else "inside the reachable set")),
        "samples": [{"case": cases[0], "impl": impl[0]}] if cases else [],
        "cases_without_difference": nok, "input_features": feats,
    }
    cov.update(stats)
    ctx.coverage.update(cov)
