"""C17 — R-MAX stays optimistic about what it has not tried often enough.

Correspondence: generated proper MDPs with uniform action sets -> msdm RMAX.train_on with a recording
RMAXEventListener (harness/impl/c17_impl.py) ->
  (a) the proved-sound certificate checker model/RMax.v:c17_check evaluated by vm_compute on msdm's
      output (recorded episodes, learner tallies, returned Q dict, returned policy; floats as exact
      rationals): valid transitions / tallies = first min(count,m) samples / upper bound / unknown pairs
      exactly optimistic / empirical Bellman residual of known pairs / greedy uniform policy;
  (b) the mirror learner model/RMax.v:train_act run on the recorded experience over exact rationals,
      final q compared with msdm's at 1e-9 (a difference the certificate still covers is drift);
  (c) an independent Fraction oracle of the property's clauses (from the experience alone), used to
      exhibit a concrete failing clause when (a) rejects.
"""
import math
import os
from fractions import Fraction as F
import vlib
from vlib import q, qlist, qmat, qten, nat, natlist, blist, coqlist
import gen_mdp

INFO = {
    "level": "proof",
    "coq_files": ["model/RMax.v"],
    "trusted_base": [
        "model/RMax.v c17_check / train_act are evaluated on Q (NumQ); theorems are on R; tied by paramcoq transfer (theory/RMaxTransfer.v)",
        "generated parameters (gamma, probabilities, rewards, tolerance) reach the model exactly and msdm as nearest doubles (all dyadic here, so equal)",
        "the learner's internal tallies are read from the RMAX object's attributes rewards / s_a_counts / transitions after train_on",
    ],
    "assumptions": [
        "MDP arrays of the model are built from the generator's definition in the state/action order msdm reports",
        "the recorded experience is what RMAXEventListener.end_of_timestep was shown (locals s, a, r, ns of RMAX._training)",
    ],
}

PRE = """From Coq Require Import QArith List Bool.
From MSDM Require Import base.Num base.NumInst model.RMax.
Import ListNotations.
Local Open Scope Q_scope.
Definition chk nS nA m g rmax P R ab ini eps rw cnt tr Qv pi ut bt pt :=
  @c17_check Q NumQ nS nA m g rmax P R ab ini eps (mkL rw cnt tr Qv) pi ut bt pt.
Definition mir nS nA m g rmax tol (exp : list (@step Q)) (Qi : list (list Q)) eps :=
  match @train_act Q NumQ nS nA m g rmax tol 5000 exp with
  | (Some L, actok) => (true, @q_close Q NumQ nS nA eps (l_q L) Qi, actok)
  | (None, actok) => (false, false, actok)
  end.
"""

CLAUSES = ["c_valid", "c_tally", "c_upper", "c_unknown", "c_bellman", "c_policy"]
GAMMAS = ["1/2", "3/4", "7/8"]
SLOW_GAMMAS = ["63/64", "127/128", "255/256", "1023/1024"]
# reuse of one RMAX object on MDPs of different table sizes (on since /repo 235fcf2 fixed the cached
# _self_transition_mat; C17_REUSE_ANY_SIZE=0 restricts the second MDP to the same table size)
REUSE_ANY_SIZE = os.environ.get("C17_REUSE_ANY_SIZE", "1") == "1"
# explicit _state_list containing unreachable states (on since /repo 58359b8: tables are sized by
# len(state_list); before, they were sized by reachable_states() but indexed by state_list.index -> IndexError).
# The Q dict then spans ALL listed states; unreachable ones are never tried and stay at the optimistic value.
EXPLICIT_UNREACHABLE = os.environ.get("C17_EXPLICIT_UNREACHABLE", "1") == "1"


# ---------------------------------------------------------------------------------------------
# generation
# ---------------------------------------------------------------------------------------------
def rmax_of(m, explicit=None):
    """np.max(mdp.reward_matrix): the matrix spans state_list x action_list x state_list (the explicit
    lists when given, unreachable states included; else reachable states x their actions), holds
    reward(s,a,ns) where the transition probability is non-zero and 0 elsewhere"""
    states = sorted(explicit["states"]) if explicit else sorted(gen_mdp.reachable(m))
    al = sorted({a for s in states for a in m["actions"][s]})
    _, R, _, _, _ = gen_mdp.arrays(m, states, al)
    return max(x for row in R for r2 in row for x in r2)


ACTION_STR = ["up", "down", "left", "right", "stay", "x", "a0", "B", ""]
ACTION_TUP = [[], [0, 1], [1, 0], [-1, 0], [0, -1], [0, 0]]
STATE_STR = ["", "s1", "b", "A", "z", "m", "k0", "Q", "goal"]
STATE_TUP = [[], [0, 0], [0, 1], [1, 0], [2, -1], [1, 1], [0, 2], [3, 0], [-1, 5]]


def presentation(rng, m):
    """how the MDP presents itself (results are always mapped back by LABEL):
    action labels   ints / renamed ints (incl. 0) / strings (incl. "") / tuples (incl. ()) / bools, so that the
                    sorted order msdm uses for action_list differs from the id order;
    action order    actions(s) lists them sorted / in one shuffled order / in a different order per state,
                    as a tuple, a list or a frozenset;
    state labels    ints 0..n-1 / renamed ints / strings (incl. "") / tuples (incl. ()): sorted(state_list)
                    then differs from the id order;
    explicit lists  _state_list/_action_list set explicitly in a shuffled order (all generated states,
                    unreachable ones included; C17_EXPLICIT_UNREACHABLE=0: only the reachable ones) or inferred;
    numbers         gamma / rmax passed as int when integral (0, 1, 4) in half of those cases."""
    nA, n = m["nA"], m["n"]
    kind = rng.random()
    if kind < .25:
        labels = list(range(nA))
    elif kind < .45:
        labels = rng.sample(range(10), nA)
    elif kind < .7:
        labels = rng.sample(ACTION_STR, nA)
    elif kind < .9 or nA > 2:
        labels = rng.sample(ACTION_TUP, nA)
    else:
        labels = rng.sample([False, True], nA)
    okind = rng.random()
    if okind < .2:
        perm = [list(range(nA)) for _ in range(n)]
    elif okind < .6:
        p0 = rng.sample(range(nA), nA)
        perm = [list(p0) for _ in range(n)]
    else:
        perm = [rng.sample(range(nA), nA) for _ in range(n)]
    skind = rng.random()
    if skind < .4:
        slabels = list(range(n))
    elif skind < .6:
        slabels = rng.sample(range(12), n)
    elif skind < .8:
        slabels = rng.sample(STATE_STR, n)
    else:
        slabels = rng.sample(STATE_TUP, n)
    explicit = None
    if rng.random() < .25:
        reach = sorted(gen_mdp.reachable(m))
        states = list(reach)
        if EXPLICIT_UNREACHABLE:
            states += [s for s in range(n) if s not in reach]
        rng.shuffle(states)
        explicit = {"states": states, "actions": rng.sample(range(nA), nA)}
    return {"action_labels": labels, "action_perm": perm, "state_labels": slabels,
            # "shared-list": ONE list object per distinct order, handed out for every state that uses it
            "actions_container": rng.choice(["tuple", "tuple", "list", "frozenset", "shared-list", "shared-list"]),
            # what the reward function / distributions hand back for integral numbers: float, int, or numpy float32
            "number_type": rng.choice(["float", "float", "int", "float32"]),
            # identical next-state rows are served by ONE shared DictDistribution object
            "shared_distributions": rng.random() < .5,
            "explicit_lists": explicit, "ints_as_int": rng.random() < .5}


def perturb(rng, m):
    """boundary / magnitude variants of a main-family MDP (all numbers stay dyadic, so msdm's floats are exact);
    returns the list of variants applied"""
    tags = []
    n, nA = m["n"], m["nA"]
    live = [s for s in range(n) if not m["absorbing"][s]]
    r = rng.random()
    if r < .08:
        # very large rewards: everything scaled by 2^10 or 2^20 (rmax up to ~4e6, optimistic value ~3e7)
        k = rng.choice([10, 20])
        m["reward"] = {key: str(F(v) * 2 ** k) for key, v in m["reward"].items()}
        tags.append("rewards-x2^%d" % k)
    elif r < .16 and nA >= 2 and live:
        # near tie: action a1 is a copy of a0 whose rewards are larger by 2^-30 (must be told apart exactly)
        s = rng.choice(live)
        a0, a1 = rng.sample(range(nA), 2)
        row = m["trans"]["%d,%d" % (s, a0)]
        m["trans"]["%d,%d" % (s, a1)] = [list(x) for x in row]
        for ns, pr in row:
            m["reward"].pop("%d,%d,%d" % (s, a1, ns), None)
            if F(pr) > 0:
                m["reward"]["%d,%d,%d" % (s, a1, ns)] = str(F(m["reward"].get("%d,%d,%d" % (s, a0, ns), "0")) + F(1, 2 ** 30))
        tags.append("near-tie-2^-30")
    if r < .08 and nA >= 2 and live and rng.random() < .6:
        # ... together with a near tie of RELATIVE size ~1e-6: action a1 copies a0, rewards larger by 2^(k-20)
        s = rng.choice(live)
        a0, a1 = rng.sample(range(nA), 2)
        row = m["trans"]["%d,%d" % (s, a0)]
        m["trans"]["%d,%d" % (s, a1)] = [list(x) for x in row]
        for ns, pr in row:
            m["reward"].pop("%d,%d,%d" % (s, a1, ns), None)
            if F(pr) > 0:
                m["reward"]["%d,%d,%d" % (s, a1, ns)] = str(F(m["reward"].get("%d,%d,%d" % (s, a0, ns), "0")) + F(2 ** k, 2 ** 20))
        tags.append("large-with-relative-near-tie-2^-20")
    r2 = rng.random()
    if r2 < .06 and live:
        # a transition of probability 2^-30 (and its complement 1-2^-30 or p-2^-30)
        s = rng.choice(live)
        a = rng.randrange(nA)
        row = m["trans"]["%d,%d" % (s, a)]
        big = [x for x in row if F(x[1]) >= F(1, 8)]
        others = [t for t in range(n) if t not in [x[0] for x in row]]
        if big and others:
            x = rng.choice(big)
            x[1] = str(F(x[1]) - F(1, 2 ** 30))
            row.append([rng.choice(others), str(F(1, 2 ** 30))])
            tags.append("probability-2^-30")
    elif r2 < .14 and live:
        # a tiny positive probability that MATTERS: a branch of probability 2^-27 .. 2^-50 (below isclose's
        # atol) that carries the largest reward of the MDP (so it decides rmax, which the code asserts) and is
        # the ONLY route into an extra absorbing state (so it decides the state list / table size)
        s = rng.choice(live)
        a = rng.randrange(nA)
        row = m["trans"]["%d,%d" % (s, a)]
        big = [x for x in row if F(x[1]) >= F(1, 8)]
        if big:
            k2 = rng.choice([27, 30, 40, 50])
            x = rng.choice(big)
            x[1] = str(F(x[1]) - F(1, 2 ** k2))
            new = n
            row.append([new, str(F(1, 2 ** k2))])
            top = max([F(v) for v in m["reward"].values()] + [F(0)])
            m["reward"]["%d,%d,%d" % (s, a, new)] = str(top + rng.choice([1, 4, 1024]))
            m["n"] = n + 1
            m["actions"].append(list(range(nA)))
            m["absorbing"].append(True)
            for b in range(nA):
                m["trans"]["%d,%d" % (new, b)] = [[new, "1"]]
            tags.append("tiny-branch-2^-%d-carries-rmax-and-only-route-to-a-state" % k2)
    return tags


NONDYADIC_ROWS = {1: [["1"]], 2: [["1/3", "2/3"], ["1/10", "9/10"], ["3/10", "7/10"]],
                  3: [["1/3", "1/3", "1/3"], ["7/10", "1/5", "1/10"], ["2/7", "2/7", "3/7"], ["1/6", "1/6", "2/3"], ["1/7", "2/7", "4/7"]]}


def make_nondyadic(rng, m):
    """probabilities in thirds / tenths / sevenths (float row sums need not be exactly 1.0), rewards in
    tenths or thirds; the discount is chosen non-dyadic by the caller.  msdm receives the nearest doubles;
    the checks then work with the exact rationals OF THOSE DOUBLES (case["float_numbers"])."""
    for key, row in m["trans"].items():
        pos = [x for x in row if F(x[1]) > 0]
        if len(pos) in NONDYADIC_ROWS and len(pos) > 1:
            ps = list(rng.choice(NONDYADIC_ROWS[len(pos)]))
            rng.shuffle(ps)
            for x, pnew in zip(pos, ps):
                x[1] = pnew
    unit = rng.choice([F(1, 10), F(1, 3), F(1, 7)])
    m["reward"] = {k: str(F(v) * 4 * unit) for k, v in m["reward"].items()}
    pos = [x for x in m["init"] if F(x[1]) > 0]
    if len(pos) in (2, 3):
        for x, pnew in zip(pos, rng.choice(NONDYADIC_ROWS[len(pos)])):
            x[1] = pnew


def gen_main_mdp(rng, tier, gamma, keep_trivial=False, nonpos=False):
    nmax = 5 if tier == "quick" else 6
    for _ in range(50):
        m = gen_mdp.gen_mdp(rng, nmax=nmax, amax=3, gamma=gamma, proper=True, uniform_actions=True,
                            min_states=1 if keep_trivial else 2, nonpos=nonpos)
        starts = [s for s, p in m["init"] if F(p) > 0]
        if keep_trivial or any(not m["absorbing"][s] for s in starts):
            break
    return m


def table_size(m):
    """(n_states, n_actions) of the learner's tables: reachable states x all actions"""
    reach = gen_mdp.reachable(m)
    return len(reach), len({a for s in reach for a in m["actions"][s]})


def f32(x):
    """the exact rational of x rounded to IEEE single precision"""
    import struct
    return F(struct.unpack("f", struct.pack("f", float(x)))[0])


def arg_types(rng, rmax, prefer32=False):
    """numeric types of the constructor ARGUMENTS (equal in value to the float64 numbers): rmax as Python float /
    int / numpy float64 / float32 / int64 (only where the value is exactly representable, so that the code's
    assert rmax == max reward passes), threshold and episode count as int or numpy int64"""
    rmax = F(rmax)
    opts = ["float", "float64"]
    if rmax.denominator == 1:
        opts += ["int", "int64"]
    if f32(rmax) == rmax:
        opts += ["float32"] * (6 if prefer32 else 2)
    return {"rmax_type": rng.choice(opts), "int_args_type": rng.choice(["int", "int", "int64"])}


def view_size(m, pres):
    """(n_states, n_actions) of the learner's tables for MDP m presented as pres"""
    ex = pres.get("explicit_lists")
    return (len(ex["states"]) if ex else len(gen_mdp.reachable(m))), m["nA"]


def gen_slow_mdp(rng):
    """slow-decay family: a tiny proper MDP whose non-absorbing states form a zero-reward cycle
    (or self-loop) left only with small probability, the only positive reward sitting on the exit
    transition, gamma close to 1.  When the first m samples of every pair of the cycle stay inside it,
    the empirical model of the known pairs is a closed zero-reward cycle and value iteration has to
    decay the optimistic values at rate gamma: thousands of sweeps before the tolerance is met."""
    gamma = rng.choice(SLOW_GAMMAS)
    ncyc = rng.choice([1, 2, 2])
    nA = rng.choice([1, 1, 2])
    stay = rng.choice(["7/8", "15/16", "7/8", "15/16", "7/8", "15/16", "1023/1024"])   # 1023/1024: episodes of ~1000 steps
    leave = str(1 - F(stay))
    exit_reward = rng.choice(["1", "1", "2", "4", "1/4"])
    n = ncyc + 1
    trans, reward = {}, {}
    for s in range(ncyc):
        for a in range(nA):
            nxt = (s + 1) % ncyc
            row = [[nxt, stay], [ncyc, leave]]
            rng.shuffle(row)
            trans["%d,%d" % (s, a)] = row
            reward["%d,%d,%d" % (s, a, ncyc)] = exit_reward
    for a in range(nA):
        trans["%d,%d" % (ncyc, a)] = [[ncyc, "1"]]
    return {"n": n, "nA": nA, "actions": [list(range(nA)) for _ in range(n)], "trans": trans, "reward": reward,
            "absorbing": [False] * ncyc + [True], "init": [[0, "1"]], "gamma": gamma}


def draw_seed(rng):
    r = rng.random()
    if r < .05:
        return 0            # falsy seed passed explicitly
    if r < .08:
        return None         # global random module (the run is judged on its recorded experience)
    return rng.randrange(2 ** 31)


def gen_case(rng, tier):
    if rng.random() < .08:
        # slow-decay family: certificate only (an exact mirror would need thousands of exact sweeps)
        m = gen_slow_mdp(rng)
        case = {"mdp": m, "m": rng.choice([1, 1, 2]), "episodes": rng.randint(3, 10),
                "seed": draw_seed(rng), "tol": "1/100000",
                "family": "slow-decay", "mirror": False, "variants": []}
        case.update(presentation(rng, m))
        case["rmax"] = str(rmax_of(m, case["explicit_lists"]))
        case.update(arg_types(rng, case["rmax"]))
        return case
    if rng.random() < .13:
        # non-dyadic family: judged on the exact rationals of the doubles msdm was given; the learner's float
        # bookkeeping (tallies, optimistic value) is compared BIT-exactly with the same float operations redone
        # in Python, the other clauses by the Coq certificate; no exact mirror (the rationals would explode)
        gamma = rng.choice(["9/10", "19/20", "1/3", "2/3", "7/10"])
        m = gen_main_mdp(rng, tier, gamma)
        make_nondyadic(rng, m)
        variants = []
        if rng.random() < .6:
            # rewards that are single-precision numbers (a float32 reward table): rmax can then be handed over as a
            # numpy float32 scalar equal in value to the float64 maximum, while rmax/(1-gamma) is NOT a float32 number
            m["reward"] = {k: str(f32(F(v))) for k, v in m["reward"].items()}
            variants.append("float32-valued-rewards")
        case = {"mdp": m, "m": rng.randint(1, 5), "episodes": rng.randint(0, 30), "seed": draw_seed(rng),
                "tol": rng.choice(["1/100000", "1/100000", "1/1000"]), "family": "non-dyadic", "mirror": False,
                "float_numbers": True, "variants": variants}
        case.update(presentation(rng, m))
        case["number_type"] = "float"
        case["rmax"] = str(rmax_of(m, case["explicit_lists"]))
        case.update(arg_types(rng, case["rmax"], prefer32=True))
        return case
    gamma = rng.choice(GAMMAS * 6 + ["0"])            # discount 0 exactly in ~5%
    m = gen_main_mdp(rng, tier, gamma, keep_trivial=rng.random() < .08, nonpos=rng.random() < .06)
    variants = perturb(rng, m)
    episodes = 0 if rng.random() < .03 else rng.randint(1, 30)
    case = {"mdp": m, "m": rng.randint(1, 5), "episodes": episodes,
            "seed": draw_seed(rng),
            "tol": rng.choice(["1/100000"] * 6 + ["1/1000", "1/1000", "1/10", "1/10", "1/1000000000"]),
            "variants": variants,
            # a second, fresh RMAX object with the default listener on the already-used MDP object
            "default_listener_rerun": rng.random() < .15,
            # ... on the already-used MDP object, or on the same problem constructed a second time
            "rerun_fresh_mdp": rng.random() < .5}
    case.update(presentation(rng, m))
    case["rmax"] = str(rmax_of(m, case["explicit_lists"]))
    case.update(arg_types(rng, case["rmax"]))
    if rng.random() < .07:
        # an rmax ARGUMENT that is not the MDP's maximum reward (above: x2, +1, +2^-20; below: -1, /2 - 1).  The
        # property's bound and optimistic value are those of the MDP's OWN maximum reward (case["rmax"]); the call
        # must either be rejected (the code asserts rmax == max reward) or be judged against that maximum.
        true = F(case["rmax"])
        case["rmax_arg"] = str(rng.choice([true * 2 + 1, true + 1, true + F(1, 2 ** 20), true - 1, true / 2 - 1]))
        case["rmax_type"] = "float"
        return case
    if rng.random() < .2:
        # object reuse: the SAME RMAX object is trained on this MDP and then again, either on the very same
        # MDP object or on a second MDP with a different discount rate (and its own rewards / rmax); each
        # result is judged with its own MDP.  The second MDP may have a different table size (a stale
        # _self_transition_mat used to raise IndexError there; fixed in /repo by 235fcf2).
        # when the FIRST result's policy (and Q dict) are read: right away, or only AFTER the second
        # train_on (all states / every other state) -- an earlier result must stay valid, i.e. greedy for
        # ITS OWN returned Q-values, whatever the learner object does later
        late = rng.choice(["after", "after", "half-after", "before"])
        if rng.random() < .25:
            # the very same MDP object again, with another seed (another history, other Q-values)
            case["then"] = {"same_mdp_object": True, "seed": rng.randrange(2 ** 31), "first_policy_queried": late}
            return case
        g2 = rng.choice([g for g in GAMMAS if g != gamma])
        same_size = rng.random() < .6 or not REUSE_ANY_SIZE   # same table shape: buffers could be recycled
        then = None
        for _ in range(300):
            m2 = gen_main_mdp(rng, tier, g2)
            pres = presentation(rng, m2)
            if not same_size or view_size(m2, pres) == view_size(m, case):
                then = dict(pres, mdp=m2)
                break
        if then is None:
            # same structure and presentation, other discount, rewards doubled
            m2 = dict(m, gamma=g2, reward={k: str(2 * F(v)) for k, v in m["reward"].items()})
            then = {"mdp": m2}
            then.update({k: case[k] for k in ("action_labels", "action_perm", "state_labels", "actions_container",
                                              "explicit_lists", "ints_as_int")})
        then["rmax"] = str(rmax_of(then["mdp"], then["explicit_lists"]))
        then.update(arg_types(rng, then["rmax"]))
        then["first_policy_queried"] = late
        case["then"] = then
    return case


# ---------------------------------------------------------------------------------------------
# independent oracle of the property's clauses, from the recorded experience alone
# ---------------------------------------------------------------------------------------------
def numbers(view, res):
    """the numbers of one training as msdm saw them: exact generator rationals (all dyadic, equal to the
    doubles), or for view["float_numbers"] the exact rationals of the nearest doubles.
    q0x = the value unknown pairs must hold exactly: rmax/(1-gamma), resp. the double that one float
    division gives (np.ones * rmax * 1/(1-gamma) rounds once)."""
    sl, al = res["state_list"], res["action_list"]
    P, R, av, absf, ini = gen_mdp.arrays(view["mdp"], sl, al)
    g, rmax, tol = F(view["mdp"]["gamma"]), F(view["rmax"]), F(view["tol"])
    if view.get("float_numbers"):
        fx = lambda x: F(float(x))
        P = [[[fx(x) for x in r2] for r2 in row] for row in P]
        R = [[[fx(x) for x in r2] for r2 in row] for row in R]
        ini = [fx(x) for x in ini]
        q0x = F(float(rmax) * 1 / (1 - float(g)))
        g, rmax = fx(g), fx(rmax)
    else:
        q0x = rmax / (1 - g)
    return {"P": P, "R": R, "absf": absf, "ini": ini, "g": g, "rmax": rmax, "tol": tol,
            "q0": rmax / (1 - g), "q0x": q0x}


def float_bookkeeping_problem(view, res):
    """non-dyadic family: redo the learner's float bookkeeping (rewards[s,a] += r while count < m, counts,
    transition counts) with the same double operations and compare bit-exactly"""
    nS, nA, m = len(res["state_list"]), len(res["action_list"]), int(view["m"])
    rw = [[0.0] * nA for _ in range(nS)]
    cnt = [[0] * nA for _ in range(nS)]
    tr = [[[0] * nS for _ in range(nA)] for _ in range(nS)]
    for ep in res["episodes"]:
        for s, a, r, ns, ai in ep["steps"]:
            if cnt[s][a] < m:
                rw[s][a] += float(vlib.frac(r))
                cnt[s][a] += 1
                tr[s][a][ns] += 1
    for s in range(nS):
        for a in range(nA):
            if vlib.frac(res["rewards"][s][a]) != F(rw[s][a]) or vlib.frac(res["counts"][s][a]) != cnt[s][a] or \
                    [vlib.frac(x) for x in res["transitions"][s][a]] != tr[s][a]:
                return {"clause": "learner tallies are not the first min(count, m) samples of the pair", "s": s, "a": a,
                        "rewards": str(vlib.frac(res["rewards"][s][a])), "expected": str(F(rw[s][a])),
                        "count": str(vlib.frac(res["counts"][s][a])), "expected_count": cnt[s][a]}
    return None


def oracle(case, res, slack):
    """returns None or a dict naming the first failing clause of the property"""
    sl, al = res["state_list"], res["action_list"]
    nS, nA = len(sl), len(al)
    nb = numbers(case, res)
    P, R, absf, ini = nb["P"], nb["R"], nb["absf"], nb["ini"]
    g, rmax, m, tol = nb["g"], nb["rmax"], int(case["m"]), nb["tol"]
    q0 = nb["q0x"]
    # (1) every experienced step is a real transition with the MDP's reward
    for ei, ep in enumerate(res["episodes"]):
        cur = None
        for ti, (s, a, r, ns, ai) in enumerate(ep["steps"]):
            r = vlib.frac(r)
            if not (0 <= s < nS and 0 <= a < nA and 0 <= ns < nS):
                return {"clause": "experienced step outside the state/action lists", "episode": ei, "t": ti}
            if absf[s] or P[s][a][ns] <= 0 or r != R[s][a][ns] or (cur is not None and cur != s):
                return {"clause": "experienced step is not a transition of the MDP with the MDP's reward",
                        "episode": ei, "t": ti, "step": [s, a, str(r), ns]}
            if ti == 0 and ini[s] <= 0:
                return {"clause": "episode does not start in the support of the initial distribution", "episode": ei}
            cur = ns
    Q = [[vlib.frac(x) for x in row] for row in res["Q"]]
    # (2) upper bound, (3) unknown pairs exactly optimistic
    exp = [st for ep in res["episodes"] for st in ep["steps"]]
    samples = {}
    for s, a, r, ns, ai in exp:
        samples.setdefault((s, a), []).append((vlib.frac(r), ns))
    for s in range(nS):
        for a in range(nA):
            if Q[s][a] > q0 + slack:
                return {"clause": "Q-value exceeds rmax/(1-gamma)", "s": s, "a": a, "q": str(Q[s][a]), "bound": str(q0)}
            if len(samples.get((s, a), [])) < m and Q[s][a] != q0:
                return {"clause": "pair tried fewer times than the threshold is not at the optimistic value",
                        "s": s, "a": a, "q": str(Q[s][a]), "optimistic": str(q0), "tried": len(samples.get((s, a), []))}
    # (4) empirical Bellman equation of known pairs (first m samples; successors at their best Q)
    v = [max(Q[s]) for s in range(nS)]
    for (s, a), l in samples.items():
        if len(l) >= m:
            first = l[:m]
            rhat = sum(r for r, _ in first) / m
            ev = sum(v[ns] for _, ns in first) / m
            resid = abs(Q[s][a] - (rhat + g * ev))
            if resid > tol + slack:
                return {"clause": "known pair violates the empirical Bellman equation beyond the tolerance",
                        "s": s, "a": a, "residual": str(resid), "float_residual": float(resid), "tolerance": str(tol)}
    # (5) greedy uniform policy
    for s in range(nS):
        best = [a for a in range(nA) if Q[s][a] == v[s]]
        for a in range(nA):
            p = vlib.frac(res["pi"][s][a])
            want = F(1, len(best)) if a in best else F(0)
            if abs(p - want) > F(1, 10 ** 12):
                return {"clause": "returned policy is not uniform over the maximisers of the returned Q-values",
                        "s": s, "a": a, "p": str(p), "expected": str(want)}
    return None


# ---------------------------------------------------------------------------------------------
def structure_problem(case, res):
    """shape facts the Coq terms rely on (Q dict over state_list x action_list, array shapes, integer counts)"""
    sl, al = res["state_list"], res["action_list"]
    nS, nA = len(sl), len(al)
    if len(sl) != len(set(sl)) or any(not (isinstance(s, int) and 0 <= s < case["mdp"]["n"]) for s in sl):
        return "state-list-not-a-set-of-generated-states"
    if not set(gen_mdp.reachable(case["mdp"])) <= set(sl):
        # a state reachable with positive (however tiny) probability has no row in the returned Q-values
        return "reachable-state-missing-from-state-list"
    if res["n_states"] != nS or res["n_actions"] != nA:
        return "learner-table-size-differs-from-state-list-x-action-list"
    # (key order of the dicts is not semantic: compared as sets; values are read by label)
    if sorted(map(repr, res["q_states"])) != sorted(map(repr, sl)) or any(qa != sorted(al) for qa in res["q_actions"]):
        return "q-dict-not-over-state-list-x-action-list"
    if any(x is None or isinstance(x, str) for row in res["Q"] for x in row):
        return "q-value-missing-or-nonfinite"
    if any(isinstance(x, str) for row in res["pi"] for x in row):
        return "policy-nonfinite"
    if len(res["counts"]) != nS or any(len(r) != nA for r in res["counts"]) or \
            len(res["rewards"]) != nS or len(res["transitions"]) != nS:
        return "tally-shape"
    for row in res["counts"]:
        for x in row:
            if isinstance(x, str) or vlib.frac(x).denominator != 1 or vlib.frac(x) < 0:
                return "count-not-a-natural-number"
    for r2 in res["transitions"]:
        for row in r2:
            for x in row:
                if isinstance(x, str) or vlib.frac(x).denominator != 1 or vlib.frac(x) < 0:
                    return "transition-count-not-a-natural-number"
    if any(isinstance(x, str) for row in res["rewards"] for x in row):
        return "reward-tally-nonfinite"
    return None


def step_term(st):
    s, a, r, ns = st[0], st[1], st[2], st[3]
    return "(%s, %s, %s, %s)" % (nat(s), nat(a), q(r), nat(ns))


def nmat(mt):
    return coqlist(natlist(int(vlib.frac(x)) for x in row) for row in mt)


def run(ctx):
    tier = ctx.tier
    ncases = 150 if tier == "quick" else 2500
    if ctx.replay_case:
        cases = [ctx.replay_case["detail"]["case"]]
    else:
        cases = [gen_case(ctx.rng, tier) for _ in range(ncases)]
    impl = ctx.impl("c17_impl.py", {"cases": cases}, shards=min(ctx.jobs, 4 if tier == "quick" else 16))["results"]
    # judged units: one per train_on call.  A reuse case (case["then"]) gives two units, each judged by
    # the same certificate with its OWN MDP; view = the parameters of that call, case = the replayable case
    units = []
    n_rejected_rmax = {"above": 0, "below": 0}
    for case, res in zip(cases, impl):
        if "error" in res and "rmax_arg" in case and res["error"].startswith(("AssertionError", "ValueError")):
            n_rejected_rmax["above" if F(case["rmax_arg"]) > F(case["rmax"]) else "below"] += 1
            continue        # rejected call: nothing is returned, the property holds trivially
        if "error" in res:
            ex = case.get("explicit_lists")
            if ex and len(ex["states"]) > len(gen_mdp.reachable(case["mdp"])):
                ctx.violation("C17:explicit-state-list-with-unreachable-state:raises:" + res["error"].split(":")[0],
                              {"case": case, "error": res["error"], "trace": res.get("trace", "")}, found=True)
                continue
            ctx.violation("C17:impl-error:" + res["error"].split(":")[0],
                          {"case": case, "error": res["error"], "trace": res.get("trace", "")}, found=True)
            continue
        units.append((case, case, res, "first"))
        if "then" in case:
            view = {k: v for k, v in case.items() if k != "then"}
            view.update(case["then"])
            r2 = res.get("second")
            if r2 is None or "error" in r2:
                err = (r2 or {}).get("error", "no result")
                ctx.violation("C17:reuse:second-train_on-raises:" + err.split(":")[0],
                              {"case": case, "error": err, "trace": (r2 or {}).get("trace", "")}, found=True)
            else:
                units.append((case, view, r2, "reused"))
    terms, meta = [], []
    info = {}
    counters = {"trivial_no_steps": 0, "with_known_pairs": 0, "with_known_and_unknown_tried": 0,
                "steps_total": 0, "steps_max": 0, "known_pairs_total": 0, "ignored_samples_total": 0,
                "upper_bound_exceeded_within_float_slack": 0,
                "actions_listed_in_other_than_action_list_order": 0, "per_state_action_orders_differ": 0,
                "string_action_labels": 0, "multi_action": 0,
                "reused_object_second_trainings": 0, "reused_with_different_table_size": 0,
                "slow_decay_family": 0, "slow_decay_family_closed_known_cycle_decayed": 0,
                "mirror_skipped_slow_decay_family": 0, "mirror_skipped_estimated_cost": 0,
                "policy_queries_at_states_outside_q": 0, "default_listener_reruns": 0,
                "first_result_read_after_second_training": 0, "reused_on_different_mdp_of_same_table_size": 0,
                "non_dyadic_family": 0, "non_dyadic_with_known_pairs": 0, "non_dyadic_float_row_sum_not_1": 0,
                "one_state": 0, "one_action": 0, "n_states_equals_n_actions": 0, "trainings_over_1000_steps": 0,
                "shared_action_list_object": 0, "shared_distribution_objects": 0, "int_or_float32_numbers": 0,
                "rerun_on_freshly_constructed_problem": 0, "caller_objects_snapshot_compared": 0,
                "tiny_branch_carrying_rmax": 0, "tiny_branch_only_route_state_in_state_list": 0,
                "large_magnitude_relative_near_tie": 0, "large_magnitude_tolerance_below_1e-5_relative": 0,
                "empirical_model_non_dyadic_m3_or_m5_known": 0,
                "rmax_argument_not_the_maximum_reward_accepted_and_judged": 0,
                "rmax_passed_as_numpy_float32": 0, "rmax_float32_and_optimistic_value_not_a_float32_number": 0,
                "rmax_passed_as_int_or_numpy_int64_or_float64": 0, "threshold_and_episodes_as_numpy_int64": 0,
                "reused_same_mdp_object": 0, "state_list_order_differs_from_id_order": 0,
                "explicit_lists": 0, "explicit_list_with_unreachable_state": 0, "tuple_labels": 0, "falsy_labels": 0,
                "seed_0": 0, "seed_None": 0, "episodes_0": 0, "gamma_0": 0, "rmax_0": 0, "ints_passed_as_int": 0,
                "actions_as_list_or_frozenset": 0}
    by_gamma, by_m, by_variant = {}, {}, {}
    first_size = {}
    for u, (case, view, res, tag) in enumerate(units):
        sp = structure_problem(view, res)
        if sp:
            ctx.violation("C17:output-structure:" + sp, {"case": case, "training": tag, "impl": res}, found=True)
            continue
        sl, al = res["state_list"], res["action_list"]
        nS, nA = len(sl), len(al)
        nb = numbers(view, res)
        P, R, absf, ini, g, rmax, tol, q0 = nb["P"], nb["R"], nb["absf"], nb["ini"], nb["g"], nb["rmax"], nb["tol"], nb["q0"]
        Qv = [[vlib.frac(x) for x in row] for row in res["Q"]]
        scale = max([F(1), abs(q0)] + [abs(x) for row in Qv for x in row])
        # float slack of the certificate: the loop's stop test is evaluated in doubles on values of size
        # <= scale (rounding of one backup <= ~1e-15*scale); the mirror comparison keeps 1e-9*scale
        slack = F(1, 10 ** 13) * scale
        mslack = F(1, 10 ** 9) * scale
        info[u] = {"slack": slack}
        exp = [st for ep in res["episodes"] for st in ep["steps"]]
        eps_t = coqlist("(%s, %s)" % (coqlist(step_term(st) for st in ep["steps"]), nat(ep["end"]))
                        for ep in res["episodes"])
        head = " ".join([nat(nS), nat(nA), nat(view["m"]), q(g), q(rmax)])
        terms.append("chk %s %s %s %s %s %s %s %s %s %s %s %s %s %s" % (
            head, qten(P), qten(R), blist(absf), qlist(ini), eps_t,
            qmat(res["rewards"]), nmat(res["counts"]),
            coqlist(nmat(r2) for r2 in res["transitions"]),
            qmat(res["Q"]), qmat(res["pi"]), q(slack), q(tol + slack), q(F(1, 10 ** 12))))
        meta.append(("chk", u))
        # the exact mirror is run "if cheap enough": every inner loop needs about ln(scale/tol)/-ln(gamma)
        # sweeps and the exact rationals grow with every sweep (one tol=1e-9, gamma=7/8, m=5 case took 120 s);
        # beyond 150 estimated sweeps per loop only the certificate judges the run (counted below)
        est_sweeps = math.log(float(scale / tol)) / -math.log(float(g)) if g > 0 else 1.0
        if view.get("mirror", True) and est_sweeps > 150:
            counters["mirror_skipped_estimated_cost"] += 1
        elif view.get("mirror", True):
            terms.append("mir %s %s %s %s %s" % (head, q(tol), coqlist(step_term(st) for st in exp),
                                                qmat(res["Q"]), q(mslack)))
            meta.append(("mir", u))
        else:
            counters["mirror_skipped_slow_decay_family"] += 1
        # side checks on rarely used paths (Python only)
        if not res.get("pi_same_on_second_query", True):
            ctx.violation(("C17:" if tag == "first" else "C17:reused-object:") + "policy-object-answers-differently-on-second-query",
                          {"case": case, "training": tag, "impl": res}, found=True)
        if tag == "first" and "Q_late" in res:
            counters["first_result_read_after_second_training"] += 1
            if res["Q_late"] != res["Q"]:
                ctx.violation("C17:earlier-result-q-values-changed-after-a-later-train_on",
                              {"case": case, "impl": res}, found=True)
            if not res.get("pi_early_equals_late", True):
                ctx.violation("C17:earlier-result-policy-changed-after-a-later-train_on",
                              {"case": case, "impl": res}, found=True)
        for row in res.get("pi_outside", []):
            # _create_policy's KeyError branch: a state outside the Q dict gets the uniform policy over its actions
            counters["policy_queries_at_states_outside_q"] += 1
            if any(isinstance(x, str) or abs(vlib.frac(x) - F(1, nA)) > F(1, 10 ** 12) for x in row):
                ctx.violation("C17:policy-at-state-outside-q-not-uniform", {"case": case, "training": tag, "impl": res}, found=True)
        if res.get("caller_objects_mutated"):
            ctx.violation("C17:caller-objects-mutated", {"case": case, "training": tag, "what": res["caller_objects_mutated"]}, found=True)
        if tag == "first" and "rerun" in res:
            counters["default_listener_reruns"] += 1
            sums = [sum((vlib.frac(st[2]) for st in ep["steps"]), F(0)) for ep in res["episodes"]]
            # (the default listener adds the rewards up in the type they come in: with numpy float32 rewards its
            #  sums are float32 sums, so they are compared only for float / int numbers; Q always)
            same_sums = view.get("number_type") == "float32" or [vlib.frac(x) for x in res["rerun"]["episode_rewards"]] == sums
            if not same_sums or res["rerun"]["Q"] != res["Q"]:
                ctx.violation("C17:fresh-object-same-seed-default-listener-differs",
                              {"case": case, "impl": res, "recorded_episode_rewards": [str(x) for x in sums]}, found=False)
        # input-distribution counters
        cnt = [[int(vlib.frac(x)) for x in row] for row in res["counts"]]
        known = sum(1 for row in cnt for x in row if x >= view["m"])
        partial = sum(1 for row in cnt for x in row if 0 < x < view["m"])
        counters["trivial_no_steps"] += int(not exp)
        counters["with_known_pairs"] += int(known > 0)
        counters["with_known_and_unknown_tried"] += int(known > 0 and partial > 0)
        counters["steps_total"] += len(exp)
        counters["steps_max"] = max(counters["steps_max"], len(exp))
        counters["known_pairs_total"] += known
        counters["ignored_samples_total"] += len(exp) - sum(x for row in cnt for x in row)
        counters["upper_bound_exceeded_within_float_slack"] += int(any(x > q0 for row in Qv for x in row))
        perm = view.get("action_perm") or [al]
        counters["actions_listed_in_other_than_action_list_order"] += int(any(list(p) != list(al) for p in perm))
        counters["per_state_action_orders_differ"] += int(len({tuple(p) for p in perm}) > 1)
        counters["string_action_labels"] += int(any(isinstance(x, str) for x in (view.get("action_labels") or [])))
        counters["multi_action"] += int(nA > 1)
        if view.get("float_numbers"):
            counters["non_dyadic_family"] += 1
            counters["non_dyadic_with_known_pairs"] += int(known > 0)
            # (plain left-to-right double additions; Python >= 3.12's sum() compensates and would hide it)
            def plain_sum(row):
                t = 0.0
                for _, pp in row:
                    t += float(F(pp))
                return t
            counters["non_dyadic_float_row_sum_not_1"] += int(any(plain_sum(row) != 1.0 for row in view["mdp"]["trans"].values()))
        counters["rmax_argument_not_the_maximum_reward_accepted_and_judged"] += int(tag == "first" and "rmax_arg" in view)
        counters["rmax_passed_as_numpy_float32"] += int(view.get("rmax_type") == "float32")
        counters["rmax_float32_and_optimistic_value_not_a_float32_number"] += int(view.get("rmax_type") == "float32" and f32(nb["q0x"]) != nb["q0x"])
        counters["rmax_passed_as_int_or_numpy_int64_or_float64"] += int(view.get("rmax_type") in ("int", "int64", "float64"))
        counters["threshold_and_episodes_as_numpy_int64"] += int(view.get("int_args_type") == "int64")
        counters["one_state"] += int(nS == 1)
        counters["one_action"] += int(nA == 1)
        counters["n_states_equals_n_actions"] += int(nS == nA)
        counters["trainings_over_1000_steps"] += int(len(exp) > 1000)
        counters["shared_action_list_object"] += int(view.get("actions_container") == "shared-list")
        counters["shared_distribution_objects"] += int(bool(view.get("shared_distributions")))
        counters["int_or_float32_numbers"] += int(view.get("number_type", "float") != "float")
        counters["rerun_on_freshly_constructed_problem"] += int(tag == "first" and "rerun" in res and bool(view.get("rerun_fresh_mdp")))
        counters["caller_objects_snapshot_compared"] += int("caller_objects_mutated" in res)
        tiny = [t for t in view.get("variants", []) if t.startswith("tiny-branch")]
        counters["tiny_branch_carrying_rmax"] += int(bool(tiny))
        counters["tiny_branch_only_route_state_in_state_list"] += int(bool(tiny) and (view["mdp"]["n"] - 1) in sl)
        counters["large_magnitude_relative_near_tie"] += int("large-with-relative-near-tie-2^-20" in view.get("variants", []))
        counters["large_magnitude_tolerance_below_1e-5_relative"] += int(scale >= 1000 and tol < scale / 10 ** 5 / 100 and known > 0)
        counters["empirical_model_non_dyadic_m3_or_m5_known"] += int(view["m"] in (3, 5) and known > 0)
        counters["reused_same_mdp_object"] += int(tag == "reused" and bool(view.get("same_mdp_object")))
        counters["state_list_order_differs_from_id_order"] += int(sl != sorted(sl))
        ex = view.get("explicit_lists")
        counters["explicit_lists"] += int(bool(ex))
        counters["explicit_list_with_unreachable_state"] += int(bool(ex) and len(ex["states"]) > len(gen_mdp.reachable(view["mdp"])))
        labs = list(view.get("action_labels") or []) + list(view.get("state_labels") or [])
        counters["tuple_labels"] += int(any(isinstance(x, list) for x in labs))
        counters["falsy_labels"] += int(any((x == "" or x == [] or x is False) for x in labs))
        counters["seed_0"] += int(view["seed"] == 0 and view["seed"] is not None)
        counters["seed_None"] += int(view["seed"] is None)
        counters["episodes_0"] += int(view["episodes"] == 0)
        counters["gamma_0"] += int(g == 0)
        counters["rmax_0"] += int(rmax == 0)
        counters["ints_passed_as_int"] += int(bool(view.get("ints_as_int")) and (g.denominator == 1 or rmax.denominator == 1))
        counters["actions_as_list_or_frozenset"] += int(view.get("actions_container", "tuple") != "tuple")
        for t in view.get("variants", []):
            by_variant[t] = by_variant.get(t, 0) + 1
        if tag == "first":
            first_size[id(case)] = (nS, nA)
        if tag == "reused":
            counters["reused_object_second_trainings"] += 1
            counters["reused_with_different_table_size"] += int((nS, nA) != first_size.get(id(case)))
            counters["reused_on_different_mdp_of_same_table_size"] += int((nS, nA) == first_size.get(id(case)) and not view.get("same_mdp_object"))
        if view.get("family") == "slow-decay":
            counters["slow_decay_family"] += 1
            live = [s for s in range(nS) if not absf[s]]
            counters["slow_decay_family_closed_known_cycle_decayed"] += int(
                q0 > 0 and all(cnt[s][a] >= view["m"] and Qv[s][a] < q0 / 100 for s in live for a in range(nA)))
        by_gamma[view["mdp"]["gamma"]] = by_gamma.get(view["mdp"]["gamma"], 0) + 1
        by_m[str(view["m"])] = by_m.get(str(view["m"]), 0) + 1
        info[u]["known"] = known
    # certificate terms and mirror terms are evaluated in separate coqc runs: certificate terms are all
    # cheap (one backup each) and must all evaluate; a mirror term that cannot be evaluated (time-out /
    # killed under load) is retried alone and, failing again, only counted: it is an aid, the proved
    # certificate is what judges the run, and an unevaluated model term says nothing about msdm
    def evaluate(kind, shard, timeout, retry_timeout):
        idx = [k for k, (kd, _) in enumerate(meta) if kd == kind]
        vs = ctx.coq(PRE, [terms[k] for k in idx], shard=shard, timeout=timeout, tag=kind)
        bad = [j for j, v in enumerate(vs) if isinstance(v, vlib.CoqError)]
        if bad:
            again = ctx.coq(PRE, [terms[idx[j]] for j in bad], shard=1, timeout=retry_timeout, tag=kind + "_retry")
            for j, v in zip(bad, again):
                vs[j] = v
        return dict(zip(idx, vs))
    got = evaluate("chk", 16 if tier == "quick" else 25, 900, 600)
    got.update(evaluate("mir", 8 if tier == "quick" else 10, 300, 150))
    vals = [got[k] for k in range(len(meta))]
    nchk = nmir = drift = fuel_out = act_mismatch = mir_unevaluated = 0
    distinct = set()
    rejected = set()
    for (kind, u), v in zip(meta, vals):
        case, view, res, tag = units[u]
        if isinstance(v, vlib.CoqError):
            if kind == "mir":
                mir_unevaluated += 1
                continue
            ctx.violation("C17:coq-evaluation-failed", {"case": case, "training": tag, "kind": kind, "error": str(v)[:800]}, found=False)
            continue
        pre = "C17:" if tag == "first" else "C17:reused-object:"
        if kind == "chk":
            nchk += 1
            if info[u]["known"] > 0:
                distinct.add(vlib.structural_hash([case, tag]))
            failed = [c for c, okv in zip(CLAUSES, v) if not okv]
            if view.get("float_numbers"):
                # non-dyadic numbers: the two clauses that demand exact equality with exact arithmetic (tallies,
                # optimistic entries) are judged bit-exactly against the same float operations redone in Python
                # (float_bookkeeping_problem; oracle's unknown-pair clause uses the double rmax*1/(1-gamma))
                failed = [c for c in failed if c not in ("c_tally", "c_unknown")]
                fb = float_bookkeeping_problem(view, res)
                if fb:
                    rejected.add(u)
                    ctx.violation(pre + "non-dyadic:" + fb["clause"], {"case": case, "training": tag, "failing_clause": fb, "impl": res}, found=False)
            if failed:
                rejected.add(u)
                why = oracle(view, res, info[u]["slack"])
                detail = {"case": case, "training": tag, "failed_clauses": failed, "impl": res}
                if why:
                    detail["failing_clause"] = why
                    ctx.violation(pre + why["clause"], detail, found=True)
                else:
                    detail["correspondence"] = "model/RMax.v:c17_check (theorems props/C17.v) rejects the implementation's output"
                    ctx.violation(pre + "certificate-rejects:%s" % "+".join(failed), detail, found=False)
            elif view.get("float_numbers") and oracle(view, res, info[u]["slack"]):
                # non-dyadic family: the exact-equality clauses are not judged in Coq, the oracle (bit-exact
                # against the float64 optimistic value) is their judge
                rejected.add(u)
                why = oracle(view, res, info[u]["slack"])
                ctx.violation(pre + why["clause"], {"case": case, "training": tag, "failing_clause": why, "impl": res}, found=True)
            else:
                why = oracle(view, res, info[u]["slack"])
                if why:   # the independent oracle and the proved checker must agree
                    ctx.violation(pre + "oracle-disagrees-with-certificate:%s" % why["clause"],
                                  {"case": case, "training": tag, "failing_clause": why, "impl": res}, found=False)
                elif res["Q"] != res["q_matrix"]:
                    # every clause holds for the returned dict, yet it is not the learner's table read by label
                    ctx.violation(pre + "q-dict-differs-from-q-matrix", {"case": case, "training": tag, "impl": res}, found=False)
        else:
            nmir += 1
            ok, close, actok = v
            if not ok:
                fuel_out += 1
            elif not close:
                drift += 1     # covered by the certificate unless that was rejected too (reported above)
            if not actok:
                act_mismatch += 1
    n_mir_terms = sum(1 for kd, _ in meta if kd == "mir")
    if n_mir_terms >= 10 and nmir * 2 < n_mir_terms:
        # the mirror machinery itself is broken when most of its terms cannot be evaluated
        ctx.violation("C17:mirror-evaluation-mostly-failing", {"case": cases[0], "mirror_terms": n_mir_terms, "evaluated": nmir}, found=False)
    n_ok = sum(1 for r in impl if "error" not in r)
    ctx.coverage.update({
        "evaluations": nchk + nmir,
        "distinct_nontrivial": len(distinct),
        "rule": "four families.  NON-DYADIC (about 8%%): a MAIN-style MDP with probabilities in thirds/tenths/sevenths, rewards in tenths/thirds/sevenths, gamma in {9/10,19/20,1/3,2/3,7/10}; "
                "msdm gets the nearest doubles, the Coq certificate the exact rationals of those doubles (clauses valid/upper/bellman/policy), the learner's float tallies and optimistic entries are compared "
                "bit-exactly with the same float operations redone in Python; no mirror; in 60%% the rewards are single-precision numbers so that rmax can be passed as a numpy float32 scalar while rmax/(1-gamma) is not one.  "
                "RMAX ARGUMENT OTHER THAN THE MAXIMUM REWARD (7%% of MAIN, above or below it): the call must be rejected (counted) or, if accepted, is judged against the MDP's own maximum reward.  ARGUMENT TYPES (all families): rmax as float / int / numpy float64 / float32 / int64 where equal in value, threshold and episode count as int / numpy int64.  MAIN (about 84%%): proper MDPs from harness/gen_mdp.py (proper=True, uniform_actions=True: 1..%d states, 1..3 actions available in every state, "
                "k/8 probabilities, zero entries, duplicate rows, explicit absorbing goals possibly with ignored self-loop rewards, "
                "multi-state initial distributions, rewards in quarters), gamma in {1/2,3/4,7/8} or exactly 0 (5%%), threshold m in 1..5, episodes 1..30 or 0 (3%%), "
                "seed random / 0 (5%%) / None (3%%), tolerance in {1e-5 (x6), 1e-3, 1e-1, 1e-9}, rmax = max of the reward matrix (the code asserts it; 0 for the 6%% non-positive-reward MDPs); "
                "variants: rewards x 2^10 / 2^20 (8%%), an action duplicated with rewards larger by 2^-30 (8%%), a transition of probability 2^-30 (6%%), a branch of probability 2^-27..2^-50 carrying the largest reward (so rmax) and being the only route to an extra absorbing state (8%%), "
                "rewards x 2^k together with a duplicated action whose rewards differ by relative 2^-20 (5%%); numbers handed out as float / int / numpy float32; actions(s) may hand out ONE shared list object, "
                "identical rows ONE shared DictDistribution (snapshots of these caller objects are compared after every train_on); 92%% of MDPs are "
                "resampled until some initial state is non-absorbing.  PRESENTATION (all families, results mapped back by label): action labels ints / renamed ints / strings incl. '' / tuples incl. () / bools, "
                "actions(s) listing them sorted / in one shuffled order / in a different order per state as tuple / list / frozenset; state labels ints / renamed ints / strings / tuples "
                "(sorted state_list order differs from the id order); explicit shuffled _state_list/_action_list (25%%) or inferred; integral gamma / rmax passed as int (50%%).  "
                "REUSE (20%% of MAIN): the same RMAX object is trained again, on the very same MDP object with another seed (1/4) or on a second MDP (60%% of them of the SAME table size, else any) with a "
                "different gamma and its own rewards/rmax (learner.rmax / learner.seed set); both trainings are judged, each with its own MDP; in 3/4 of these the FIRST result's policy and Q dict are "
                "read only AFTER the second train_on (all or every other state) and the first training is certified on that late reading (an earlier result must stay greedy for its own Q-values).  15%% of MAIN also run a second fresh RMAX object with the default listener on the already-used MDP object "
                "(episode_rewards and Q must equal the recorded run).  SLOW-DECAY (about 8%%): 1-2 state zero-reward "
                "cycle left with probability 1/8 or 1/16 to an absorbing state (the only positive reward on the exit), gamma in {63/64,127/128,255/256,1023/1024}, m in {1,2}, tolerance 1e-5: "
                "when the first m samples of all cycle pairs stay in the cycle, value iteration needs thousands of sweeps; for this family ONLY the certificate (valid steps, tallies, upper bound, "
                "unknown pairs, empirical Bellman residual, policy) is evaluated in Coq, the exact mirror is skipped as too slow; the mirror is also skipped (certificate only) for the few MAIN cases "
                "whose estimated sweeps per inner loop ln(scale/tol)/-ln(gamma) exceed 150 (tol 1e-9 or rewards x 2^20 with gamma 7/8).  "
                "distinct = structural hash of (case, training); non-trivial = at least one state-action pair reached the threshold (value iteration ran)" % (5 if tier == "quick" else 6),
        "samples": [{"case": cases[0], "impl": impl[0]}] if cases else [],
        "cases": len(cases), "cases_run": n_ok, "trainings_judged": len(units),
        "certificate_checks": nchk, "certificate_rejections": len(rejected),
        "mirror_runs": nmir, "mirror_not_evaluated_timeout": mir_unevaluated, "mirror_drift": drift, "mirror_fuel_exhausted": fuel_out,
        "mirror_action_rule_mismatch": act_mismatch,
        "input_features": dict(counters, rmax_argument_above_the_maximum_reward_rejected=n_rejected_rmax["above"],
                               rmax_argument_below_the_maximum_reward_rejected=n_rejected_rmax["below"], by_gamma=by_gamma, by_threshold=by_m, by_variant=by_variant),
    })
