"""C02 — exact policy evaluation (TabularPolicy.evaluate_on) solves the Bellman expectation equations.

Correspondence: generated MDPs x generated stochastic policies -> msdm (harness/impl/c02_impl.py) ->
the proved-sound certificate checkers model/PolicyEval.v:c02_disc / c02_undisc evaluated by vm_compute
on the returned tables (exact rationals of the floats, +-inf/nan as constructors).  The policy matrix
the checker uses is produced inside Coq by the models of Policy.to_tabular (to_tab) and of the
restriction `self[mdp.state_list,][:,mdp.action_list]` (restrict) from the policy's own lists.
Violation search / second opinion: an exact oracle in Python (fractions.Fraction): linear solve for
gamma < 1, chain analysis (reachability, closed classes, transient system) for gamma = 1.
"""
import os
from fractions import Fraction as F
import vlib
from vlib import q, qlist, qmat, qten, nat, natlist, bmat, blist, coqlist
import gen_mdp

INFO = {
    "level": "proof",
    "coq_files": ["model/PolicyEval.v"],
    "trusted_base": [
        "model/PolicyEval.v c02_disc/c02_undisc are evaluated on Q (NumQ); theorems are on R; tied by paramcoq transfer (theory/PolicyEvalTransfer.v)",
        "generated parameters (gamma, probabilities, rewards, policy entries) reach the model exactly and msdm as nearest doubles; in the softmax-watch family msdm gets softmax doubles and the model rationals within a few ulp of them (largest entry corrected by ~1e-16 so the row sums to exactly 1)",
        "the policy's own state/action lists are translated to MDP indices by the harness (position in the state_list/action_list msdm reports)",
        "undiscounted cases: the absorption-time certificate tau (hypothesis of C02_undisc_expected_total_reward) is the harness' exact Fraction solve, accepted by model/PolicyEval.v:c02_tau in the same vm_compute term",
    ],
    "assumptions": ["MDP arrays of the model are built from the generator's definition in the state/action order msdm reports"],
}

PRE = """From Coq Require Import QArith List Bool.
From MSDM Require Import base.Num base.NumInst model.MDP model.VI model.PolicyEval.
Import ListNotations.
Local Open Scope Q_scope.
Definition ptab (psl pal : list nat) (data : list (list Q)) := @restrict Q NumQ psl pal data.
Definition pfun (psl pal : list nat) (dl : list (list (nat * Q))) :=
  @restrict Q NumQ psl pal (@to_tab Q NumQ psl pal (fun s => nth s dl [])).
Definition chkd nS nA P R av ab ini g PI V Qv Oc iv tl :=
  @c02_disc Q NumQ (mk_mdp nS nA P R av ab ini g) PI (mk_eout V Qv Oc iv) tl.
Definition chku nS nA P R av ab ini g PI V Qv Oc iv tl (tau : list Q) :=
  let m := mk_mdp nS nA P R av ab ini g in
  (@c02_undisc Q NumQ m PI (mk_eout V Qv Oc iv) tl, @c02_tau Q NumQ m PI tau).
"""

CL_DISC = ["wfb", "wfpolb", "wfinitb", "d_disc", "d_fin", "c_abs0", "d_v", "d_q", "d_occ", "d_init"]
CL_UNDISC = ["wfb", "wfpolb", "wfinitb", "u_undisc", "u_nonpos", "c_abs0", "u_pat", "u_v", "u_q", "u_occ", "u_init"]


# ---------------------------------------------------------------------------------------------
# case generation
# ---------------------------------------------------------------------------------------------
def split(rng, k, den):
    cuts = sorted(rng.sample(range(1, den), k - 1)) if k > 1 else []
    return [F(b - a, den) for a, b in zip([0] + cuts, cuts + [den])]


SENSITIVE = [(1, 4, 2), (2, 3, 2), (4, 1, 2), (3, 2, 2)]


FORMS = ["tab"] * 6 + ["tab_lists"] * 3 + ["fun"] * 5 + ["fun_dict"] * 3 + ["dict"] * 3
LABEL_KINDS = [None, "revstr", "tuple", "falsystr", "float", "unsortable"]


def gen_policy(rng, m, nondyadic, tiny=None):
    rows = {}
    for s in range(m["n"]):
        av = m["actions"][s]
        r = rng.random()
        if tiny and len(av) >= 2 and rng.random() < .5:
            # probabilities 2^-k and 1 - 2^-k (exact doubles): `> 0` tests, nearly deterministic rows
            a, b = rng.sample(av, 2)
            row = [[a, str(F(1, 2 ** tiny))], [b, str(1 - F(1, 2 ** tiny))]]
        elif r < .3 or len(av) == 1:
            row = [[rng.choice(av), "1"]]
        else:
            k = rng.randint(2, len(av)) if rng.random() < .7 else len(av)
            sup = rng.sample(av, k)
            den = 8
            if nondyadic and rng.random() < .7:
                den = rng.choice([d for d in (3, 5, 6, 7, 10) if d >= k])
            parts = split(rng, k, den)
            if nondyadic and len(av) == 3 and rng.random() < .5:
                # rows whose float sum over the actions (in action-list order) is 1 - 2^-53:
                # keeps the fixed defect 3bf06a3 (float `rowsum < 1` test) under watch
                sup, parts = sorted(av), [F(x, 7) for x in rng.choice(SENSITIVE)]
            row = [[a, str(p)] for a, p in zip(sup, parts)]
        if rng.random() < .15:
            rest = [a for a in av if a not in [x[0] for x in row]]
            if rest:
                row.append([rng.choice(rest), "0"])
        rng.shuffle(row)
        rows[str(s)] = row
    so = list(range(m["n"]))
    ao = list(range(m["nA"]))
    if rng.random() < .6:
        rng.shuffle(so)
    if rng.random() < .6:
        rng.shuffle(ao)
    return {"form": rng.choice(FORMS), "rows": rows, "avail": {str(s): list(m["actions"][s]) for s in range(m["n"])},
            "state_order": so, "action_order": ao, "nondyadic": bool(nondyadic)}


def gen_watch_case(rng):
    """undiscounted loop of 2-3 states, 3 actions everywhere, the whole chain one closed negative class
    (plus sometimes a transient entry state), every policy row rounding-sensitive: under the float
    `rowsum < 1` test (defect fixed by 3bf06a3) about a third of these come out finite instead of -inf"""
    n = rng.randint(2, 3)
    entry = rng.random() < .4
    trans, reward = {}, {}
    loop = list(range(n))
    for s in loop:
        for a in range(3):
            succ = rng.sample(loop, rng.randint(1, 2))
            ps = gen_mdp._split_prob(rng, len(succ))
            trans["%d,%d" % (s, a)] = [[ns, str(p)] for ns, p in zip(succ, ps)]
            for ns in succ:
                reward["%d,%d,%d" % (s, a, ns)] = str(F(rng.randint(-4, -1)))
    # make the loop one communicating class: s -> s+1 mod n has positive probability under action 0
    for s in loop:
        trans["%d,0" % s] = [[(s + 1) % n, "1/2"], [s, "1/2"]]
        reward["%d,0,%d" % (s, (s + 1) % n)] = "-1"
        reward["%d,0,%d" % (s, s)] = "-1"
    N = n + (1 if entry else 0)
    if entry:
        for a in range(3):
            trans["%d,%d" % (n, a)] = [[rng.randrange(n), "1"]]
    m = {"n": N, "nA": 3, "actions": [[0, 1, 2]] * N, "trans": trans, "reward": reward,
         "absorbing": [False] * N, "init": [[N - 1, "1"]], "gamma": "1"}
    rows = {str(s): [[a, str(F(x, 7))] for a, x in zip(range(3), rng.choice(SENSITIVE))] for s in range(N)}
    pol = {"form": rng.choice(["tab", "fun"]), "rows": rows, "state_order": list(range(N)),
           "action_order": [0, 1, 2], "nondyadic": True}
    return {"mdp": m, "policy": pol, "explicit_lists": False, "family": "rounding-watch"}


NEAR_ONE = ["1048575/1048576", "999999/1000000", "99999999/100000000"]     # 1 - 2^-20, 1 - 10^-6, 1 - 10^-8


def softmax_row(rng, nA):
    """a Boltzmann row over integer preferences whose plain left-to-right float sum is <= 1 - 3*2^-53 (a few ulp below 1);
    returns (floats, exact rationals within a few ulp of them that sum to exactly 1)"""
    import math
    while True:
        x = [rng.randint(0, 6) for _ in range(nA)]
        e = [math.exp(v - max(x)) for v in x]
        z = 0.0
        for v in e:
            z += v
        p = [v / z for v in e]
        t = 0.0
        for v in p:
            t += v
        if t < 1 - 2.0 ** -52:
            fr = [F(v) for v in p]
            i = max(range(nA), key=lambda j: fr[j])
            fr[i] += 1 - sum(fr)                          # |correction| ~ 1e-16: the policy the floats stand for
            return p, fr


def gen_softmax_watch_case(rng):
    """undiscounted cycle of 2-3 states (one closed negative class, sometimes a transient entry state), 4-6 actions that
    all move to the next state of the cycle, every policy row a softmax row whose FLOAT sum is a few ulp below 1: a leak
    test `rowsum < 1 - eps` calls the class transient (finite values ~ -1e15 instead of -inf).  msdm gets the softmax
    doubles verbatim; the model gets rationals within a few ulp of them that sum to exactly 1."""
    n = rng.randint(2, 3)
    nA = rng.randint(4, 6)
    entry = rng.random() < .4
    N = n + (1 if entry else 0)
    trans, reward = {}, {}
    for s in range(n):
        for a in range(nA):
            trans["%d,%d" % (s, a)] = [[(s + 1) % n, "1"]]
            reward["%d,%d,%d" % (s, a, (s + 1) % n)] = str(-rng.randint(1, 3))
    if entry:
        for a in range(nA):
            trans["%d,%d" % (n, a)] = [[rng.randrange(n), "1"]]
    m = {"n": N, "nA": nA, "actions": [list(range(nA))] * N, "trans": trans, "reward": reward,
         "absorbing": [False] * N, "init": [[N - 1, "1"]], "gamma": "1"}
    rows, frows = {}, {}
    for s in range(N):
        p, fr = softmax_row(rng, nA)
        rows[str(s)] = [[a, str(fr[a])] for a in range(nA)]
        frows[str(s)] = [[a, p[a].hex()] for a in range(nA)]
    pol = {"form": rng.choice(["tab", "tab_lists", "fun", "fun_dict", "dict"]), "rows": rows, "float_rows": frows,
           "avail": {str(s): list(range(nA)) for s in range(N)}, "state_order": list(range(N)),
           "action_order": list(range(nA)), "nondyadic": True}
    return {"mdp": m, "policy": pol, "explicit_lists": False, "family": "softmax-watch"}


def gen_near_one_case(rng):
    """discounted, discount rate just below 1, with a closed non-absorbing class the policy cannot leave
    and whose rewards are non-zero: V ~ r/(1-gamma) (1e6..1e8) is far from what the undiscounted branch
    would return (-inf / assertion); keeps the `gamma < 1` dispatch of evaluate_on under watch"""
    g = rng.choice(NEAR_ONE)
    nonpos = rng.random() < .6
    m = gen_mdp.gen_mdp(rng, nmax=4, amax=3, gamma=g, nonpos=nonpos, goal=rng.random() < .7, min_states=2)
    live = [s for s in range(m["n"]) if not m["absorbing"][s]]
    if not live:
        live = [0]
        m["absorbing"][0] = False
    C = rng.sample(live, rng.randint(1, min(2, len(live))))
    for s in C:
        for a in m["actions"][s]:
            for k in [k for k in m["reward"] if k.startswith("%d,%d," % (s, a))]:
                del m["reward"][k]
            succ = rng.sample(C, rng.randint(1, len(C)))
            ps = gen_mdp._split_prob(rng, len(succ))
            m["trans"]["%d,%d" % (s, a)] = [[ns, str(p)] for ns, p in zip(succ, ps)]
            for ns in succ:
                r = rng.randint(-4, -1) if (nonpos or rng.random() < .5) else rng.randint(1, 4)
                m["reward"]["%d,%d,%d" % (s, a, ns)] = str(F(r))
    # start inside or next to the class so that it matters for the initial value and the occupancy
    m["init"] = [[C[0], "1/2"], [rng.choice([x for x in range(m["n"]) if x != C[0]] or [C[0]]), "1/2"]]
    if m["init"][0][0] == m["init"][1][0]:
        m["init"] = [[C[0], "1"]]
    return finish_case(rng, {"mdp": m, "policy": gen_policy(rng, m, rng.random() < .25), "explicit_lists": rng.random() < .3,
                             "family": "gamma-near-one"})


def gen_corridor_case(rng):
    """undiscounted, path-shaped chain: n in {6,7,9,10} states (not powers of two), a corridor whose only forward
    route to a closed class at its end has n-2..n-1 steps (back-steps, stays and exits to a goal do not shorten it),
    state ids permuted.  Exercises reachability over long shortest paths (diameter up to n-1): transient/recurrent
    classification, the -inf set and the +inf occupancies all depend on paths longer than 2^floor(log2 n)."""
    n = rng.choice([6, 7, 7, 9, 10])
    goal = rng.random() < .5
    c = rng.randint(1, 2)
    L = n - c - (1 if goal else 0)               # corridor positions 0..L-1, class L..L+c-1, goal last
    perm = list(range(n))
    rng.shuffle(perm)
    cls = [perm[L + i] for i in range(c)]
    g = perm[n - 1] if goal else None
    trans, reward, actions = {}, {}, [None] * n
    negclass = rng.random() < .75
    for i in range(L):
        s = perm[i]
        actions[s] = [0, 1] if rng.random() < .7 else [0]
        fwd = perm[i + 1]
        p = rng.randint(1, 8)
        row = [[fwd, str(F(p, 8))]]
        if p < 8:
            row.append([rng.choice([s, perm[max(i - 1, 0)], perm[0]]), str(F(8 - p, 8))])
        if row[-1][0] == fwd:
            row = [[fwd, "1"]]
        trans["%d,0" % s] = row
        for ns, _ in row:
            if rng.random() < .7:
                reward["%d,0,%d" % (s, ns)] = str(-rng.randint(1, 3))
        if 1 in actions[s]:
            tgt = g if (goal and rng.random() < .5) else rng.choice([s, perm[max(i - 1, 0)]])
            trans["%d,1" % s] = [[tgt, "1"]]
            if rng.random() < .7:
                reward["%d,1,%d" % (s, tgt)] = str(-rng.randint(1, 3))
    for i, s in enumerate(cls):
        actions[s] = [0, 1] if rng.random() < .5 else [0]
        for a in actions[s]:
            ns = cls[(i + 1) % c] if a == 0 else rng.choice(cls)
            trans["%d,%d" % (s, a)] = [[ns, "1"]]
            if negclass:
                reward["%d,%d,%d" % (s, a, ns)] = str(-rng.randint(1, 3))
    absorbing = [False] * n
    if goal:
        absorbing[g] = True
        actions[g] = [0]
        trans["%d,0" % g] = [[g, "1"]]
    init = [[perm[0], "1"]] if rng.random() < .6 else [[perm[0], "1/2"], [perm[rng.randrange(n)], "1/2"]]
    if len(init) == 2 and init[0][0] == init[1][0]:
        init = [[perm[0], "1"]]
    m = {"n": n, "nA": 2, "actions": actions, "trans": trans, "reward": reward, "absorbing": absorbing,
         "init": init, "gamma": "1"}
    pol = gen_policy(rng, m, False)
    # the forward action keeps positive probability almost everywhere (otherwise the corridor is cut: also a valid case)
    for i in range(L):
        s = perm[i]
        if 1 in actions[s] and rng.random() < .85:
            k = rng.randint(1, 7)
            pol["rows"][str(s)] = [[0, str(F(k, 8))], [1, str(F(8 - k, 8))]]
    case = {"mdp": m, "policy": pol, "explicit_lists": rng.random() < .3, "family": "corridor"}
    return finish_case(rng, case)


def gen_decisive_case(rng):
    """a tiny action probability (2^-27 .. 2^-60, exact doubles) that decides the answer:
    undiscounted: it is the ONLY way into a closed negative class (-inf / +inf occupancy vs finite);
    discounted:   it carries a cost of 2^27 k, i.e. an expected contribution of k to the value."""
    undisc = rng.random() < .6
    while True:
        m = gen_mdp.gen_mdp(rng, nmax=4, amax=3, gamma="1" if undisc else None, proper=undisc, uniform_actions=True,
                            min_states=2, implicit_absorbing=False)
        live = [s for s in range(m["n"]) if not m["absorbing"][s]]
        if m["nA"] >= 2 and live:
            break
    s0 = rng.choice(live)
    b = rng.randrange(m["nA"])
    others = [a for a in range(m["nA"]) if a != b]
    for k in [k for k in m["reward"] if k.startswith("%d,%d," % (s0, b))]:
        del m["reward"][k]
    if undisc:
        e = rng.choice([30, 40, 50, 60])
        c = rng.randint(1, 2)
        cls = list(range(m["n"], m["n"] + c))
        for i, s in enumerate(cls):
            m["actions"].append(list(range(m["nA"])))
            m["absorbing"].append(False)
            for a in range(m["nA"]):
                ns = cls[(i + 1) % c] if a == 0 else rng.choice(cls)
                m["trans"]["%d,%d" % (s, a)] = [[ns, "1"]]
                m["reward"]["%d,%d,%d" % (s, a, ns)] = str(-rng.randint(1, 3))
        m["n"] += c
        m["trans"]["%d,%d" % (s0, b)] = [[cls[0], "1"]]
        if rng.random() < .6:
            m["reward"]["%d,%d,%d" % (s0, b, cls[0])] = str(-rng.randint(1, 3))
    else:
        e = 27
        kk = rng.randint(2, 4)
        for ns, p in m["trans"]["%d,%d" % (s0, b)]:
            m["reward"]["%d,%d,%d" % (s0, b, ns)] = str(-kk * 2 ** 27)
    m["init"] = [[s0, "1"]] if rng.random() < .5 else [[s0, "1/2"], [rng.choice([x for x in range(m["n"]) if x != s0]), "1/2"]]
    pol = gen_policy(rng, m, False)
    eps = F(1, 2 ** e)
    o = rng.choice(others)
    where = rng.choice(["policy", "policy", "transition", "initial", "termination"] if undisc else ["policy", "transition"])
    if where == "policy":
        pol["rows"][str(s0)] = [[b, str(eps)], [o, str(1 - eps)]]
    elif where == "transition":
        # the decisive branch is a transition entry: T(s0, b, .) = eps towards the class (resp. the costly successor),
        # 1 - eps along the old route; the policy plays b with an ordinary probability
        old_row = [x for x in gen_mdp_row(rng, m, s0, exclude=(cls if undisc else []))]
        tgt = cls[0] if undisc else old_row[0][0]
        # the 1 - eps branch must LEAVE s0: 1 - 2^-60 is 1.0 in doubles, so a self-loop there would, under a policy
        # that always plays b (e.g. the second policy of a multi-step case), be a state left only after ~2^60 steps --
        # an absorption time no double-precision solve can follow (I - P is exactly singular in floating point)
        alt = old_row[-1][0]
        if alt in (tgt, s0):
            alt = rng.choice([x for x in range(m["n"]) if x not in (tgt, s0) and (not undisc or x not in cls)]
                             or [x for x in range(m["n"]) if x != tgt])
        for k in [k for k in m["reward"] if k.startswith("%d,%d," % (s0, b))]:
            del m["reward"][k]
        m["trans"]["%d,%d" % (s0, b)] = [[tgt, str(eps)], [alt, str(1 - eps)]]
        m["reward"]["%d,%d,%d" % (s0, b, tgt)] = str(-rng.randint(1, 3)) if undisc else str(-kk * 2 ** 27)
        kq = rng.randint(1, 7)
        pol["rows"][str(s0)] = [[b, str(F(kq, 8))], [o, str(F(8 - kq, 8))]]
    elif where == "initial":
        # nobody walks into the class; the initial distribution puts 2^-e on it
        m["trans"]["%d,%d" % (s0, b)] = [list(x) for x in m["trans"]["%d,%d" % (s0, o)]]
        for k in [k for k in m["reward"] if k.startswith("%d,%d," % (s0, b))]:
            del m["reward"][k]
        m["init"] = [[cls[0], str(eps)], [s0, str(1 - eps)]]
    else:
        # the only way out of s0 (towards termination) has probability 2^-27 per step, each step costs 1:
        # value -1/eps, finite; with the branch dropped s0 would be a closed negative class
        e = 27
        eps = F(1, 2 ** e)
        goal = [x for x in range(m["n"]) if m["absorbing"][x]]
        tgt = goal[0] if goal else cls[0]
        for a in range(m["nA"]):
            for k in [k for k in m["reward"] if k.startswith("%d,%d," % (s0, a))]:
                del m["reward"][k]
            m["trans"]["%d,%d" % (s0, a)] = [[tgt, str(eps)], [s0, str(1 - eps)]]
            m["reward"]["%d,%d,%d" % (s0, a, s0)] = "-1"
        if not goal:
            where = "termination-into-class"
    case = {"mdp": m, "policy": pol, "explicit_lists": rng.random() < .3, "family": "decisive-tiny-probability",
            "decisive_where": where}
    return finish_case(rng, case)


def gen_mdp_row(rng, m, s0, exclude=()):
    """the positive successors of some action of s0 other than the excluded states (fallback: s0 itself)"""
    for a in m["actions"][s0]:
        row = [[ns, p] for ns, p in m["trans"]["%d,%d" % (s0, a)] if F(p) > 0 and ns not in exclude]
        if row:
            return row
    return [[s0, "1"]]


def gen_case(rng, tier):
    if rng.random() < .05:
        return gen_watch_case(rng)
    if rng.random() < .03:
        return gen_softmax_watch_case(rng)
    if rng.random() < .06:
        return gen_corridor_case(rng)
    if rng.random() < .06:
        return gen_decisive_case(rng)
    if rng.random() < .03:
        return gen_error_case(rng)
    if rng.random() < float(os.environ.get("C02_NEAR_ONE_SHARE", ".06")):     # env override: stress runs only
        return gen_near_one_case(rng)
    undisc = rng.random() < .45
    nmax = 5 if tier == "quick" else 7
    if undisc:
        m = gen_mdp.gen_mdp(rng, nmax=nmax, amax=3, gamma="1", proper=rng.random() < .3,
                            goal=rng.random() < .85, min_states=1 if rng.random() < .05 else 2)
        live = [s for s in range(m["n"]) if not m["absorbing"][s]]
        # closed class injection: the states of C only move inside C (some policies reach it, some do not)
        if len(live) >= 2 and rng.random() < .5:
            C = rng.sample(live, rng.randint(1, min(2, len(live) - 1)))
            for s in C:
                for a in m["actions"][s]:
                    for k in [k for k in m["reward"] if k.startswith("%d,%d," % (s, a))]:
                        del m["reward"][k]
                    succ = rng.sample(C, rng.randint(1, len(C)))
                    ps = gen_mdp._split_prob(rng, len(succ))
                    m["trans"]["%d,%d" % (s, a)] = [[ns, str(p)] for ns, p in zip(succ, ps)]
                    for ns in succ:
                        if rng.random() < .6:
                            m["reward"]["%d,%d,%d" % (s, a, ns)] = str(F(rng.randint(-4, -1)))
            if rng.random() < .3:
                # the class pays only a tiny negative reward: -2^-30 must still give -inf (`state_rewards < 0`)
                s, a = C[0], m["actions"][C[0]][0]
                for k in [k for k in m["reward"] if int(k.split(",")[0]) in C]:
                    del m["reward"][k]
                for ns, p in m["trans"]["%d,%d" % (s, a)]:
                    m["reward"]["%d,%d,%d" % (s, a, ns)] = str(-F(1, 2 ** 30))
        # zero-reward regions (zero-reward closed classes, finite values next to -inf ones)
        if rng.random() < .35:
            zs = [s for s in range(m["n"]) if rng.random() < .5]
            for k in list(m["reward"]):
                if int(k.split(",")[0]) in zs:
                    del m["reward"][k]
    else:
        m = gen_mdp.gen_mdp(rng, nmax=nmax, amax=3, min_states=1 if rng.random() < .05 else 2)
    nondy = rng.random() < (.25 if undisc else .25)
    # ---- parameter boundaries ----
    if not undisc and rng.random() < .1:
        m["gamma"] = "0"                                  # discount rate exactly 0
    if rng.random() < .08:                                # very large reward magnitudes (1e3 .. 1e6)
        k = 10 ** rng.randint(3, 6)
        m["reward"] = {key: str(F(v) * k) for key, v in m["reward"].items()}
    if m["n"] >= 2 and rng.random() < .08:                # initial probabilities 2^-30 and 1 - 2^-30
        a, b = rng.sample(range(m["n"]), 2)
        m["init"] = [[a, str(F(1, 2 ** 30))], [b, str(1 - F(1, 2 ** 30))]]
    tiny = (20 if undisc else rng.choice([30, 40, 50, 60])) if rng.random() < .08 else None
    case = {"mdp": m, "policy": gen_policy(rng, m, nondy, tiny), "explicit_lists": rng.random() < .3}
    if m["gamma"] in ("0", "1") and rng.random() < .5:
        case["gamma_as_int"] = True                       # discount_rate=1 / 0 passed as int
    return finish_case(rng, case)


def perturbed_mdp(rng, m):
    """a DIFFERENT problem the same policy can be evaluated on: same state/action ids and available actions, other
    transitions, rewards, initial distribution (so possibly another reachable set / size), absorbing flags and discount"""
    und = F(m["gamma"]) >= 1
    n = m["n"]
    absorbing = list(m["absorbing"])
    if rng.random() < .3:
        x = rng.randrange(n)
        absorbing[x] = not absorbing[x]
    trans, reward = {}, {}
    for s in range(n):
        for a in m["actions"][s]:
            succ = rng.sample(range(n), rng.randint(1, min(3, n)))
            row = [[ns, str(p)] for ns, p in zip(succ, gen_mdp._split_prob(rng, len(succ)))]
            if absorbing[s]:
                row = [[s, "1"]]                          # as in gen_mdp: explicit absorbing states self-loop
            trans["%d,%d" % (s, a)] = row
            for ns, p in row:
                if rng.random() < .8:
                    r = rng.randint(-4, 0 if und else 4)
                    if r:
                        reward["%d,%d,%d" % (s, a, ns)] = str(r)
    starts = rng.sample(range(n), rng.randint(1, min(2, n)))
    init = [[x, str(p)] for x, p in zip(starts, gen_mdp._split_prob(rng, len(starts)))]
    g = "1" if und else rng.choice([x for x in gen_mdp.GAMMAS_DISC if x != m["gamma"]] or gen_mdp.GAMMAS_DISC)
    return {"n": n, "nA": m["nA"], "actions": [list(a) for a in m["actions"]], "trans": trans, "reward": reward,
            "absorbing": absorbing, "init": init, "gamma": g}


def nondyadic_numbers(rng, m):
    """transition rows on thirds / fifths / sixths / sevenths / tenths (0.7/0.2/0.1 ...), rewards such as -1/3 and
    0.1, initial distributions on tenths: float row sums are not exactly 1.0"""
    for key, row in m["trans"].items():
        pos = [x for x in row if F(x[1]) > 0]
        if len(pos) >= 2 and rng.random() < .7:
            den = rng.choice([d for d in (3, 5, 6, 7, 10) if d >= len(pos)])
            for x, p in zip(pos, split(rng, len(pos), den)):
                x[1] = str(p)
    for key in list(m["reward"]):
        if rng.random() < .4:
            m["reward"][key] = str(F(m["reward"][key]) / rng.choice([3, 10, 7]))
    pos = [x for x in m["init"] if F(x[1]) > 0]
    if len(pos) >= 2 and rng.random() < .7:
        for x, p in zip(pos, split(rng, len(pos), 10)):
            x[1] = str(p)


def finish_case(rng, case):
    m = case["mdp"]
    if rng.random() < .2 and case.get("family") not in ("decisive-tiny-probability", "rounding-watch"):
        nondyadic_numbers(rng, m)
        case["nondyadic_mdp"] = True
    if rng.random() < .25:
        case["shared_objects"] = True                     # persistent mutable lists / distributions from the callbacks
    if rng.random() < .3:
        case["flag_type"] = rng.choice(["int", "np.int64", "np.bool_"])   # what is_absorbing returns / flag arrays hold
    if rng.random() < .2:
        case["mdp_form"] = "matrices"                     # TabularMarkovDecisionProcess.from_matrices
        case["matrix_flags_float"] = rng.random() < .5
    if rng.random() < .2:
        case["int_inputs"] = True                         # integral rewards / probabilities / discount as Python ints
    if rng.random() < .3:
        case["policy"]["dtype"] = rng.choice(["int", "float32"])
    if rng.random() < .4:                                 # label representations (incl. falsy labels "", (), 0.0)
        case["labels"] = {"s": rng.choice(LABEL_KINDS), "a": rng.choice(LABEL_KINDS)}
    if case["policy"]["form"] == "dict":
        case["explicit_lists"] = False                    # from_dict only knows the actions it was given
    case = with_reuse(rng, case)
    if rng.random() < .12:
        # a SECOND policy object evaluated on the MDP object that was already used by the first
        p2 = gen_policy(rng, m, rng.random() < .25)
        if p2["form"] == "dict" and case["explicit_lists"]:
            p2["form"] = "tab"
        steps = case.setdefault("reuse", [])
        steps.insert(rng.randint(0, len(steps)), {"other_policy": p2})
    if case["policy"]["form"] in ("tab", "tab_lists") and case.get("family") != "decisive-tiny-probability" and rng.random() < .3:
        # (explicit lists: the policy's action set must equal the action set of every MDP it is evaluated on;
        #  not for the decisive-tiny family: 1 - 2^-60 is 1.0 in floating point, so on another problem the same
        #  row can describe an absorption time of 2^60 steps, which no double-precision solve can follow)
        case["explicit_lists"] = True
        for st in case.get("reuse", []):
            if isinstance(st, dict) and "other_policy" in st and st["other_policy"]["form"] == "dict":
                st["other_policy"]["form"] = "tab"        # from_dict only knows the actions it was given
        # the SAME policy object on a DIFFERENT problem, somewhere in the sequence (results of the first call are
        # re-read at the very end)
        steps = case.setdefault("reuse", [])
        steps.insert(rng.randint(0, len(steps)), {"other_mdp": perturbed_mdp(rng, m),
                                                   "akeys": [rng.random() for _ in range(m["nA"])]})
    if rng.random() < .1:
        case.setdefault("reuse", []).append("fresh")
    return case


def gen_error_case(rng):
    """inputs outside the quantifier that evaluate_on must reject (any exception) rather than silently evaluate;
    expect_error only records the type the pinned code raises"""
    kind = rng.choice(["policy-action-not-in-mdp", "discount-above-one", "positive-reward-undiscounted"])
    g = {"policy-action-not-in-mdp": rng.choice(["9/10", "1"]), "discount-above-one": rng.choice(["11/10", "2"]),
         "positive-reward-undiscounted": "1"}[kind]
    m = gen_mdp.gen_mdp(rng, nmax=4, amax=3, gamma="9/10" if kind == "discount-above-one" else g, min_states=2)
    m["gamma"] = g
    pol = gen_policy(rng, m, False)
    pol["form"] = rng.choice(["tab", "tab_lists"])
    case = {"mdp": m, "policy": pol, "explicit_lists": rng.random() < .3, "family": "error-path", "error_kind": kind}
    if kind == "policy-action-not-in-mdp":
        pol["extra_action_labels"] = ["not-an-mdp-action"]
        case["expect_error"] = "AssertionError"
    elif kind == "discount-above-one":
        case["expect_error"] = "ValueError"
    else:
        live = [(s, a) for s in range(m["n"]) if not m["absorbing"][s] for a in m["actions"][s]]
        if not live:
            m["absorbing"][0] = False
            live = [(0, a) for a in m["actions"][0]]
        # a positive expected reward somewhere: on every listed successor of one live (s, a), and make sure that
        # state is reachable by starting there
        s0, a0 = rng.choice(live)
        for ns, p in m["trans"]["%d,%d" % (s0, a0)]:
            m["reward"]["%d,%d,%d" % (s0, a0, ns)] = str(rng.randint(1, 4))
        m["init"] = [[s0, "1"]]
        case["expect_error"] = "AssertionError"
    return case


def with_reuse(rng, case):
    """multi-step scenario (25% of cases, more through the other step kinds): the same policy object is evaluated again on 1-2 MDPs with the same
    dynamics but differently ordered state/action lists, and/or once more on the first MDP"""
    if rng.random() < .25:
        m = case["mdp"]
        steps = []
        for _ in range(rng.randint(1, 2)):
            steps.append({"skeys": [rng.random() for _ in range(m["n"])], "akeys": [rng.random() for _ in range(m["nA"])]})
        if rng.random() < .5:
            steps.insert(rng.randint(0, len(steps)), "same")
        case["reuse"] = steps
    return case


# ---------------------------------------------------------------------------------------------
# model-side inputs
# ---------------------------------------------------------------------------------------------
def policy_views(case, res):
    """(Gallina term of the policy matrix, exact matrix pi[s][a] in msdm's index order,
        expected policy table or None, expected own state list, expected own action list;
        None for a list = any order of the MDP's set is allowed (TabularPolicy.from_dict))"""
    sl, al = res["state_list"], res["action_list"]
    pol = res.get("pol") or case["policy"]
    sidx = {s: i for i, s in enumerate(sl)}
    aidx = {a: i for i, a in enumerate(al)}
    nS = len(sl)
    rows = {int(s): [(a, F(p)) for a, p in r] for s, r in pol["rows"].items()}
    pal_ids = [a for a in pol["action_order"] if a in aidx]
    exact = [[sum((p for a, p in rows[s] if a == al[j]), F(0)) for j in range(len(al))] for s in sl]
    form = pol["form"]
    free = form == "dict"
    if free:
        # from_dict: states in dict order, actions in set order -> take the lists msdm reports, require the sets
        psl_ids, pal_ids = list(res["psl"]), list(res["pal"])
        if sorted(psl_ids) != sorted(sl) or sorted(pal_ids) != sorted(al):
            psl_ids, pal_ids = None, None
            return None, exact, None, None, None
    elif form in ("tab", "tab_lists"):
        psl_ids = list(pol["state_order"])
    else:
        psl_ids = [s for s in pol["state_order"] if s in sidx]
    pal = [aidx[a] for a in pal_ids]
    psl = [sidx[s] if s in sidx else nS + s for s in psl_ids]
    data = [[sum((p for a, p in rows[s] if a == b), F(0)) for b in pal_ids] for s in psl_ids]
    if form in ("tab", "tab_lists", "dict"):
        term = "(ptab %s %s %s)" % (natlist(psl), natlist(pal), qmat(data))
    else:
        dl = [coqlist("(%s, %s)" % (nat(aidx[a]), q(p)) for a, p in rows[s]) for s in sl]
        term = "(pfun %s %s %s)" % (natlist(psl), natlist(pal), coqlist(dl))
    table = None if form in ("tab", "tab_lists") else [[float(x) for x in r] for r in data]
    if table is not None and pol.get("float_rows"):
        fl_ = {int(s_): {a: float.fromhex(h) for a, h in r} for s_, r in pol["float_rows"].items()}
        table = [[fl_[s_].get(b, 0.0) for b in pal_ids] for s_ in psl_ids]
    return term, exact, table, psl_ids, pal_ids


def ext(x):
    if isinstance(x, str) or x is None:
        return {"inf": "PInf", "-inf": "NInf"}.get(x, "NaN")
    return "(Fin %s)" % q(x)


def fin(x):
    return None if (isinstance(x, str) or x is None) else vlib.frac(x)


def kappa(g, orc):
    """amplification of rounding errors by the linear solve: 1/(1-gamma), resp. the largest expected absorption time"""
    if g < 1:
        return 1 / (1 - g)
    return max([F(1)] + [abs(x) for x in ((orc or {}).get("tau") or [])])


def tol_term(res, g, orc):
    """checker tolerances.  Old rule: 1e-7 relative to the magnitudes.  Now min(old, 1000 u kappa (=1e-13 kappa)
    relative to the magnitudes of the terms involved): msdm's measured error is <= ~3 u kappa, so an error of relative
    size 1e-9 (float32 copies, isclose-rounded inputs) no longer hides behind the slack where kappa is small."""
    vals = [abs(f) for f in map(fin, res["V"]) if f is not None]
    occs = [abs(f) for f in map(fin, res["occ"]) if f is not None]
    sv = max([F(1)] + vals)
    so = max([F(1)] + occs)
    old = F(1, 10**7)
    t_old = [old * sv, old * sv, old * so, old * sv, old * sv * so]
    if orc is None:
        return "(mkETols %s)" % " ".join(q(x) for x in t_old)
    n = len(res["V"])
    rk = min(old, F(1, 10**13) * kappa(g, orc))
    r1 = F(1, 10**13)
    rmax = max([F(1)] + [abs(x) for x in orc["rpi"]])
    sq = max(sv, orc["sar_max"], rmax)
    t_new = [rk * max(sv, rmax), r1 * sq * n, rk * so, r1 * sv * n, rk * (sv + so * rmax) * n]
    return "(mkETols %s)" % " ".join(q(min(a, b)) for a, b in zip(t_old, t_new))


# ---------------------------------------------------------------------------------------------
# exact oracle
# ---------------------------------------------------------------------------------------------
def solve_linear(A, b):
    n = len(A)
    M = [row[:] + [b[i]] for i, row in enumerate(A)]
    for c in range(n):
        piv = next((r for r in range(c, n) if M[r][c] != 0), None)
        if piv is None:
            return None
        M[c], M[piv] = M[piv], M[c]
        pv = M[c][c]
        M[c] = [x / pv for x in M[c]]
        for r in range(n):
            if r != c and M[r][c] != 0:
                f = M[r][c]
                M[r] = [x - f * y for x, y in zip(M[r], M[c])]
    return [M[i][n] for i in range(n)]


def absorbing_vec(P, R, av, absf):
    n, nA = len(P), len(P[0])
    out = []
    for s in range(n):
        dead = not any(av[s])
        selfloop = all((P[s][a][s] == 1) or not av[s][a] for a in range(nA)) and not dead
        zero = all(R[s][a][k] == 0 for a in range(nA) for k in range(n))
        out.append(bool((selfloop and zero) or absf[s]))
    return out


def oracle(P, R, av, absf, ini, g, pi):
    """exact evaluation of policy pi: dict with V, Q, occ, iv; None entries = -inf (V, Q, iv) / +inf (occ)"""
    n, nA = len(P), len(P[0])
    ab = absorbing_vec(P, R, av, absf)
    sar = [[sum(P[s][a][k] * R[s][a][k] for k in range(n)) for a in range(nA)] for s in range(n)]
    rpi = [F(0) if ab[s] else sum(pi[s][a] * sar[s][a] for a in range(nA)) for s in range(n)]
    sar_max = max([F(0)] + [abs(sar[s][a]) for s in range(n) for a in range(nA) if av[s][a]])
    Ppi = [[F(0) if ab[s] else sum(pi[s][a] * P[s][a][z] for a in range(nA)) for z in range(n)] for s in range(n)]
    I = lambda i, j: F(1) if i == j else F(0)
    if g < 1:
        V = solve_linear([[I(i, j) - g * Ppi[i][j] for j in range(n)] for i in range(n)], rpi)
        occ = solve_linear([[I(i, j) - g * Ppi[j][i] for j in range(n)] for i in range(n)], ini)
        if V is None or occ is None:
            return None
        Qm = [[(sar[s][a] + g * sum(P[s][a][k] * V[k] for k in range(n))) if av[s][a] else None
               for a in range(nA)] for s in range(n)]
        return {"ab": ab, "av": av, "sar_max": sar_max, "V": V, "Q": Qm, "occ": occ, "iv": sum(ini[s] * V[s] for s in range(n)),
                "iv2": sum(occ[s] * rpi[s] for s in range(n)), "rpi": rpi}
    # undiscounted: chain analysis by definition (independent of the Warshall model)
    reach = []
    for s in range(n):
        seen, fr = {s}, [s]
        while fr:
            x = fr.pop()
            for z in range(n):
                if Ppi[x][z] > 0 and z not in seen:
                    seen.add(z)
                    fr.append(z)
        reach.append(seen)
    closed = [(not ab[j]) and all(j in reach[k] for k in reach[j]) and sum(Ppi[j]) == 1 for j in range(n)]
    neginf = [any(closed[j] and rpi[j] < 0 for j in reach[s]) for s in range(n)]
    Pt = [[F(0) if closed[s] else Ppi[s][z] for z in range(n)] for s in range(n)]
    V0 = solve_linear([[I(i, j) - Pt[i][j] for j in range(n)] for i in range(n)], rpi)
    oc0 = solve_linear([[I(i, j) - Pt[j][i] for j in range(n)] for i in range(n)], ini)
    if V0 is None or oc0 is None:
        return None
    V = [None if neginf[s] else V0[s] for s in range(n)]
    # absorption-time certificate for props/C02.v:C02_undisc_expected_total_reward: tau = 1 + P_t tau
    tau = solve_linear([[I(i, j) - Pt[i][j] for j in range(n)] for i in range(n)], [F(1)] * n)
    occinf = [closed[z] and any(ini[s] > 0 and z in reach[s] for s in range(n)) for z in range(n)]
    occ = [None if occinf[z] else oc0[z] for z in range(n)]
    Qm = []
    for s in range(n):
        row = []
        for a in range(nA):
            if not av[s][a] or any(P[s][a][k] > 0 and V[k] is None for k in range(n)):
                row.append(None)
            else:
                row.append(sar[s][a] + sum(P[s][a][k] * V[k] for k in range(n) if P[s][a][k] > 0))
        Qm.append(row)
    iv = None if any(ini[s] > 0 and V[s] is None for s in range(n)) else sum(ini[s] * V[s] for s in range(n) if ini[s] > 0)
    return {"ab": ab, "av": av, "sar_max": sar_max, "V": V, "Q": Qm, "occ": occ, "iv": iv, "iv2": None, "rpi": rpi, "closed": closed, "neginf": neginf, "tau": tau}


def longest_shortest_path(pi, P, ab):
    """diameter of the policy's positive-probability graph (longest finite shortest path), absorbing rows cut"""
    n = len(P)
    adj = [[z for z in range(n) if not ab[s] and any(pi[s][a] > 0 and P[s][a][z] > 0 for a in range(len(P[s])))] for s in range(n)]
    best = 0
    for s in range(n):
        dist, fr = {s: 0}, [s]
        while fr:
            nx = []
            for x in fr:
                for z in adj[x]:
                    if z not in dist:
                        dist[z] = dist[x] + 1
                        nx.append(z)
            fr = nx
        best = max(best, max(dist.values()))
    return best


def compare(res, orc, g, rel=F(1, 10**5)):
    """first clause of the property the implementation's output fails against the exact oracle, or None"""
    n = len(orc["V"])
    und = g >= 1
    fv = [abs(x) for x in orc["V"] if x is not None]
    scale = max([F(1)] + fv)
    rel = min(rel, F(1, 10**11) * kappa(g, orc))      # never looser than 1e-5; ~1e5 u kappa where that is smaller
    tol = rel * scale
    tolq = rel * max(scale, orc["sar_max"])

    def cmp(x, y, what, neg, extra):
        # x reported (json), y exact (None = infinite of sign neg)
        if y is None:
            if x != neg:
                return dict(clause=("finite-value-where-minus-infinity" if neg == "-inf" else "finite-value-where-plus-infinity")
                            if not isinstance(x, str) else "wrong-non-finite-value", what=what, reported=str(x), exact=neg, **extra)
            return None
        if isinstance(x, str) or x is None:
            return dict(clause=("minus-infinity-where-finite" if x == "-inf" else "non-finite-where-finite"), what=what,
                        reported=str(x), exact=str(y), **extra)
        if abs(vlib.frac(x) - y) > extra.pop("tol", tol):
            return dict(clause="wrong-number", what=what, reported=str(float(vlib.frac(x))), exact=str(float(y)), **extra)
        return None

    for s in range(n):
        w = cmp(res["V"][s], orc["V"][s], "state-value", "-inf", {"state_index": s})
        if w:
            return w
        if orc["ab"][s] and fin(res["V"][s]) != 0:
            return dict(clause="absorbing-state-not-worth-0", what="state-value", state_index=s, reported=str(res["V"][s]))
    for s in range(n):
        for a in range(len(orc["Q"][s])):
            y = orc["Q"][s][a]
            x = res["Q"][s][a]
            if orc["ab"][s]:
                # action values of absorbing states: only the availability pattern is part of the property
                # (coordinator's decision); available => not +inf/nan (and finite when discounted)
                avl = orc["av"][s][a]
                bad = (x != "-inf") if not avl else (x in ("inf", "nan") or (x == "-inf" and not und))
                if bad:
                    return dict(clause="wrong-availability-pattern", what="action-value", state_index=s, action_index=a, reported=str(x))
                continue
            w = cmp(x, y, "action-value", "-inf", {"state_index": s, "action_index": a, "tol": tolq})
            if w:
                return w
    so = max([F(1)] + [abs(x) for x in orc["occ"] if x is not None])
    for z in range(n):
        w = cmp(res["occ"][z], orc["occ"][z], "occupancy", "inf", {"state_index": z, "tol": rel * so})
        if w:
            return w
    w = cmp(res["initial_value"], orc["iv"], "initial-value", "-inf", {})
    if w:
        return w
    return None


# ---------------------------------------------------------------------------------------------
def run(ctx):
    tier = ctx.tier
    ncases = 400 if tier == "quick" else 4000
    if ctx.replay_case:
        cases = [ctx.replay_case["detail"]["case"]]
    else:
        cases = [gen_case(ctx.rng, tier) for _ in range(ncases)]
    impl = ctx.impl("c02_impl.py", {"cases": cases}, shards=min(ctx.jobs, 4 if tier == "quick" else 12))["results"]
    terms, meta = [], []
    cnt = {k: 0 for k in ("discounted", "undiscounted", "form_tab", "form_tab_lists", "form_fun", "form_fun_dict", "form_dict",
                          "error_path_cases", "relabelled_cases", "falsy_label_cases", "unsortable_label_cases", "gamma_zero_cases",
                          "gamma_as_int_cases", "large_reward_cases", "tiny_probability_cases", "tiny_negative_reward_cases",
                          "nan_to_zero_in_q_cases", "nan_to_zero_in_initial_value_cases", "all_absorbing_cases", "single_state_cases",
                          "second_policy_on_used_mdp", "first_result_reread_after_later_calls", "fresh_reconstruction_steps",
                          "reused_policy_on_other_mdp", "reused_policy_on_other_mdp_of_other_size", "nondyadic_mdp_cases",
                          "shared_mutable_object_cases", "int_typed_input_cases", "int_or_float32_policy_table_cases",
                          "n_states_equals_n_actions_cases", "single_action_cases", "decisive_tiny_policy", "decisive_tiny_transition",
                          "decisive_tiny_initial", "decisive_tiny_termination", "decisive_tiny_termination_into_class", "corridor_cases", "softmax_watch_cases", "int_typed_absorbing_flag_cases", "from_matrices_cases",
                          "from_matrices_int_flag_cases", "long_path_cases", "decisive_tiny_probability_cases", "nondyadic", "neginf_cases", "mixed_finite_and_neginf",
                          "occinf_cases", "q_absorbing_nonzero_cases", "policy_on_larger_state_list", "permuted_lists",
                          "stochastic_policy_rows", "oracle_agree", "explicit_lists", "zero_prob_entries", "tau_certificates_accepted",
                          "gamma_near_one_cases", "rounding_watch_cases", "multi_step_cases", "reused_policy_evaluations",
                          "reused_on_reordered_lists")}
    orcs = {}
    for i, (case, res) in enumerate(zip(cases, impl)):
        g = F(case["mdp"]["gamma"])
        und = g >= 1
        pre = "C02:%s:%s" % ("undisc" if und else "disc", "rounded-policy-row:" if case["policy"]["nondyadic"] else "")
        if "error" in res:
            ctx.violation(pre + "impl-error:" + res["error"].split(":")[0], {"case": case, "error": res["error"], "trace": res.get("trace")}, found=True)
            continue
        if case.get("expect_error"):
            cnt["error_path_cases"] += 1
            # inputs outside the property's quantifier: the property does not fix the exception TYPE; the probe only
            # requires that such an input is rejected (any exception) instead of being silently evaluated
            if res.get("raised") is None:
                ctx.violation("C02:error-path:%s:silently-evaluated" % case["error_kind"],
                              {"case": case, "raised": None, "usual_exception": case["expect_error"]}, found=True)
            cnt["error_path_exception_types"] = sorted(set(cnt.get("error_path_exception_types") or []) | {str(res.get("raised"))})
            continue
        evs = res.get("evals") or [res]
        if res.get("first_result_changed"):
            ctx.violation(pre + "first-result-changed-after-later-evaluations", {"case": case}, found=True)
        cnt["first_result_reread_after_later_calls"] += int(len(evs) > 1)
        for k, ev in enumerate(evs):
            # every evaluation of the (same) policy object is judged on its own: the MDP arrays and the
            # model's policy matrix are built in the index order of the MDP it was evaluated on
            r = dict(res)
            r.pop("evals", None)
            r.update(ev)
            mspec = ev.get("mdp") or case["mdp"]          # a later step may be a different problem
            g = F(mspec["gamma"])
            und = g >= 1
            pre = "C02:%s:%s" % ("undisc" if und else "disc", "rounded-policy-row:" if case["policy"]["nondyadic"] else "")
            step_kind = "" if k == 0 else ("second-policy-on-used-mdp:" if "pol" in ev else
                                           "reused-policy-on-other-mdp:" if "mdp" in ev else "reused-policy-object:")
            prek = pre + step_kind
            if ev.get("mutated"):
                ctx.violation("C02:caller-object-mutated:" + "+".join(ev["mutated"]), {"case": case, "step": k, "mutated": ev["mutated"]}, found=True)
            if "error" in ev:
                ctx.violation(prek + "impl-error:" + ev["error"].split(":")[0], {"case": case, "step": k, "error": ev["error"]}, found=True)
                continue
            sl, al = r["state_list"], r["action_list"]
            P, R, av, absf, ini = gen_mdp.arrays(mspec, sl, al)
            pterm, pi, table, psl_ids, pal_ids = policy_views(case, r)
            if pterm is None:
                ctx.violation(prek + "policy-table-lists-differ-from-mdp", {"case": case, "step": k, "psl": r["psl"], "pal": r["pal"]}, found=True)
                break
            # harness <-> impl agreement on the plumbing (cheap, exact)
            if psl_ids != r["psl"] or pal_ids != r["pal"]:
                ctx.violation("C02:harness-lists-mismatch", {"case": case, "step": k, "impl": r}, found=False)
                break
            form = (r.get("pol") or case["policy"])["form"]
            if (k == 0 or "pol" in ev) and table is not None and (
                    r.get("policy_type") != "TabularPolicy" or [[float(vlib.frac(x)) for x in rr] for rr in r["table"]] != table):
                ctx.violation(pre + ("from_dict" if form == "dict" else "to_tabular") + "-table-differs",
                              {"case": case, "step": k, "impl_table": r["table"], "expected": table}, found=True)
                break
            cnt["form_" + form] += int(k == 0 or "pol" in ev)
            if k == 0:
                cnt["undiscounted" if und else "discounted"] += 1
                cnt["gamma_near_one_cases"] += int(case.get("family") == "gamma-near-one")
                cnt["corridor_cases"] += int(case.get("family") == "corridor")
                cnt["softmax_watch_cases"] += int(case.get("family") == "softmax-watch")
                cnt["int_typed_absorbing_flag_cases"] += int(case.get("flag_type") in ("int", "np.int64") and any(case["mdp"]["absorbing"]))
                cnt["from_matrices_cases"] += int(case.get("mdp_form") == "matrices")
                cnt["from_matrices_int_flag_cases"] += int(case.get("mdp_form") == "matrices" and case.get("flag_type") in ("int", "np.int64"))
                cnt["decisive_tiny_probability_cases"] += int(case.get("family") == "decisive-tiny-probability")
                cnt["long_path_cases"] += int(longest_shortest_path(pi, P, absorbing_vec(P, R, av, absf)) >= 5)
                cnt["rounding_watch_cases"] += int(case.get("family") == "rounding-watch")
                cnt["nondyadic"] += int(case["policy"]["nondyadic"])
                cnt["explicit_lists"] += int(case["explicit_lists"])
                cnt["policy_on_larger_state_list"] += int(len(psl_ids) > len(sl))
                cnt["permuted_lists"] += int(psl_ids[:len(sl)] != sl or pal_ids != al)
                cnt["stochastic_policy_rows"] += int(any(0 < x < 1 for rr in pi for x in rr))
                cnt["zero_prob_entries"] += int(any(F(p) == 0 for rr in case["policy"]["rows"].values() for a, p in rr))
                cnt["neginf_cases"] += int("-inf" in r["V"])
                cnt["mixed_finite_and_neginf"] += int("-inf" in r["V"] and any(not isinstance(v, str) and vlib.frac(v) != 0 for v in r["V"]))
                cnt["occinf_cases"] += int("inf" in r["occ"])
                ab = absorbing_vec(P, R, av, absf)
                if any(ab[s] and not isinstance(x, str) and vlib.frac(x) != 0 for s in range(len(sl)) for x in r["Q"][s]):
                    cnt["q_absorbing_nonzero_cases"] += 1     # non-gating observation (coordinator's decision)
                cnt["multi_step_cases"] += int(len(evs) > 1)
                lab = case.get("labels") or {}
                cnt["relabelled_cases"] += int(bool(lab.get("s") or lab.get("a")))
                cnt["falsy_label_cases"] += int(lab.get("s") in ("tuple", "falsystr", "float") or lab.get("a") in ("tuple", "falsystr", "float"))
                cnt["unsortable_label_cases"] += int("unsortable" in (lab.get("s"), lab.get("a")))
                cnt["gamma_zero_cases"] += int(g == 0)
                cnt["gamma_as_int_cases"] += int(bool(case.get("gamma_as_int")))
                cnt["large_reward_cases"] += int(any(abs(F(x)) >= 1000 for x in case["mdp"]["reward"].values()))
                cnt["tiny_probability_cases"] += int(any(0 < F(p) < F(1, 10**5) for rr in case["policy"]["rows"].values() for a, p in rr)
                                                     or any(0 < F(p) < F(1, 10**5) for x, p in case["mdp"]["init"]))
                cnt["tiny_negative_reward_cases"] += int(any(-F(1, 10**6) < F(x) < 0 for x in case["mdp"]["reward"].values()))
                # rarely taken paths of the undiscounted branch: 0 * -inf -> nan -> 0 in Q and in the initial value
                if und and "-inf" in r["V"]:
                    cnt["nan_to_zero_in_q_cases"] += int(any(av[s_][a_] and any(P[s_][a_][z] == 0 and r["V"][z] == "-inf" for z in range(len(sl)))
                                                             for s_ in range(len(sl)) for a_ in range(len(al))))
                    cnt["nan_to_zero_in_initial_value_cases"] += int(any(ini[z] == 0 and r["V"][z] == "-inf" for z in range(len(sl))))
                cnt["all_absorbing_cases"] += int(all(ab))
                cnt["nondyadic_mdp_cases"] += int(bool(case.get("nondyadic_mdp")))
                cnt["shared_mutable_object_cases"] += int(bool(case.get("shared_objects")))
                cnt["int_typed_input_cases"] += int(bool(case.get("int_inputs")))
                cnt["int_or_float32_policy_table_cases"] += int(bool(case["policy"].get("dtype")) and case["policy"]["form"] in ("tab", "tab_lists"))
                cnt["n_states_equals_n_actions_cases"] += int(len(sl) == len(al))
                cnt["single_action_cases"] += int(len(al) == 1)
                if case.get("decisive_where"):
                    cnt["decisive_tiny_" + case["decisive_where"].replace("-", "_")] += 1
                cnt["single_state_cases"] += int(len(sl) == 1)
            else:
                if ev is evs[-1] and case.get("reuse") and case["reuse"][-1] == "fresh":
                    cnt["fresh_reconstruction_steps"] += 1
                if "mdp" in ev:
                    cnt["reused_policy_on_other_mdp"] += 1
                    cnt["reused_policy_on_other_mdp_of_other_size"] += int(len(sl) != len(evs[0]["state_list"]))
                elif "pol" in ev:
                    cnt["second_policy_on_used_mdp"] += 1
                else:
                    cnt["reused_policy_evaluations"] += 1
                    cnt["reused_on_reordered_lists"] += int(sl != evs[0]["state_list"] or al != evs[0]["action_list"])
            mt = " ".join([nat(len(sl)), nat(len(al)), qten(P), qten(R), bmat(av), blist(absf), qlist(ini), q(g)])
            out = " ".join([coqlist(ext(x) for x in r["V"]), coqlist(coqlist(ext(x) for x in rr) for rr in r["Q"]),
                            coqlist(ext(x) for x in r["occ"]), ext(r["initial_value"])])
            orc = oracle(P, R, av, absf, ini, g, pi)
            orcs[(i, k)] = (orc, prek, r, g)
            tau = ""
            if und:
                tau = " " + qlist(orc["tau"] if orc and orc.get("tau") else [0] * len(sl))
            terms.append("%s %s %s %s %s%s" % ("chku" if und else "chkd", mt, pterm, out, tol_term(r, g, orc), tau))
            meta.append((i, k))
    vals = ctx.coq(PRE, terms, shard=25 if tier == "quick" else 100)
    nchk = 0
    distinct = set()
    for (i, k), v in zip(meta, vals):
        case = cases[i]
        orc, pre, res, g = orcs[(i, k)]
        und = g >= 1
        if isinstance(v, vlib.CoqError):
            ctx.violation("C02:coq-evaluation-failed", {"case": case, "step": k, "error": str(v)[:800]}, found=False)
            continue
        nchk += 1
        if k == 0 and any(not a for a in absorbing_vec(*gen_mdp.arrays(case["mdp"], res["state_list"], res["action_list"])[:4])):
            distinct.add(vlib.structural_hash([case["mdp"], case["policy"]]))
        names = CL_UNDISC if und else CL_DISC
        if und:
            if isinstance(v, tuple) and len(v) == 2:
                v, tau_ok = v
            else:
                v, tau_ok = None, False
            if tau_ok:
                cnt["tau_certificates_accepted"] += 1
            else:
                ctx.violation("C02:undisc:absorption-time-certificate-rejected",
                              {"case": case, "step": k, "impl": res, "tau": [str(x) for x in (orc or {}).get("tau") or []],
                               "correspondence": "model/PolicyEval.v:c02_tau rejects the harness' exact solution of tau = 1 + P_t tau (hypothesis of C02_undisc_expected_total_reward)"},
                              found=False)
        failed = [c for c, okv in zip(names, v) if not okv] if isinstance(v, list) and len(v) == len(names) else ["malformed"]
        why = compare(res, orc, g) if orc is not None else None
        if orc is not None and why is None:
            # measured accuracy of msdm's numbers in units of u * kappa * scale (u = 2^-53; kappa = 1/(1-gamma), resp. max tau)
            kap = (1 / (1 - g)) if not und else max([F(1)] + [abs(x) for x in (orc.get("tau") or [])])
            fvs = [(fin(x), y) for x, y in zip(res["V"], orc["V"]) if y is not None and fin(x) is not None]
            scale = max([F(1)] + [abs(y) for _, y in fvs])
            if fvs:
                e = max(abs(x - y) for x, y in fvs) / (scale * kap) * 2 ** 53
                cnt["max_value_error_in_u_kappa"] = max(cnt.get("max_value_error_in_u_kappa", 0), float(e))
        detail = {"case": case, "step": k, "impl": res, "failed_clauses": failed}
        if why:
            detail["failing_clause"] = why
            if orc and und:
                detail["oracle_classes"] = {"closed": orc["closed"], "neginf": orc["neginf"]}
            ctx.violation(pre + why["what"] + ":" + why["clause"], detail, found=True)
        elif failed:
            detail["correspondence"] = "model/PolicyEval.v certificate checker (theorems props/C02.v) rejects the implementation's output; the exact oracle found no failing clause"
            ctx.violation(pre + "certificate-rejects:" + "+".join(failed), detail, found=False)
        else:
            cnt["oracle_agree"] += int(orc is not None)
    ctx.coverage.update({
        "evaluations": nchk,
        "distinct_nontrivial": len(distinct),
        "rule": "MDPs from harness/gen_mdp.py (1..%d states, 1..3 actions, state-dependent action sets, k/8 probabilities, zero entries, explicit/implicit absorbing states with ignored self-loop rewards, multi-state initial distributions; 55%% discounted gamma in {1/2,3/4,7/8,9/10,19/20} plus a family with gamma in {1-2^-20, 1-10^-6, 1-10^-8} and a closed non-absorbing rewarding class (values ~1e6..1e8), 45%% undiscounted with rewards <= 0, proper and improper, zero-reward regions; plus path-shaped undiscounted chains of 6..10 states whose only route to a closed class has n-2..n-1 steps, and cases where an action probability of 2^-27..2^-60 decides the answer) x random stochastic policies (deterministic rows, rows on the grid k/8 over subsets of the available actions, explicit zero entries, a share on denominators 3,5,6,7,10), given as TabularPolicy over permuted / larger state lists and permuted action lists or as FunctionalPolicy -> to_tabular; 35%% of the cases are multi-step: the same policy object is evaluated again on 1-2 MDPs with the same dynamics and re-ordered state/action lists and/or again on the first MDP, every evaluation judged separately; distinct = structural hash of (MDP, policy); non-trivial = at least one non-absorbing state" % (5 if tier == "quick" else 7),
        "samples": [{"case": cases[0], "impl": impl[0]}] if cases else [],
        "cases": len(cases),
        **cnt,
    })
