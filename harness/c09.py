"""C09 — finite-state-controller values equal the return of executing the controller.

Correspondence (model/FSC.v, theorems props/C09.v):
  eval cases   generated POMDP x generated stochastic controller (rows on k/8)
               -> stochastic_fsc_policy_evaluation_exact          vs  c09_eval_check (certificate: residual of the
                  returned table against the absorbing-masked system = run semantics; theorem main_eval_return)
                  and the exact k-step return table ret_tab (fsc_return) with its proved tail bound
               -> StochasticFiniteStateController driven as run_on drives it, on ALL action/observation
                  histories of length 1..3                        vs  hist_prob_impl (mirror) and hist_prob_spec
                  (latent-node semantics); exact rational arithmetic on both sides
               -> a few run_on executions                          vs  the episode convention the model assumes
  bpi / ga     learners on generated POMDPs: returned controller rows valid, reported value = init.V.s0,
               V = evaluation of the RETURNED controller (c09_learn_check, theorem main_learn); for BPI every
               recorded value table in order is monotone node by node (mono_chain, main_mono) and every
               accepted node replacement satisfies the LP constraint with eps >= 0 (bpi_node_feasible)
"""
from fractions import Fraction as F
import vlib
from vlib import q, qlist, qmat, qten, nat, blist, coqlist

INFO = {
    "level": "proof",
    "coq_files": ["model/FSC.v", "theory/FSCTransfer.v"],
    "trusted_base": [
        "model/FSC.v checkers are evaluated on Q (NumQ); theorems are on R; tied by paramcoq transfer (theory/FSCTransfer.v)",
        "generated parameters (gamma, probabilities, rewards, controller rows) reach the model exactly and msdm as nearest doubles (k/8 rows are exact doubles)",
        "harness/impl/c09_impl.py builds the TabularPOMDP through the public abstract interface and wraps the evaluator name inside msdm.algorithms.fscboundedpolicyiteration only to record its inputs/outputs",
        "python-side conformance of run_on trajectories to the episode convention (stop on entering an absorbing state, entering step paid) is not a Coq-checked step",
    ],
    "assumptions": ["state/action/observation index order of the model = msdm's state_list/action_list/observation_list (checked to be 0..n-1 on every case)"],
}

PRE = """From Coq Require Import QArith List Bool.
From MSDM Require Import base.Num base.NumInst model.FSC.
Import ListNotations.
Local Open Scope Q_scope.
Definition mkp nS nA nO T O R ab s0 g := @mk_pomdp Q NumQ nS nA nO T O R ab s0 g.
Definition mkf N pi om ini := @mk_fsc Q NumQ N pi om ini.
(* rationals are printed as (numerator, denominator): Coq prints some Q values in hexadecimal *)
Definition qp (x : Q) := (Z.ltb (Qnum x) 0, Z.abs_N (Qnum x), Npos (Qden x)).
Definition ev (p : pomdp Q) (f : fsc Q) V rep tol vtol M (k : nat) :=
  (c09_eval_check p f V rep tol vtol M, map (map qp) (ret_tab p f (pabs p) k)).
Definition hp (t : list Q * list Q) := (map qp (fst t), map qp (snd t)).
Definition hi (p : pomdp Q) (f : fsc Q) (L : nat) :=
  (map (fun k => hp (c09_hist_tables (pA p) (pO p) f k)) (seq 1 L), shared_rows p f, det_ctrl p f).
Definition lc (p : pomdp Q) (f : fsc Q) V rep rtol kpi kom tol vtol :=
  c09_learn_check p f V rep rtol kpi kom tol vtol.
Definition mc (tol : Q) (S : nat) (l : list (list (list Q))) := @mono_chain Q NumQ tol S l.
Definition stp (p : pomdp Q) (f : fsc Q) tol (V : list (list Q)) (n : nat) eps :=
  bpi_node_feasible p f (pabs p) tol (untab2 V) n eps.
"""

EVAL_CLAUSES = ["pomdp_wfb", "fsc_wfb", "abs_benign", "system_masked", "system_code", "vbound", "value_ok"]
LEARN_CLAUSES = ["pomdp_wfb", "rows_valid", "bounded", "contraction", "abs_benign", "system_masked", "system_code", "value_ok"]
GAMMAS = ["1/2", "3/4", "9/10"]
GAMMA_NEAR1 = "1048575/1048576"     # 1 - 2^-20
KSTEPS = {"1/2": 16, "3/4": 20, "9/10": 20, "0": 2, GAMMA_NEAR1: 10, "19/20": 6, "1/3": 6, "7/10": 6}   # exact rationals grow with k: keep each term ~1 s
# non-dyadic rows: float row sums are not exactly 1.0 (thirds, tenths, sevenths, ten tenths are never on the k/8 grid)
NONDYADIC_ROWS = {
    1: [["1"]],
    2: [["1/3", "2/3"], ["1/10", "9/10"], ["3/7", "4/7"], ["7/10", "3/10"]],
    3: [["1/3", "1/3", "1/3"], ["7/10", "1/5", "1/10"], ["1/7", "2/7", "4/7"], ["1/10", "1/5", "7/10"]],
    4: [["1/10", "1/5", "3/10", "2/5"], ["1/3", "1/3", "1/6", "1/6"], ["1/7", "2/7", "3/7", "1/7"]],
}
LABEL_POOLS = {
    "int": [0, 1, 2, 3, 4, 5, 6],                       # 0 is a label; assigned in random (non-sorted) order
    "str": ["", "a", "B", "c1", "zz", "A b", "0"],      # "" is a label; upper/lower case sort apart
    "tuple": [[], [0], [0, 0], [1], [1, 0], [2, 5]],    # () is a label
    "boolint": [False, True, 2, 3],                     # False is a label
}


# ----------------------------------------------------------------------------
# generators
# ----------------------------------------------------------------------------
def _split(rng, k, denom=8):
    cuts = sorted(rng.sample(range(1, denom), k - 1)) if k > 1 else []
    return [F(b - a, denom) for a, b in zip([0] + cuts, cuts + [denom])]


def _row(rng, n, kmax=3, support=None):
    """distribution over range(n) on the grid k/8 with a random support of size <= kmax"""
    if support is None:
        k = rng.randint(1, min(kmax, n))
        support = rng.sample(range(n), k)
    ps = _split(rng, len(support))
    row = [F(0)] * n
    for i, p in zip(support, ps):
        row[i] = p
    return row


def _reachable(nS, nA, T, absorbing, s0):
    """MarkovDecisionProcess.reachable_states: initial states are expanded, absorbing successors are not"""
    seen = {s for s in range(nS) if s0[s] > 0}
    frontier = list(seen)
    while frontier:
        s = frontier.pop()
        for a in range(nA):
            for t in range(nS):
                if T[s][a][t] > 0:
                    if t not in seen and not absorbing[t]:
                        frontier.append(t)
                    seen.add(t)
    return seen


def _row_on(rng, n, allowed, kmax=3):
    """distribution over range(n) on the grid k/8 supported inside `allowed`"""
    k = rng.randint(1, min(kmax, len(allowed)))
    return _row(rng, n, support=rng.sample(list(allowed), k))


def _tiny_row(rng, n, allowed):
    """probabilities 2^-30 / 2^-20 / 1 - (...) : exact doubles next to the boundaries 0 and 1"""
    sup = rng.sample(list(allowed), min(len(allowed), rng.randint(2, 3)))
    if len(sup) < 2:
        return _row(rng, n, support=sup)
    # 2^-27 .. 2^-50: all below np.isclose's default atol 1e-8; the complement 1 - 2^-e is still an exact double
    ps = [F(1, 2 ** rng.choice([27, 30, 40, 50]))] + ([F(1, 2 ** 20)] if len(sup) == 3 else [])
    ps.append(1 - sum(ps))
    rng.shuffle(ps)
    row = [F(0)] * n
    for i, p in zip(sup, ps):
        row[i] = p
    return row


def _nd_row(rng, n, allowed=None):
    """non-dyadic distribution over range(n) (support inside allowed)"""
    allowed = list(range(n)) if allowed is None else list(allowed)
    k = rng.randint(1, min(4, len(allowed)))
    vals = [F(x) for x in rng.choice(NONDYADIC_ROWS[k])]
    rng.shuffle(vals)
    row = [F(0)] * n
    for i, p in zip(rng.sample(allowed, k), vals):
        row[i] = p
    return row


def gen_labels(rng, nS, nA, nO, kinds=None):
    """labels for generator indices (None = the index itself)"""
    out = {}
    for key, n in (("s", nS), ("a", nA), ("o", nO)):
        kind = (kinds or {}).get(key) or rng.choice(["int", "str", "tuple", "boolint"])
        pool = list(LABEL_POOLS[kind])
        if n > len(pool):
            kind, pool = "int", list(LABEL_POOLS["int"])
        # keep the falsy label (0, "", (), False) in most of the time
        lab = [pool[0]] + rng.sample(pool[1:], n - 1) if rng.random() < .8 else rng.sample(pool, n)
        rng.shuffle(lab)
        out[key] = lab
    return out


def gen_pomdp(rng, abs_kind=None, smax=4, amax=3, omax=3, smin=1, amin=1, omin=1, unreach=False,
              extremes=False, labels=False, near1=False, dense=False, nondyadic=False):
    """unreach: the POMDP is given to msdm with EXPLICIT _state_list/_action_list and has at least one state
    that cannot be reached from the initial distribution (with real dynamics and rewards of its own): the
    evaluator's table is checked at every (node, state) pair, reachable or not"""
    if abs_kind is None:
        abs_kind = rng.choice(["none", "none", "benign", "paying", "paying", "paying"])
    for attempt in range(200):
        nS = rng.randint(max(smin, 2 if (abs_kind != "none" or unreach) else 1), smax)
        live_set = list(range(nS))
        if unreach:
            U = rng.sample(range(nS), rng.randint(1, nS - 1))
            live_set = [x for x in range(nS) if x not in U]
        nA = rng.randint(amin, amax)
        nO = rng.randint(omin, omax)
        absorbing = [False] * nS
        if abs_kind != "none":
            for s in rng.sample(range(nS), rng.randint(1, max(1, nS // 2))):
                absorbing[s] = True
            if all(absorbing):
                absorbing[rng.randrange(nS)] = False
        T = [[None] * nA for _ in range(nS)]
        Rw = [[[F(0)] * nS for _ in range(nA)] for _ in range(nS)]
        for s in range(nS):
            paying_selfloop = absorbing[s] and abs_kind == "paying" and rng.random() < .6
            for a in range(nA):
                if absorbing[s] and (abs_kind == "benign" or paying_selfloop):
                    T[s][a] = [F(int(t == s)) for t in range(nS)]
                    if paying_selfloop:
                        Rw[s][a][s] = F(rng.choice([-4, -3, -2, -1, 1, 2, 3, 4]))
                    continue
                allowed = live_set if (unreach and s in live_set) else list(range(nS))
                if dense == "sparse":   # nearly deterministic dynamics: 1-2 successors
                    T[s][a] = _row_on(rng, nS, allowed, kmax=2)
                elif dense:    # every transition row spreads over several states: the next state differs from the current one
                    T[s][a] = _row(rng, nS, support=rng.sample(list(allowed), min(3, len(allowed))))
                else:
                    T[s][a] = (_nd_row(rng, nS, allowed) if nondyadic else
                               _tiny_row(rng, nS, allowed) if (extremes and rng.random() < .4) else _row_on(rng, nS, allowed))
                for t in range(nS):
                    if T[s][a][t] > 0 and rng.random() < .8:
                        Rw[s][a][t] = F(rng.randint(-16, 16), 4) if rng.random() < .3 else F(rng.randint(-4, 4))
                        if nondyadic and rng.random() < .5:
                            Rw[s][a][t] = rng.choice([F(1, 3), F(1, 10), F(-7, 3), F(22, 7), F(-1, 10)])
                    if extremes and 0 < T[s][a][t] < F(1, 10 ** 8) and rng.random() < .5:
                        # the tiny branch carries a reward ~ 1/p: it decides the value
                        Rw[s][a][t] = rng.choice([-1, 1]) * F(2 ** 27)
            if absorbing[s] and abs_kind == "paying" and not paying_selfloop:
                # make sure the terminal state really is non-benign
                if all(Rw[s][a][t] == 0 for a in range(nA) for t in range(nS)) and all(T[s][a][s] == 1 for a in range(nA)):
                    Rw[s][0][s] = F(2)
        Ob = [[(_nd_row(rng, nO) if nondyadic else _tiny_row(rng, nO, range(nO)) if (extremes and rng.random() < .3) else _row(rng, nO))
               for _ in range(nS)] for _ in range(nA)]
        if dense:
            # informative observations: every observation possible everywhere, rows differ between next states
            def peaked(t):
                hi = rng.choice([h for h in (F(3, 4), F(7, 8), F(5, 8)) if (1 - h) * 8 >= nO - 1])
                rest = [p * (1 - hi) for p in _split(rng, nO - 1, denom=int((1 - hi) * 8))] if nO > 2 else [1 - hi]
                row = [F(0)] * nO
                others = [o for o in range(nO) if o != t % nO]
                row[t % nO] = hi
                for o, p in zip(others, rest):
                    row[o] = p
                return row
            def sparse(t):      # deterministic / sparse observations: some observation has probability exactly 0
                return [F(int(o == t % nO)) for o in range(nO)] if rng.random() < .6 else _row(rng, nO, kmax=max(1, nO - 1))
            for _ in range(20):
                if dense == "sparse":
                    Ob = [[sparse(t) for t in range(nS)] for _ in range(nA)]
                else:
                    Ob = [[(peaked(t) if rng.random() < .7 else _row(rng, nO, support=list(range(nO)))) for t in range(nS)] for _ in range(nA)]
                if all(len({tuple(Ob[a][t]) for t in range(nS)}) >= min(nS, 2) for a in range(nA)) or nO == 1:
                    break
        if extremes:
            scale = rng.choice([1, 1000, 10 ** 6])        # large reward magnitudes
            Rw = [[[x * scale for x in row] for row in sa] for sa in Rw]
        s0 = _row_on(rng, nS, live_set) if unreach else _row(rng, nS)
        if nondyadic:
            s0 = _nd_row(rng, nS, live_set)
        elif extremes and rng.random() < .5 and len(live_set) >= 2:
            s0 = _tiny_row(rng, nS, live_set)        # an initial state with probability 2^-27 .. 2^-50
        if unreach:
            if _reachable(nS, nA, T, absorbing, s0) == set(range(nS)):
                continue
        elif _reachable(nS, nA, T, absorbing, s0) != set(range(nS)):
            if attempt < 150:
                continue
            s0 = _row(rng, nS, support=list(range(nS)))
        used = sorted({o for a in range(nA) for t in range(nS) for o in range(nO) if Ob[a][t][o] > 0})
        if len(used) != nO:    # observation_list only lists observations that can occur
            Ob = [[[Ob[a][t][o] for o in used] for t in range(nS)] for a in range(nA)]
            nO = len(used)
        gamma = rng.choice(GAMMAS)
        if extremes:
            gamma = rng.choice(["0", "0", GAMMA_NEAR1 if near1 else "9/10", "1/2"])
        if nondyadic:
            gamma = rng.choice(["9/10", "19/20", "1/3", "7/10"])
        st = lambda x: [st(y) for y in x] if isinstance(x, list) else str(x)
        return {"nS": nS, "nA": nA, "nO": nO, "T": st(T), "Rw": st(Rw), "Ob": st(Ob),
                "absorbing": absorbing, "s0": st(s0), "gamma": gamma, "abs_kind": abs_kind,
                "explicit_lists": bool(unreach), "extremes": bool(extremes or nondyadic), "nondyadic": bool(nondyadic),
                "shared_objects": rng.random() < .5, "int_rewards": rng.random() < .3, "gamma_int": bool(extremes and gamma == "0" and rng.random() < .5),
                "labels": gen_labels(rng, nS, nA, nO) if labels else None,
                "unreachable": sorted(set(range(nS)) - _reachable(nS, nA, T, absorbing, s0))}
    raise RuntimeError("gen_pomdp: no case")


def gen_fsc(rng, nA, nO, style=None, nmax=3, om3=False, N=None):
    """om3: the node-transition strategy does not depend on the action; the case then also carries the
    3-d array p(n'|n,o) ("om3"), which is what the evaluator is given (its second accepted input form);
    "om" is always the 4-d p(n'|n,a,o) the model and the controller object use"""
    if style is None:
        style = rng.choice(["generic", "generic", "generic", "onehot_init", "shared", "det"])
    N = N if N is not None else rng.randint(2 if style in ("generic", "onehot_init") and rng.random() < .8 else 1, nmax)
    onehot = lambda i, n: [F(int(j == i)) for j in range(n)]
    def tiny_pi_row():
        # an action (or node) weight of 2^-27 .. 2^-40: far below 1e-8, yet a history through it has positive probability
        if nA < 2:
            return _row(rng, nA)
        e = rng.choice([27, 30, 40])
        sup = rng.sample(range(nA), 2)
        row = [F(0)] * nA
        row[sup[0]], row[sup[1]] = F(1, 2 ** e), 1 - F(1, 2 ** e)
        return row
    if style == "shared":
        r = _row(rng, nA)
        pi = [list(r) for _ in range(N)]
    elif style == "tiny":
        pi = [(tiny_pi_row() if rng.random() < .7 else _row(rng, nA)) for _ in range(N)]
    elif style == "nondyadic":
        pi = [_nd_row(rng, nA) for _ in range(N)]
    else:
        pi = [_row(rng, nA) for _ in range(N)]
    o3 = None
    if om3:
        o3 = [[(onehot(rng.randrange(N), N) if style == "det" else _row(rng, N)) for _ in range(nO)] for _ in range(N)]
        om = [[[list(o3[n][o]) for o in range(nO)] for _ in range(nA)] for n in range(N)]
    elif style == "det":
        om = [[[onehot(rng.randrange(N), N) for _ in range(nO)] for _ in range(nA)] for _ in range(N)]
    elif style == "nondyadic":
        om = [[[_nd_row(rng, N) for _ in range(nO)] for _ in range(nA)] for _ in range(N)]
    else:
        om = [[[_row(rng, N) for _ in range(nO)] for _ in range(nA)] for _ in range(N)]
    if style == "nondyadic":
        init = _nd_row(rng, N)
    elif style == "tiny" and N >= 2 and rng.random() < .5:
        e = rng.choice([27, 30, 40])
        sup = rng.sample(range(N), 2)
        init = [F(0)] * N
        init[sup[0]], init[sup[1]] = F(1, 2 ** e), 1 - F(1, 2 ** e)
    elif style in ("det", "onehot_init"):
        init = onehot(rng.randrange(N), N)
    else:
        init = _row(rng, N, support=rng.sample(range(N), min(N, rng.randint(2, 3))))   # non-degenerate when N >= 2
    st = lambda x: [st(y) for y in x] if isinstance(x, list) else str(x)
    out = {"N": N, "pi": st(pi), "om": st(om), "init": st(init), "style": style}
    if o3 is not None:
        out["om3"] = st(o3)
    return out


# ----------------------------------------------------------------------------
# exact model data / oracle
# ----------------------------------------------------------------------------
def fr(x):
    return [fr(y) for y in x] if isinstance(x, list) else vlib.frac(x)


def pomdp_arrays(c):
    T, Rw, Ob = fr(c["T"]), fr(c["Rw"]), fr(c["Ob"])
    nS, nA = c["nS"], c["nA"]
    R = [[sum(T[s][a][t] * Rw[s][a][t] for t in range(nS)) for a in range(nA)] for s in range(nS)]
    return T, Ob, R, fr(c["s0"]), F(c["gamma"])


def pomdp_term(c):
    T, Ob, R, s0, g = pomdp_arrays(c)
    return "(mkp %s %s %s %s %s %s %s %s %s)" % (nat(c["nS"]), nat(c["nA"]), nat(c["nO"]), qten(T), qten(Ob), qmat(R),
                                                  blist(c["absorbing"]), qlist(s0), q(g))


def fsc_term(N, pi, om, init):
    return "(mkf %s %s %s %s)" % (nat(N), qmat(pi), coqlist(qten(x) for x in om), qlist(init))


def solve_linear(A, b):
    n = len(A)
    M = [row[:] + [b[i]] for i, row in enumerate(A)]
    for c in range(n):
        piv = next((r for r in range(c, n) if M[r][c] != 0), None)
        if piv is None:
            return None
        M[c], M[piv] = M[piv], M[c]
        pv = M[c][c]
        M[c] = [x / pv for x in M[c]]
        for r in range(n):
            if r != c and M[r][c] != 0:
                f = M[r][c]
                M[r] = [x - f * y for x, y in zip(M[r], M[c])]
    return [M[i][n] for i in range(n)]


def exact_value(pc, N, pi, om, masked=True):
    """exact solution of V = Cmu + gamma Tmu V (absorbing rows zero when masked), Fractions"""
    T, Ob, R, s0, g = pomdp_arrays(pc)
    nS, nA, nO = pc["nS"], pc["nA"], pc["nO"]
    ab = pc["absorbing"] if masked else [False] * nS
    idx = [(n, s) for n in range(N) for s in range(nS)]
    pos = {ns: i for i, ns in enumerate(idx)}
    A = [[F(0)] * len(idx) for _ in idx]
    b = [F(0)] * len(idx)
    for (n, s), i in pos.items():
        A[i][i] += 1
        if ab[s]:
            continue
        b[i] = sum(pi[n][a] * R[s][a] for a in range(nA))
        for m in range(N):
            for t in range(nS):
                w = sum(pi[n][a] * T[s][a][t] * Ob[a][t][o] * om[n][a][o][m] for a in range(nA) for o in range(nO))
                A[i][pos[(m, t)]] -= g * w
    x = solve_linear(A, b)
    if x is None:
        return None
    return [[x[pos[(n, s)]] for s in range(nS)] for n in range(N)]


def unq(t):
    """(negative?, |numerator|, denominator) as printed by qp"""
    neg, n, d = t
    return F(-n if neg else n, d)


def is_num(x):
    return not isinstance(x, str) and x is not None


def all_num(x):
    return all(all_num(y) for y in x) if isinstance(x, list) and not (len(x) == 2 and all(isinstance(v, int) for v in x)) else is_num(x)


def scale_of(V):
    return max([F(1)] + [abs(vlib.frac(v)) for row in V for v in row])


# ----------------------------------------------------------------------------
# case generation
# ----------------------------------------------------------------------------
def _same_shape_pomdp(rng, pc, **kw):
    """another POMDP with the same sizes / labels / list form but different numbers (object-reuse cases)"""
    for _ in range(30):
        p2 = gen_pomdp(rng, smin=pc["nS"], smax=pc["nS"], amin=pc["nA"], amax=pc["nA"], omin=pc["nO"], omax=pc["nO"], **kw)
        if p2["nO"] == pc["nO"]:
            p2["labels"] = pc.get("labels")
            return p2
    return None


def gen_cases(rng, tier):
    cases = []
    n_eval = 36 if tier == "quick" else 600
    for i in range(n_eval):
        # input forms of stochastic_fsc_policy_evaluation_exact: node transitions 4-d p(n'|n,a,o) or 3-d p(n'|n,o)
        # (broadcast over actions by the code; needs >= 2 actions and >= 2 observations to be told apart from a
        # scrambled broadcast), with / without fsc_initial_state (always both), dtype float64 / float32;
        # POMDP forms: inferred lists / explicit lists with unreachable states; index labels / int, str, tuple, bool
        # labels in non-sorted order (falsy labels included); parameter extremes (discount 0 as float or int,
        # discount 1-2^-20, probabilities 2^-30 and 1-2^-20.., rewards x1e3 / x1e6); bundled domains
        form3 = i % 3 == 0
        f32 = i % 6 in (3, 4)
        labels = i % 2 == 1
        extremes = i % 5 == 2
        if i % 18 == 17:
            pc = dict(DOMAINS["tiger" if (i // 18) % 2 == 0 else "heavenorhell"])
            fc = gen_fsc(rng, pc["shape"][0], pc["shape"][2], nmax=2)
            cases.append({"kind": "eval", "pomdp": pc, "fsc": fc, "hist_len": 2, "runs": 4, "run_seed": rng.randrange(10 ** 6), "max_steps": 6,
                          "om_form": "4d", "eval_dtype": "float64"})
            continue
        if i % 9 == 4:
            # controller rows / initial node weights of 2^-27 .. 2^-40 (k/8 elsewhere: the object's arithmetic stays exact)
            pc = gen_pomdp(rng, amin=2, labels=labels, extremes=extremes, near1=not f32)
            fc = gen_fsc(rng, pc["nA"], pc["nO"], style="tiny")
        elif i % 9 == 7:
            # non-dyadic numbers everywhere (thirds, tenths, sevenths): float rows do not sum to exactly 1.0
            pc = gen_pomdp(rng, labels=labels, nondyadic=True)
            fc = gen_fsc(rng, pc["nA"], pc["nO"], style="nondyadic")
        elif form3:
            pc = gen_pomdp(rng, amin=2, omin=2, smin=2, labels=labels, extremes=extremes, near1=not f32)
            fc = gen_fsc(rng, pc["nA"], pc["nO"], om3=True, style=rng.choice(["generic", "generic", "onehot_init", "det"]))
            if fc["N"] == 1:      # one node: every broadcast is the same
                fc = gen_fsc(rng, pc["nA"], pc["nO"], om3=True, style="generic")
        elif i % 4 == 1:
            # explicit state list with states unreachable from the initial distribution
            pc = gen_pomdp(rng, unreach=True, labels=labels, extremes=extremes, near1=not f32)
            fc = gen_fsc(rng, pc["nA"], pc["nO"])
        else:
            pc = gen_pomdp(rng, labels=labels, extremes=extremes, near1=not f32)
            fc = gen_fsc(rng, pc["nA"], pc["nO"])
        c = {"kind": "eval", "pomdp": pc, "fsc": fc, "hist_len": 3, "runs": 4, "run_seed": rng.randrange(10 ** 6), "max_steps": 6,
             "om_form": "3d" if (form3 and "om3" in fc) else "4d", "eval_dtype": "float32" if f32 else "float64",
             "int_object": fc["style"] == "det"}
        if i % 18 == 5:
            c["long_run"] = 1500          # an episode far beyond 1000 steps
        if i % 4 == 2 and fc["style"] not in ("tiny", "nondyadic"):
            # one controller object: queried / executed, then ITS strategy tables are edited in place, then queried again;
            # histories are judged against the tables' contents at that moment (read back from the object)
            c["fsc_edit"] = gen_fsc(rng, pc["nA"], pc["nO"], style="generic", N=fc["N"])
        cases.append(c)
    n_bpi = 10 if tier == "quick" else 90
    for i in range(n_bpi):
        kind = ["none", "none", "benign", "paying"][i % 4] if tier == "quick" else rng.choice(["none", "none", "benign", "paying"])
        kw = dict(abs_kind=kind, unreach=(i % 3 == 2), labels=(i % 2 == 0), extremes=(i % 5 == 3))
        if i % 10 == 9:
            pc = dict(DOMAINS["tiger"])
        else:
            pc = gen_pomdp(rng, smax=3, amax=2, omax=2, smin=2, amin=2, omin=1 + (i % 4 != 3), **kw)
        c = {"kind": "bpi", "pomdp": pc, "nodes": 1 + i % 3, "seed": i % 3 if tier == "quick" else rng.randint(0, 9),
             # step caps 0 and 1 included
             "iterations": (0 if i % 10 == 0 else 1 if i % 10 == 5 else rng.randint(1, 4)) if tier == "quick" else rng.randint(0, 20),
             # every public node-improvement routine / LP back end
             "improve_fn": "cvxpy" if i % 10 == 4 else "matrix_cvxpy_lp" if i % 10 == 7 else "matrix",
             "runs": 4, "run_seed": rng.randrange(10 ** 6), "max_steps": 5}
        if i % 3 == 1 and "domain" not in pc:
            c["pomdp_prev"] = _same_shape_pomdp(rng, pc, **kw)      # the learner object is first trained on this one
            if i % 6 == 4:     # ... or on one of ANOTHER size with other labels
                c["pomdp_prev"] = gen_pomdp(rng, smin=3, smax=4, amin=2, amax=3, omin=1, omax=3, labels=True)
        cases.append(c)
    # BPI sweeps: multi-node starts on POMDPs whose transitions move between states with different (informative)
    # observation rows, 8 iterations, and EVERY stopping point k = 0..8 of the same run (iterations=k is a prefix of
    # iterations=k+1): results returned right after an escape-node step, after a node improvement, after convergence;
    # node values compared across consecutive stopping points and across every recorded evaluation
    n_sweep = 12 if tier == "quick" else 24
    for i in range(n_sweep):
        # one third: dense dynamics, full-support observation rows peaked on the next state; two thirds: nearly
        # deterministic dynamics with deterministic / sparse observations, so that at the beliefs of escape steps some
        # (action, observation) pair has probability exactly 0
        pc = gen_pomdp(rng, abs_kind="none", smin=3, smax=3, amin=2, amax=2, omin=2, omax=2 + (i % 5 == 4),
                       dense="sparse" if i % 3 else True, labels=(i % 4 == 3))
        cases.append({"kind": "bpi", "pomdp": pc, "nodes": 3 + i % 2 if i % 5 else 2, "seed": i % 3 if tier == "quick" else rng.randint(0, 9),
                      "iterations": 8, "improve_fn": "matrix", "prefix": True, "runs": 1, "run_seed": rng.randrange(10 ** 6), "max_steps": 5})
    # BPI runs that END THROUGH THE CONVERGENCE TEST (enough iterations; convergence_diff default / 1e-2 / 1.0, so the test
    # also passes in sweeps that did improve some node): reported value and table certified against the RETURNED controller
    # at 1e-7 relative, far below convergence_diff
    n_conv = 9 if tier == "quick" else 30
    for i in range(n_conv):
        pc = gen_pomdp(rng, abs_kind="none", smin=2, smax=3, amin=2, amax=2, omin=2, omax=2, dense=("sparse" if i % 2 else True), labels=(i % 4 == 1))
        cases.append({"kind": "bpi", "pomdp": pc, "nodes": 2 + i % 2, "seed": i % 3 if tier == "quick" else rng.randint(0, 9),
                      "iterations": 30, "improve_fn": "matrix", "convergence_diff": ["1/100000", "1/100", "1"][i % 3],
                      "runs": 1, "run_seed": rng.randrange(10 ** 6), "max_steps": 5})
    # gradient ascent at overshooting learning rates (1, 2): the last iterate is often not the best one seen; the reported
    # value must still be the exact evaluation of the RETURNED controller
    n_gal = 6 if tier == "quick" else 24
    for i in range(n_gal):
        pc = gen_pomdp(rng, abs_kind="none", smax=3, amax=2, omax=2, smin=2, amin=2, omin=2, dense=(True if i % 2 else False), labels=(i % 3 == 0))
        cases.append({"kind": "ga", "pomdp": pc, "nodes": 1 + i % 3, "seed": i % 4 if tier == "quick" else rng.randint(0, 9),
                      "iterations": [5, 12, 25][i % 3] if tier == "quick" else rng.randint(3, 40), "learning_rate": ["1", "2"][i % 2],
                      "dtype": "float64", "runs": 1, "run_seed": rng.randrange(10 ** 6), "max_steps": 5})
    n_ga = 6 if tier == "quick" else 60
    for i in range(n_ga):
        kind = ["none", "benign", "paying"][i % 3]
        kw = dict(abs_kind=kind, unreach=(i % 4 == 1), labels=(i % 2 == 1), extremes=(i % 6 == 2))
        pc = gen_pomdp(rng, smax=3, amax=2, omax=2, smin=2, amin=2, omin=2, **kw)
        c = {"kind": "ga", "pomdp": pc, "nodes": 1 + i % 3, "seed": i % 3 if tier == "quick" else rng.randint(0, 9),
             "iterations": (0 if i % 6 == 0 else 1 if i % 6 == 1 else rng.randint(2, 8)) if tier == "quick" else rng.randint(0, 40),
             "dtype": "float32" if i % 6 == 5 else "float64",
             "runs": 4, "run_seed": rng.randrange(10 ** 6), "max_steps": 5}
        if i % 6 == 3:
            c["optimizer"] = "SGD"
        if i % 6 == 4:
            c["log_iteration_progress"] = 1
        if i % 3 == 2:
            c["pomdp_prev"] = _same_shape_pomdp(rng, pc, **kw)
            if i % 6 == 5:
                c["pomdp_prev"] = gen_pomdp(rng, smin=3, smax=4, amin=2, amax=3, omin=1, omax=3, labels=True)
        cases.append(c)
    # a third of all cases: the POMDP object was first evaluated under ANOTHER discount rate, then its
    # discount_rate attribute was reassigned (results must follow the object's current parameters)
    for j, c in enumerate(cases):
        if j % 3 == 1:
            g = c["pomdp"]["gamma"]
            c["gamma_first"] = rng.choice([x for x in ("1/4", "3/5", "7/8", "19/20") if x != g])
    return cases


# ----------------------------------------------------------------------------
# run
# ----------------------------------------------------------------------------
class Reporter:
    """at most CAP replay files per signature per run (the rest are counted)"""
    CAP = 3

    def __init__(self, ctx):
        self.ctx = ctx
        self.counts = {}

    def __call__(self, sig, detail, found=True):
        self.counts[sig] = self.counts.get(sig, 0) + 1
        if self.counts[sig] <= self.CAP:
            self.ctx.violation(sig, detail, found=found)


DOMAINS = {
    "tiger": {"domain": "tiger", "coherence": "3/4", "gamma": "3/4", "abs_kind": "none", "shape": [3, 2, 2]},
    "heavenorhell": {"domain": "heavenorhell", "coherence": "3/4", "gamma": "1/2", "grid": "hcg\n#s#", "abs_kind": "paying",
                     "shape": [5, 8, 6]},
}


def _pairs_to_str(x):
    if isinstance(x, list) and len(x) == 2 and all(isinstance(v, int) and not isinstance(v, bool) for v in x):
        return str(F(x[0], x[1]))
    return [_pairs_to_str(y) for y in x]


def model_pomdp(pc, res):
    """the POMDP in POSITION space (indices into msdm's state_list / action_list / observation_list):
    generated cases are permuted by the lists msdm reports (as generator indices); bundled domains are read
    off the matrices msdm exposes.  None if the reported lists are not permutations of the generator's."""
    if "domain" in pc:
        m = res.get("matrices")
        if not m or res.get("shape") != pc["shape"]:
            return None
        T, Rw, Ob = _pairs_to_str(m["T"]), _pairs_to_str(m["Rw"]), _pairs_to_str(m["Ob"])
        return {"nS": len(T), "nA": len(T[0]), "nO": len(Ob[0][0]), "T": T, "Rw": Rw, "Ob": Ob,
                "absorbing": list(m["absorbing"]), "s0": _pairs_to_str(m["s0"]), "gamma": pc["gamma"],
                "abs_kind": pc["abs_kind"], "unreachable": []}
    ps, pa, po = res.get("state_list"), res.get("action_list"), res.get("observation_list")
    if ps is None or pa is None or po is None:
        return None
    if sorted(ps) != list(range(pc["nS"])) or sorted(pa) != list(range(pc["nA"])) or sorted(po) != list(range(pc["nO"])):
        return None
    out = dict(pc)
    out["T"] = [[[pc["T"][s][a][t] for t in ps] for a in pa] for s in ps]
    out["Rw"] = [[[pc["Rw"][s][a][t] for t in ps] for a in pa] for s in ps]
    out["Ob"] = [[[pc["Ob"][a][t][o] for o in po] for t in ps] for a in pa]
    out["absorbing"] = [pc["absorbing"][s] for s in ps]
    out["s0"] = [pc["s0"][s] for s in ps]
    out["unreachable"] = [ps.index(u) for u in pc.get("unreachable", [])]
    out["perm"] = [ps, pa, po]
    return out


IP_SIG = "C09:bpi:interior-point-lp-backend:strategy-extraction-amplifies-solver-tolerance"
IP_BACKENDS = ("cvxpy", "matrix_cvxpy_lp")     # improve_node_cvxpy / Solvers.cvxpy_lp: interior-point LP solutions
LP_FEAS_TOL = F(1, 10 ** 7)                    # HiGHS primal feasibility 1e-7; CLARABEL / ECOS feasibility 1e-8


def rows_off_only_by_lp_tolerance(r):
    """the node-transition rows are c_{a,o,.}/c_a of an LP point.  True iff every row that is not a distribution is
    one whose LP variables are fine at the solver's feasibility tolerance: pi[n,a]*(-entry) <= tol and
    pi[n,a]*|row sum - 1| <= tol (the division by a small action probability c_a amplified the solver's error), and
    the action rows and the initial node distribution themselves are distributions.  Returns (explained, worst)"""
    tol7 = F(1, 10 ** 7)
    worst = None
    for row in r["pi"] + [r["init"]]:
        xs = [vlib.frac(x) for x in row]
        if min(xs) < -tol7 or abs(sum(xs) - 1) > tol7:
            return False, {"row": "action / initial row itself invalid", "values": [float(x) for x in xs]}
    for n, blk in enumerate(r["om"]):
        for a, ab in enumerate(blk):
            ca = abs(vlib.frac(r["pi"][n][a]))
            for o, row in enumerate(ab):
                xs = [vlib.frac(x) for x in row]
                dev = max([-min(xs), abs(sum(xs) - 1)])
                if dev <= tol7:
                    continue
                if ca * dev > LP_FEAS_TOL:
                    return False, {"node": n, "action": a, "observation": o, "row": [float(x) for x in xs],
                                   "action_probability": float(ca), "deviation": float(dev), "joint_error": float(ca * dev)}
                if worst is None or dev > worst["deviation"]:
                    worst = {"node": n, "action": a, "observation": o, "row": [float(x) for x in xs],
                             "action_probability": float(ca), "deviation": float(dev), "joint_error": float(ca * dev)}
    return worst is not None, worst


OBS_OUTSIDE = "history-contains-observation-outside-observation-set"


def check_runs(case, res, pc, init):
    """conformance of real run_on executions to the episode convention of the model (position space);
    init = the controller's initial node distribution as exact doubles"""
    T, Ob, Rw = fr(pc["T"]), fr(pc["Ob"]), fr(pc["Rw"])
    s0v = fr(pc["s0"])
    ab = pc["absorbing"]
    runs = res.get("runs")
    if isinstance(runs, dict):
        return "run_on raised: " + runs.get("error", "")
    for tr in runs:
        for st in tr["steps"][:-1]:
            if not isinstance(st["o"], int) or isinstance(st["o"], bool) or not (0 <= st["o"] < pc["nO"]):
                # every executed step, the episode-ending one included, carries an observation of the POMDP
                return OBS_OUTSIDE + ": a step of the executed history carries %r instead of an observation" % (st["o"],)
    for tr in runs:
        steps = tr["steps"]
        if not steps or steps[-1]["a"] is not None:
            return "trajectory does not end with the terminal marker step"
        body = steps[:-1]
        if tr["s0"] is not None and steps[0]["s"] != tr["s0"]:
            return "first state is not the requested initial state"
        if tr["s0"] is None and s0v[steps[0]["s"]] <= 0:
            return "sampled initial state has zero initial probability"
        want_ag = tr["ag0"] if tr.get("ag0") is not None else init
        if [vlib.frac(x) for x in steps[0]["ag"]] != [vlib.frac(x) for x in want_ag]:
            return "first agent state is not the (given / default) initial agent state"
        for i, st in enumerate(body):
            if ab[st["s"]]:
                return "a step was taken from an absorbing state"
            if T[st["s"]][st["a"]][st["ns"]] <= 0 or Ob[st["a"]][st["ns"]][st["o"]] <= 0:
                return "zero-probability transition or observation"
            if vlib.frac(st["r"]) != F(float(Rw[st["s"]][st["a"]][st["ns"]])):
                return "reward is not reward(s, a, ns)"
            if steps[i + 1]["s"] != st["ns"] or steps[i + 1]["ag"] != st["nag"]:
                return "state / agent state not threaded through"
        if len(body) > tr["max_steps"]:
            return "more steps than max_steps"
        if not ab[steps[-1]["s"]] and len(body) != tr["max_steps"]:
            return "episode ended in a non-absorbing state before max_steps"
    return None


def run(ctx):
    tier = ctx.tier
    if ctx.replay_case:
        cases = [ctx.replay_case["detail"]["case"]]
    else:
        cases = gen_cases(ctx.rng, tier)
    report = Reporter(ctx)
    impl = ctx.impl("c09_impl.py", {"cases": cases}, shards=min(ctx.jobs, 4 if tier == "quick" else 12))["results"]

    terms, meta = [], []
    feats = {"abs_none": 0, "abs_benign": 0, "abs_paying": 0, "fsc_generic": 0, "fsc_onehot_init": 0, "fsc_shared": 0,
             "fsc_det": 0, "nodes_1": 0, "nodes_2": 0, "nodes_3plus": 0}
    distinct = set()
    nruns = 0
    forms = {}
    mpcs = {}
    for i, (case, res) in enumerate(zip(cases, impl)):
        gpc = case["pomdp"]
        if "error" in res:
            report("C09:impl-error:" + res["error"].split(":")[0], {"case": case, "error": res["error"], "trace": res.get("trace")}, found=True)
            continue
        pc = model_pomdp(gpc, res)      # position space: everything below is indexed as msdm indexes it
        if pc is None:
            report("C09:harness:index-lists-unexpected", {"case": case, "lists": {k: res.get(k) for k in ("state_list", "action_list", "observation_list", "shape")}}, found=False)
            continue
        mpcs[i] = pc
        if res.get("mutated"):
            report("C09:caller-objects-mutated", {"case": case, "what": res["mutated"],
                                                  "clause": "evaluating / executing / learning must not change the POMDP definition or the strategies it was given"}, found=True)
        if res.get("first_result_changed"):
            report("C09:%s:first-result-changed-by-second-training" % case["kind"], {"case": case}, found=True)
        feats["abs_" + pc["abs_kind"]] += 1
        feats["explicit_lists_with_unreachable_states"] = feats.get("explicit_lists_with_unreachable_states", 0) + int(bool(pc.get("unreachable")))
        for key, val in (("labelled", bool(gpc.get("labels"))), ("order_differs_from_generator", bool(pc.get("perm")) and any(p != sorted(p) for p in pc["perm"])),
                         ("bundled_domain", "domain" in gpc), ("gamma_0", pc["gamma"] == "0"), ("gamma_int", bool(gpc.get("gamma_int"))),
                         ("gamma_near_1", pc["gamma"] == GAMMA_NEAR1), ("reused_learner", bool(case.get("pomdp_prev"))),
                         ("seed_0", case.get("seed") == 0), ("iterations_0", case.get("iterations") == 0),
                         ("discount_reassigned_on_used_pomdp_object", bool(case.get("gamma_first"))),
                         ("bpi_ended_through_convergence_test", case["kind"] == "bpi" and bool((res.get("result") or {}).get("converged"))),
                         ("bpi_convergence_diff_" + str(case.get("convergence_diff")), case["kind"] == "bpi" and bool(case.get("convergence_diff"))),
                         ("nondyadic", bool(gpc.get("nondyadic"))), ("shared_mutable_definition_objects", bool(gpc.get("shared_objects"))),
                         ("int_rewards", bool(gpc.get("int_rewards"))), ("long_episode_1500", bool(case.get("long_run"))),
                         ("int_table_controller", res.get("hist_int2") is not None),
                         ("reused_learner_other_size", bool(case.get("pomdp_prev")) and "domain" not in gpc and case["pomdp_prev"]["nS"] != gpc.get("nS")),
                         ("first_result_reread_after_second_training", "first_result_changed" in res),
                         ("tiny_T_or_O_or_s0_entries", "domain" not in gpc and any(0 < F(x) < F(1, 10 ** 8) for blk in (gpc["T"], gpc["Ob"]) for sa in blk for row in sa for x in row) or ("domain" not in gpc and any(0 < F(x) < F(1, 10 ** 8) for x in gpc["s0"]))),
                         ("tiny_initial_state_entry", "domain" not in gpc and any(0 < F(x) < F(1, 10 ** 8) for x in gpc["s0"])),
                         ("reward_2^27_on_tiny_branch", "domain" not in gpc and any(abs(F(x)) >= 2 ** 27 for sa in gpc["Rw"] for row in sa for x in row)),
                         ("one_state", pc["nS"] == 1), ("one_action", pc["nA"] == 1), ("one_observation", pc["nO"] == 1),
                         ("states_eq_actions", pc["nS"] == pc["nA"]),
                         ("improve_fn_" + str(case.get("improve_fn")), case["kind"] == "bpi")):
            feats[key] = feats.get(key, 0) + int(val)
        pt = pomdp_term(pc)
        if case["kind"] == "eval":
            fc = case["fsc"]
            feats["fsc_" + fc["style"]] = feats.get("fsc_" + fc["style"], 0) + 1
            feats["fsc_tiny_action_or_node_weight"] = feats.get("fsc_tiny_action_or_node_weight", 0) + int(
                any(0 < F(x) < F(1, 10 ** 8) for row in fc["pi"] + [fc["init"]] for x in row))
            feats["nodes_%s" % (fc["N"] if fc["N"] < 3 else "3plus")] += 1
            pi, om, init = fr(fc["pi"]), fr(fc["om"]), fr(fc["init"])
            ft = fsc_term(fc["N"], pi, om, init)
            evr = res["eval"]
            if "error" in evr:
                report("C09:evaluator:raises:" + evr["error"].split(":")[0], {"case": case, "error": evr["error"]}, found=True)
            elif not all_num(evr["V"]) or not is_num(evr["expected_value"]):
                report("C09:evaluator:nonfinite-value", {"case": case, "impl": evr}, found=True)
            elif evr.get("V_noinit") != evr["V"]:
                report("C09:evaluator:result-depends-on-fsc_initial_state", {"case": case, "impl": evr}, found=True)
            else:
                sc = scale_of(evr["V"])
                f32 = case.get("eval_dtype") == "float32"
                # float64: the explicit inverse is accurate to ~ n * eps * cond, cond <= 2/(1-gamma): residual tolerance
                # 1e-13/(1-gamma) relative to the table's scale (never above the former blanket 1e-9); the expected
                # value is two short dot products: 1e-12 relative.  float32: 1e-3.
                g_ = F(pc["gamma"])
                tol = (F(1, 10 ** 3) if f32 else min(F(1, 10 ** 9), F(1, 10 ** 13) / (1 - g_))) * sc
                vtol = (F(1, 10 ** 3) if f32 else F(1, 10 ** 12)) * sc
                M = sc
                forms["%s/%s" % (case.get("om_form", "4d"), case.get("eval_dtype", "float64"))] = forms.get("%s/%s" % (case.get("om_form", "4d"), case.get("eval_dtype", "float64")), 0) + 1
                k = KSTEPS[pc["gamma"]]
                if gpc.get("extremes"):
                    k = min(k, 6)     # 2^-30 probabilities: denominators of the exact k-step table grow ~60 bits per step
                terms.append("ev %s %s %s %s %s %s %s %s" % (pt, ft, qmat(evr["V"]), q(evr["expected_value"]), q(tol), q(vtol), q(M), nat(k)))
                meta.append(("ev", i, {"tol": tol, "M": M, "k": k}))
            if isinstance(res.get("hist"), dict) and "error" in res["hist"]:
                report("C09:controller:raises:" + res["hist"]["error"].split(":")[0], {"case": case, "error": res["hist"]["error"]}, found=True)
            else:
                terms.append("hi %s %s %s" % (pt, ft, nat(case.get("hist_len", 3))))
                meta.append(("hi", i, None))
                ed = res.get("edit")
                if case.get("fsc_edit") and isinstance(ed, dict) and ed.get("done"):
                    if not (all_num(ed["pi"]) and all_num(ed["om"]) and all_num(ed["init"])):
                        report("C09:controller:nonfinite-tables-after-in-place-edit", {"case": case}, found=False)
                    else:
                        # semantics of the tables the object holds NOW (read back from it after the in-place edit)
                        terms.append("hi %s %s %s" % (pt, fsc_term(len(ed["pi"]), ed["pi"], ed["om"], ed["init"]), nat(2)))
                        meta.append(("hi", i, {"hist": ed["hist"], "after_edit": True}))
                        feats["controller_tables_edited_in_place_then_requeried"] = feats.get("controller_tables_edited_in_place_then_requeried", 0) + 1
                elif case.get("fsc_edit") and isinstance(ed, dict) and ed.get("error"):
                    feats["controller_tables_not_editable"] = feats.get("controller_tables_not_editable", 0) + 1      # drift: read-only tables are fine
                # the same controller held as torch tensors (what gradient ascent returns) must behave identically
                ht = res.get("hist_torch2")
                if isinstance(ht, dict) or (case.get("hist_len", 3) >= 2 and ht != res["hist"]["2"]):
                    report("C09:controller:tensor-controller-differs-from-array-controller",
                           {"case": case, "tensor": ht if isinstance(ht, dict) else None,
                            "clause": "the same controller gives two different probabilities to a history"}, found=True)
            hi2 = res.get("hist_int2")
            if hi2 is not None and (case.get("hist_len", 3) >= 2 and hi2 != res["hist"]["2"]):
                report("C09:controller:integer-table-controller-differs-from-float-controller",
                       {"case": case, "clause": "the same (deterministic) controller gives two different probabilities to a history"}, found=True)
            why = check_runs(case, res, pc, [vlib.fjson(float(vlib.frac(x))) for x in fc["init"]])
            nruns += 1
            if why and why.startswith(OBS_OUTSIDE):
                report("C09:controller:" + OBS_OUTSIDE, {"case": case, "why": why, "runs": res.get("runs"),
                       "clause": "executing the controller produces action/observation histories with the probabilities the controller and the POMDP define: "
                                 "the observation of every executed step (also the one entering an absorbing state) is drawn from O[a, next state]"}, found=True)
            elif why:
                report("C09:run_on:episode-convention", {"case": case, "clause": why, "runs": res.get("runs")}, found=True)
            if not all(pc["absorbing"]):
                distinct.add(vlib.structural_hash([gpc, fc]))
        else:
            learner = case["kind"]
            r = res["result"]
            if "error" in r:
                tr_ = r.get("trace") or ""
                frames = [ln for ln in tr_.splitlines() if ln.strip().startswith("File ")]
                if (learner == "bpi" and case.get("improve_fn") in IP_BACKENDS and r["error"].startswith("AssertionError")
                        and frames and "fscboundedpolicyiteration.py" in frames[-1]):
                    # one of BPI's OWN numerical assertions (row sums after observation_strategy = canz / c_a, strict value
                    # improvement after an accepted step, escape-node value) fired on an interior-point LP solution.
                    # An assertion raised anywhere else (e.g. the evaluator's input checks) keeps the generic signature.
                    report(IP_SIG, {"case": case, "manifestation": "bounded policy iteration raises one of its own numerical assertions",
                                    "assertion": tr_.strip().splitlines()[-2].strip() if tr_.strip() else None, "error": r["error"],
                                    "trace": tr_, "clause": "the learner must always return a (valid) controller"}, found=True)
                    continue
                if (learner == "bpi" and r["error"].startswith("TypeError") and frames and "fscboundedpolicyiteration.py" in frames[-1]
                        and ("in scipy_lp" in frames[-1] or "in cvxpy_lp" in frames[-1])):
                    # the LP solver returned no solution (e.g. HiGHS "infeasible" on an exactly feasible but nearly degenerate
                    # LP) and msdm uses the missing solution without looking at the solver status
                    report("C09:bpi:lp-solver-failure-status-unchecked",
                           {"case": case, "error": r["error"], "trace": tr_, "clause": "the learner must always return a controller"}, found=True)
                    continue
                report("C09:%s:raises:%s" % (learner, r["error"].split(":")[0]),
                       {"case": case, "error": r["error"], "trace": r.get("trace"),
                        "clause": "the learner must always return a controller"}, found=True)
                continue
            if not (all_num(r["pi"]) and all_num(r["om"]) and all_num(r["init"]) and all_num(r["V"]) and is_num(r["value"])):
                report("C09:%s:nonfinite-result" % learner, {"case": case, "impl": r}, found=True)
                continue
            N = len(r["pi"])
            feats["nodes_%s" % (N if N < 3 else "3plus")] += 1
            ft = fsc_term(N, r["pi"], r["om"], r["init"])
            sc = scale_of(r["V"])
            f32 = case.get("dtype") == "float32"
            rtol = F(1, 10 ** 4) if f32 else F(1, 10 ** 7)
            tol = (F(1, 10 ** 2) if f32 else F(1, 10 ** 7)) * sc
            vtol = (F(1, 10 ** 3) if f32 else F(1, 10 ** 8)) * sc
            kap = 1 + 10 * rtol
            terms.append("lc %s %s %s %s %s %s %s %s %s" % (pt, ft, qmat(r["V"]), q(r["value"]), q(rtol), q(kap), q(kap), q(tol), q(vtol)))
            meta.append(("lc", i, {"tol": tol, "vtol": vtol, "rtol": rtol}))
            distinct.add(vlib.structural_hash([gpc, case["nodes"], case["seed"], case["iterations"], learner, case.get("improve_fn")]))
            # executing the RETURNED controller object obeys the episode convention too
            why = check_runs(case, res, pc, r["init"])
            nruns += 1
            if why and why.startswith(OBS_OUTSIDE):
                report("C09:controller:" + OBS_OUTSIDE, {"case": case, "why": why, "runs": res.get("runs"), "learner": learner,
                       "clause": "the observation of every executed step (also the one entering an absorbing state) is drawn from O[a, next state]"}, found=True)
            elif why:
                report("C09:run_on:episode-convention", {"case": case, "clause": why, "runs": res.get("runs"), "learner": learner}, found=True)
            if learner == "bpi":
                evs = res["evals"]
                # the returned controller/value must be the last evaluated one
                if evs and (evs[-1]["pi"] != r["pi"] or evs[-1]["om"] != r["om"] or evs[-1]["V"] != r["V"]):
                    report("C09:bpi:result-not-last-evaluated-controller", {"case": case, "result": r, "last_eval": evs[-1]}, found=False)
                # every stopping point k < iterations of the same run (prefix runs): each is a returned result
                pre = res.get("prefix_results") or []
                allres = pre + [r]
                stops = []
                for k_, rk in enumerate(pre):
                    if "error" in rk:
                        report("C09:bpi:raises:%s" % rk["error"].split(":")[0],
                               {"case": case, "iterations": k_, "error": rk["error"], "clause": "the learner must always return a controller"}, found=True)
                        continue
                    if not (all_num(rk["pi"]) and all_num(rk["om"]) and all_num(rk["init"]) and all_num(rk["V"]) and is_num(rk["value"])):
                        report("C09:bpi:nonfinite-result", {"case": case, "iterations": k_, "impl": rk}, found=True)
                        continue
                    stops.append(rk["V"])
                    nxt = allres[k_ + 1]
                    if all(rk.get(key) == nxt.get(key) for key in ("pi", "om", "init", "V", "value")):
                        continue        # same result as the next stopping point (checked there)
                    sck = scale_of(rk["V"])
                    terms.append("lc %s %s %s %s %s %s %s %s %s" % (pt, fsc_term(len(rk["pi"]), rk["pi"], rk["om"], rk["init"]), qmat(rk["V"]),
                                                                   q(rk["value"]), q(rtol), q(kap), q(kap), q(F(1, 10 ** 7) * sck), q(F(1, 10 ** 8) * sck)))
                    meta.append(("lc", i, {"tol": F(1, 10 ** 7) * sck, "vtol": F(1, 10 ** 8) * sck, "rtol": rtol, "result": rk, "iterations": k_}))
                    feats["bpi_stopping_points_checked"] = feats.get("bpi_stopping_points_checked", 0) + 1
                    if k_ >= 1 and "pi" in allres[k_ - 1] and len(rk["pi"]) > len(allres[k_ - 1]["pi"]):
                        feats["bpi_results_right_after_escape_step"] = feats.get("bpi_results_right_after_escape_step", 0) + 1
                if pre:
                    stops.append(r["V"])
                    kchain = []
                    for V_ in stops:
                        if not kchain or V_ != kchain[-1]:
                            kchain.append(V_)
                    if len(kchain) >= 2:
                        # node values across consecutive stopping points k -> k+1 never decrease
                        terms.append("mc %s %s %s" % (q(F(1, 10 ** 7) * sc), nat(pc["nS"]), coqlist(qmat(V) for V in kchain)))
                        meta.append(("mc", i, {"chain": kchain, "across": "iteration counts k -> k+1"}))
                chain = []
                for e in evs:
                    if not chain or e["V"] != chain[-1]:
                        chain.append(e["V"])
                if len(chain) >= 2:
                    terms.append("mc %s %s %s" % (q(F(1, 10 ** 7) * sc), nat(pc["nS"]), coqlist(qmat(V) for V in chain)))
                    meta.append(("mc", i, {"chain": chain}))
                # accepted node replacements
                cur = None
                ei = 0
                nstp = 0
                for lp in res["lps"]:
                    if not lp["improved"]:
                        continue
                    nstp += 1
                    if nstp > (3 if case.get("prefix") else 6):   # long sweeps accept dozens of steps: the first few per run are checked step by step
                        break           # (all of them are covered by the monotone-chain check of the recorded tables)
                    # controller in force when the LP was posed = the last evaluated controller whose table is V_in
                    prev = next((e for e in reversed(evs) if e["V"] == lp["V_in"]), None)
                    if prev is None:
                        report("C09:bpi:lp-input-not-a-recorded-table", {"case": case, "lp": lp}, found=False)
                        continue
                    pi2 = [list(row) for row in prev["pi"]]
                    om2 = [x for x in prev["om"]]
                    pi2[lp["node"]] = lp["pi_row"]
                    om2 = om2[:lp["node"]] + [lp["om_row"]] + om2[lp["node"] + 1:]
                    if not (all_num(pi2) and all_num(om2) and is_num(lp["epsilon"])):
                        report("C09:bpi:nonfinite-lp-answer", {"case": case, "lp": lp}, found=True)
                        continue
                    f2 = fsc_term(len(pi2), pi2, om2, [F(1)] + [F(0)] * (len(pi2) - 1))
                    terms.append("stp %s %s %s %s %s %s" % (pt, f2, q(F(1, 10 ** 6) * sc), qmat(lp["V_in"]), nat(lp["node"]), q(lp["epsilon"])))
                    meta.append(("stp", i, {"lp": lp}))

    # thorough: small shards and a long timeout, so that a loaded machine cannot turn a slow shard into a coqc timeout
    vals = ctx.coq(PRE, terms, shard=10 if tier == "quick" else 12, timeout=900 if tier == "quick" else 2400)
    counts = {"ev": 0, "hi": 0, "lc": 0, "mc": 0, "stp": 0}
    cert_ok = eval_defect = hist_defect = hist_equal = hist_theorem_cases = hist_total = hist_drift = 0
    for (kind, i, extra), v in zip(meta, vals):
        case, res = cases[i], impl[i]
        pc = mpcs[i]
        if isinstance(v, vlib.CoqError):
            report("C09:coq-evaluation-failed", {"case": case, "term_kind": kind, "error": str(v)[:800]}, found=False)
            continue
        counts[kind] += 1
        if kind == "ev":
            flags, ret = v
            fl_ = dict(zip(EVAL_CLAUSES, flags))
            fc = case["fsc"]
            if not (fl_["pomdp_wfb"] and fl_["fsc_wfb"]):
                report("C09:harness:generated-case-illformed", {"case": case, "flags": fl_}, found=False)
                continue
            V = [[vlib.frac(x) for x in row] for row in res["eval"]["V"]]
            ret = [[unq(x) for x in row] for row in ret]
            g = F(pc["gamma"])
            tail = g ** extra["k"] * extra["M"]
            worst = max(((abs(V[n][s] - ret[n][s]), n, s) for n in range(fc["N"]) for s in range(pc["nS"])))
            if fl_["system_masked"] and fl_["vbound"]:
                cert_ok += 1
                # consequence of theorem main_eval_return_table, re-checked on the printed table
                if worst[0] > extra["tol"] / (1 - g) + tail:
                    report("C09:internal:proved-bound-not-met", {"case": case, "worst": [str(x) for x in worst]}, found=False)
            else:
                pi, om = fr(fc["pi"]), fr(fc["om"])
                Vs = exact_value(pc, fc["N"], pi, om, masked=True)
                d = max(((abs(V[n][s] - Vs[n][s]), n, s) for n in range(fc["N"]) for s in range(pc["nS"])))
                dl = max([(abs(V[n][s] - Vs[n][s]), n, s) for n in range(fc["N"]) for s in range(pc["nS"]) if not pc["absorbing"][s]] or [d])
                if dl[0] > extra["tol"] / (1 - F(pc["gamma"])):
                    d = dl      # prefer a live (non-absorbing) state as the witness
                # true value is within gamma^k * Rmax/(1-gamma) of the exact k-step return table
                Rmax = max([F(0)] + [abs(x) for row in pomdp_arrays(pc)[2] for x in row])
                detail = {"case": case, "flags": fl_, "node": d[1], "state": d[2],
                          "evaluator_value": float(V[d[1]][d[2]]), "exact_return": str(Vs[d[1]][d[2]]),
                          "k": extra["k"], "k_step_return": str(ret[d[1]][d[2]]),
                          "tail_bound_gamma^k*Rmax/(1-gamma)": str(g ** extra["k"] * Rmax / (1 - g)),
                          "difference": float(d[0]), "absorbing": pc["absorbing"],
                          "clause": "exact controller evaluation = expected discounted return of running the controller, episode ends on entering an absorbing state"}
                found = d[0] > extra["tol"] / (1 - g)
                if fl_["system_code"] and not fl_["abs_benign"]:
                    eval_defect += 1
                    report("C09:evaluator:absorbing-states-not-masked", detail, found=found)
                else:
                    report("C09:evaluator:value-not-the-return", detail, found=found)
            if not fl_["value_ok"]:
                report("C09:evaluator:expected-value-not-init-V-s0", {"case": case, "impl": res["eval"]}, found=True)
        elif kind == "hi":
            tabs, shared, det = v
            fc = case["fsc"] if not (extra or {}).get("after_edit") else case["fsc_edit"]
            hist_src = (extra or {}).get("hist") or res["hist"]
            hist_total += 1
            steps = [(a, o) for a in range(pc["nA"]) for o in range(pc["nO"])]
            bad_mirror = None
            bad_spec = None
            for L, (mir, spec) in enumerate(tabs, start=1):
                real = [vlib.frac(x) if is_num(x) else None for x in hist_src[str(L)]]
                hs = [[]]
                for _ in range(L):
                    hs = [[st] + h for st in steps for h in hs]
                if len(real) != len(mir) or len(hs) != len(mir):
                    bad_mirror = {"length": L, "why": "history enumeration differs"}
                    bad_spec = bad_spec or {"history": None, "why": "object enumerates a different number of histories", "_d": F(1)}
                    break
                for h, rr, mm, ss in zip(hs, real, mir, spec):
                    mm, ss = unq(mm), unq(ss)
                    # mirror (explanatory only): exact on the k/8 grid; with 2^-e weights or non-dyadic rows the object's
                    # double arithmetic rounds (relative 1e-16), so "same as the mirror" means equal up to 1e-12 relative
                    same_m = (rr == mm) if fc["style"] not in ("tiny", "nondyadic") else (rr is not None and abs(rr - mm) <= F(1, 10 ** 12) * max(abs(rr), abs(mm)))
                    if not same_m and bad_mirror is None:
                        bad_mirror = {"history": h, "object": str(rr), "mirror": str(mm), "semantics": str(ss)}
                    # the property: object probability = controller semantics (exact on the k/8 grid; a normalising
                    # implementation may round: 1e-12 RELATIVE slack, so that a history of probability 2^-40 counts too)
                    if (rr is None or abs(rr - ss) > F(1, 10 ** 12) * max(abs(rr), abs(ss))) and (bad_spec is None or rr is None or abs(rr - ss) > bad_spec["_d"]):
                        bad_spec = {"history": h, "object_probability": str(rr), "controller_semantics_probability": str(ss),
                                    "_d": abs(rr - ss) if rr is not None else F(1)}
            if bad_spec:
                bad_spec.pop("_d")
            if shared or det:
                hist_theorem_cases += 1
            if bad_spec is None:
                hist_equal += 1
                if bad_mirror:
                    hist_drift += 1      # object differs from the mirror model but meets the semantics: drift, not a violation
            else:
                hist_defect += 1
                bad_spec["clause"] = "executing the controller object produces action/observation histories with exactly the probabilities the controller defines"
                if bad_mirror:
                    report("C09:controller:history-probability-wrong", {"case": case, "worst": bad_spec, "first_mirror_difference": bad_mirror,
                                                                        "after_in_place_edit_of_the_objects_tables": bool((extra or {}).get("after_edit"))}, found=True)
                elif shared or det:
                    report("C09:internal:history-theorem-contradicted", {"case": case, "worst": bad_spec}, found=False)
                else:
                    # object = mirror of next_agentstate(ag,a,o) = ag . omega[:,a,o,:]  (no weighting by pi[n,a])
                    report("C09:controller:next_agentstate-ignores-action-evidence", {"case": case, "worst": bad_spec, "init": fc["init"]}, found=True)
        elif kind == "lc":
            learner = case["kind"]
            fl_ = dict(zip(LEARN_CLAUSES, v))
            r = extra.get("result") or res["result"]      # a prefix run's result, or the final one
            if not fl_["pomdp_wfb"]:
                report("C09:harness:generated-case-illformed", {"case": case, "flags": fl_}, found=False)
                continue
            if not fl_["rows_valid"]:
                explained, worst_row = rows_off_only_by_lp_tolerance(r) if learner == "bpi" else (False, None)
                if explained and case.get("improve_fn") in IP_BACKENDS:
                    # same tolerance as everywhere (1e-7): the rows ARE off; named separately because the mechanism is specific
                    report(IP_SIG, {"case": case, "manifestation": "returned node-transition row is not a distribution", "worst_row": worst_row,
                                    "result": r, "tolerance": str(extra["rtol"]), "lp_feasibility_tolerance": str(LP_FEAS_TOL),
                                    "clause": "every node-transition row of the returned controller is a probability distribution"}, found=True)
                else:
                    report("C09:%s:returned-controller-row-not-a-distribution" % learner, {"case": case, "result": r, "worst_row": worst_row,
                                                                                           "tolerance": str(extra["rtol"])}, found=True)
            if not fl_["value_ok"]:
                report("C09:%s:reported-value-not-init-V-s0" % learner, {"case": case, "result": r}, found=True)
            if fl_["rows_valid"] and not (fl_["bounded"] and fl_["contraction"]):
                report("C09:harness:l1-bound-too-tight", {"case": case, "flags": fl_}, found=False)
            if not fl_["system_masked"]:
                detail = {"case": case, "flags": fl_, "result": r, "absorbing": pc["absorbing"], "iterations": extra.get("iterations", case.get("iterations")),
                          "clause": "reported value table = exact evaluation (return of running) of the RETURNED controller"}
                if fl_["system_code"] and not fl_["abs_benign"]:
                    eval_defect += 1
                    report("C09:evaluator:absorbing-states-not-masked", detail, found=True)
                else:
                    report("C09:%s:value-table-not-evaluation-of-returned-controller" % learner, detail, found=True)
            else:
                cert_ok += 1
        elif kind == "mc":
            if v is not True:
                ch = extra["chain"]
                bad = None
                for j in range(len(ch) - 1):
                    for n in range(len(ch[j])):
                        for s in range(pc["nS"]):
                            if vlib.frac(ch[j][n][s]) > vlib.frac(ch[j + 1][n][s]) + F(1, 10 ** 7) * scale_of(ch[j]):
                                bad = bad or {"table": j, "node": n, "state": s, "before": float(vlib.frac(ch[j][n][s])), "after": float(vlib.frac(ch[j + 1][n][s]))}
                report("C09:bpi:value-decreased", {"case": case, "first": bad, "across": extra.get("across", "recorded evaluations of one run"),
                                                   "clause": "bounded policy iteration never lowers the value of any node at any state"}, found=bad is not None)
        elif kind == "stp":
            if v is not True:
                report("C09:bpi:accepted-step-violates-improvement-constraint", {"case": case, "lp": extra["lp"]}, found=False)

    ctx.coverage.update({
        "evaluations": sum(counts.values()) + nruns,
        "distinct_nontrivial": len(distinct),
        "rule": "POMDPs: 1..4 states, 1..3 actions, 1..3 observations, T/O/initial rows on k/8 with <=3 support, rewards integers or quarters, "
                "gamma in {1/2,3/4,9/10}, absorbing kind none / benign (zero-reward self-loop) / paying (non-zero reward or non-self-loop out of a "
                "terminal state); state lists inferred with every state reachable, or EXPLICIT _state_list/_action_list with >= 1 state unreachable "
                "from the initial distribution (own dynamics and rewards; the table is checked at every (node, state) pair); controllers: 1..3 nodes, rows on k/8, styles generic (non-degenerate initial node "
                "distribution) / onehot_init / shared action row / deterministic; learners: BPI seeds 1..3 (seed 0 is replaced by a random seed in "
                "msdm, see C13), 1..3 initial nodes, few iterations, gradient ascent float64 and float32; distinct = structural hash of "
                "(pomdp, controller) resp. (pomdp, learner configuration); non-trivial = at least one non-absorbing state",
        "samples": [{"case": cases[0], "impl": {k: impl[0].get(k) for k in ("eval", "state_list", "observation_list")}}] if cases else [],
        "coq_terms": counts, "certificate_accepts": cert_ok, "run_on_conformance_cases": nruns,
        "evaluator_unmasked_absorbing_cases": eval_defect,
        "history_cases": hist_total, "history_cases_object_equals_semantics": hist_equal,
        "history_cases_object_differs_from_semantics": hist_defect, "history_cases_mirror_drift": hist_drift, "history_cases_covered_by_partial_theorems": hist_theorem_cases,
        "signature_counts": report.counts,
        "input_features": feats, "evaluator_input_forms": forms, "cases": len(cases),
    })
