#!/usr/bin/env python3
"""regress.py <prop> [...]: re-run ./check <prop> (quick) against every stored seeded change (seeded/<prop>-<k>: must be
caught) and every stored behaviour-preserving change (benign/<prop>-<k>: must stay silent), one after the other for a
property (runs of one property must not overlap), nothing saved.  Prints one line per change and a summary; exit 1 if a
seeded change is missed or a benign change raises an alarm."""
import glob, json, os, re, subprocess, sys
ROOT = os.path.dirname(os.path.dirname(os.path.abspath(__file__)))
bad = 0
for prop in sys.argv[1:]:
    link = "/tmp/regress_src/%s" % prop
    os.makedirs(link, exist_ok=True)
    for kind, tool in [kt for kt in (("benign", "try_benign.py"), ("seeded", "try_mutant.py")) if kt[0] in os.environ.get("REGRESS_KINDS", "benign,seeded")]:
        for d in sorted(glob.glob(os.path.join(ROOT, kind, prop + "-*")), key=lambda p: int(p.rsplit("-", 1)[1])):
            k = d.rsplit("-", 1)[1]
            meta = json.load(open(os.path.join(d, "meta.json")))
            if meta.get("ruling"):
                print(prop, kind, k, "skipped (ruling: outside the property)", flush=True); continue
            tgt = os.path.join(link, kind[0] + k)
            if os.path.islink(tgt): os.unlink(tgt)
            os.symlink(d, tgt)
            r = subprocess.run(["python3", os.path.join(ROOT, "harness", tool), prop, link, kind[0] + k],
                               capture_output=True, text=True, cwd=ROOT)
            try:
                out = json.loads(r.stdout[r.stdout.index("{"):])
            except Exception:
                msg = (r.stdout + r.stderr)[-300:].replace("\n", " ")
                if "PATCH DOES NOT APPLY" in msg:
                    print(prop, kind, k, "skipped (patch predates a later fix: commit and does not apply to HEAD)", flush=True); continue
                print(prop, kind, k, "ERROR", msg, flush=True); bad += 1; continue
            if kind == "seeded":
                ok = out["caught"]
                sigs = out["check"]["0"]["signatures"][:2]
                if ok and not sigs: ok = False       # exit 1 without a signature is not a verdict
                if any("harness crashed" in s for s in sigs) and len(out["check"]["0"]["signatures"]) == 1: ok = False
                print(prop, "seeded", k, "caught" if ok else "MISSED", sigs, flush=True)
            else:
                ok = not out["alarm"]
                print(prop, "benign", k, "silent" if ok else "ALARM",
                      [s for v in out["check"].values() for s in v["signatures"]][:3], flush=True)
            bad += (not ok)
print("regress: %d problem(s)" % bad)
sys.exit(1 if bad else 0)
