"""C13 — a fixed seed makes every randomised component reproducible and isolated.

Two halves, labelled separately in the evidence:

A. PROOF about a REGENERATED model.  pregen() runs harness/extract_sites.py over the twelve anchored msdm files
   (fail closed) and rewrites coq/gen/Sites.v; props/C13.v proves `isolation` (all-private programs give equal
   results in any two worlds with equal private streams and leave the global generators untouched), that the
   classification is tight, and `sites_private_<component>` by vm_compute on the regenerated table for the
   components that are clean on the current tree.  For ALL twelve components the harness evaluates
   `component_report sites c` inside coqc and reports the components whose table has a non-private site
   (signatures C13:sites:<component>:global-generator-used / :hash-order-dependence).

B. DIFFERENTIAL EXECUTION (decides the runtime half; this is execution, not proof).  Every component, on
   representative problems of every class (string / int / tuple / frozendict keyed states, string option names,
   library domains), for seeds {0,1,2,..}: run on a fresh object, CALL THE SAME OBJECT A SECOND TIME (planner /
   learner / policy / semi-MDP reused: must equal the first call), run a second fresh object, again after scrambling the global `random`,
   numpy and torch generators, again after restoring them, and in fresh processes under different
   PYTHONHASHSEEDs.  Results are compared bit-for-bit (float.hex) up to ==-semantics of dict/set; the global
   generator states are snapshotted around every run.
"""
import os
from concurrent.futures import ThreadPoolExecutor

import vlib
import extract_sites

COMPONENTS = extract_sites.COMPONENTS

INFO = {
    "level": "other",
    "level_note": "partial proof + differential execution: the theorems of props/C13.v are about the Rng model and the "
                  "regenerated site table; that the interpreter behaves like the model (draws only at listed sites, "
                  "salted str hash, float effects of container order) is decided per run by differential execution",
    "coq_files": ["model/Rng.v", "theory/RngTheory.v", "gen/Sites.v"],
    "trusted_base": [
        "harness/extract_sites.py: AST extractor of randomness/hash-order sites (fail closed on unclassified "
        "randomness-looking calls); its component map, its rule 'a draw on a generator-bound name is private because "
        "every binding of the global generator to a name is itself a site', and its one audited set iteration "
        "(DoubleQLearning key union) and one audited object-level generator (ImplicitDistribution._rng: the distribution "
        "object IS the seeded generator, so for this component 'second call on the same object' means a freshly "
        "constructed distribution with the same seed performing the same query sequence)",
        "model/Rng.v resolve: meaning of each site kind under a configuration (seed given / seed falsy / generator passed)",
        "differential half: canonical rendering of results (harness/impl/c13_impl.py canon: floats bit-for-bit, dict/set "
        "compared with == semantics), snapshots of random/numpy/torch global states, PYTHONHASHSEED of child processes",
    ],
    "assumptions": [
        "the twelve anchored files are the only msdm code of these components that touches a generator or iterates a set "
        "(msdm/core/distributions/dictdistribution.py sample methods take rng= and are exercised by the differential half only)",
        "CPython: str/bytes hashing is the only salted hash; hash(None) constant (3.12)",
    ],
}

PRE = """From Coq Require Import String List Bool.
From MSDM Require Import model.Rng gen.Sites.
Import ListNotations.
Local Open Scope string_scope.
"""

KIND_NAMES = extract_sites.KINDS
GEN_AXES = ("differs-between-two-runs-in-one-process", "depends-on-global-generator-state",
            "nondeterministic-under-identical-global-state", "disturbs-global-generator")
CARRY_AXIS = "second-call-on-same-object-differs"
HASH_AXIS = "differs-across-PYTHONHASHSEED"


def pregen(ctx):
    extract_sites.generate(repo=vlib.REPO)


# ----------------------------------------------------------------------------
# cases
# ----------------------------------------------------------------------------
def R(**kw):
    d = {"kind": "rand", "n": 9, "k": 3, "labels": "str", "pseed": 3, "ninit": 2}
    d.update(kw)
    return d


GW = {"kind": "gridworld", "tiles": ["s..#", "..#.", "...g"], "success_prob": "4/5"}
GWD = {"kind": "gridworld", "tiles": ["s..#", "....", "#..g"]}


OG = {"kind": "opengrid", "size": 5}                      # 70 tied shortest paths, actions given as ONE plain list
PL = dict(actions_as="list", persistent=True)            # problem hands out the same list / distribution objects every call


def corpus():
    """fixed representative problems: (problem spec, params) per component"""
    c = corpus_()
    det = dict(deterministic=True, n=12)
    c["astar"] += [(OG, {}), (dict(OG, labels="int"), {"tie_breaking_strategy": "lifo"}), (R(**det, **PL), {})]
    c["bfs"] += [(OG, {}), (dict(OG, labels="int", actions_as="tuple"), {}), (R(**det, **PL), {})]
    for comp in ("laostar", "lrtdp", "mdp_rollout", "semimdp"):
        c[comp] += [(R(**PL), {})]
    # options created WITHOUT name= (the library default): int / tuple keyed states so that nothing salted is involved
    c["semimdp"] += [(R(labels="int"), {"option_names": "none"}), (R(labels="tuple"), {"option_names": "none"}),
                     ({"kind": "rngrid"}, {"option_names": "none", "nstates": 3})]
    for comp in ("td", "rmax"):
        c[comp] += [(R(reward="goal", **PL), {})]
    return c


def corpus_():
    det = dict(deterministic=True, n=12)
    return {
        "laostar": [(R(), {}), (R(labels="int"), {}), (R(labels="tuple"), {}), (GW, {}), ({"kind": "gnt"}, {}), ({"kind": "rngrid"}, {})],
        "lrtdp": [(R(), {}), (R(labels="int"), {}), (GW, {}), ({"kind": "gnt"}, {})],
        "astar": [(R(**det), {}), (R(labels="int", **det), {}), ({"kind": "romania"}, {}), (GWD, {}),
                  (R(**det), {"tie_breaking_strategy": "lifo"})],
        "bfs": [(R(**det), {}), (R(labels="int", **det), {}), ({"kind": "romania"}, {}), (GWD, {})],
        "td": [(R(reward="goal"), {}), (R(reward="goal", labels="int"), {}), ({"kind": "rngrid"}, {"softmax_temp": "1/100", "rand_choose": "0"}), (GW, {})],
        "rmax": [(R(reward="goal"), {}), (R(reward="goal", labels="int"), {}), ({"kind": "rngrid"}, {})],
        "bpi": [({"kind": "tiger"}, {}), ({"kind": "loadunload"}, {}), ({"kind": "heavenorhell"}, {})],
        "ga": [({"kind": "tiger"}, {}), ({"kind": "loadunload"}, {}), ({"kind": "heavenorhell"}, {})],
        "semimdp": [(R(), {}), (R(labels="int"), {}), (R(labels="tuple"), {}), (GW, {}),
                    (R(labels="int"), {"option_names": "int"}), (R(labels="tuple"), {"option_names": "int"})],
        "implicit": [({"kind": "none"}, {}), ({"kind": "none", "events": [1, 2, 3, 4]}, {})],
        "mdp_rollout": [(R(), {}), (R(labels="int"), {}), (GW, {}), ({"kind": "rngrid"}, {})],
        "pomdp_rollout": [({"kind": "tiger"}, {}), ({"kind": "loadunload"}, {}), ({"kind": "heavenorhell"}, {})],
    }


def variants():
    """audit classes B-E: parameter boundaries, input representations, falsy labels, rarely taken branches.
    (problem, params) per component; run for seed 0 in the quick tier, seeds {0, 1} in the thorough tier"""
    det = dict(deterministic=True, n=12)
    g = dict(reward="goal")
    near1 = "1048575/1048576"            # discount 1 - 2^-20
    return {
        "laostar": [(R(labels="falsy_str"), {}), (R(labels="unsorted", n=12), {}), (R(labels="float"), {}),
                    (R(labels="negint", actions_as="list", init_dist="uniform"), {}), (R(tiny=True), {}),
                    (R(), {"heuristic_constant": True, "randomize_action_order": False, "randomize_nextstate_order": False}),
                    (R(), {"max_iterations": 3}), (R(), {"listener": True}), (R(k=1), {}), (R(reward_scale="100000"), {}),
                    (R(labels="int"), {"second_problem_n_delta": 1})],
        "lrtdp": [(R(labels="falsy_str"), {}), (R(labels="falsy_tuple"), {}), (R(labels="unsorted", n=12), {}),
                  (R(gamma="1"), {}), (R(gamma=near1), {"iterations": 20}), (R(), {"randomize_action_order": False}),
                  (R(), {"max_trial_length": 3, "iterations": 5}), (R(), {"iterations": 1}), (R(), {"listener": True}),
                  (R(tiny=True), {}), (R(k=1), {}), (R(init_dist="det"), {}), (R(labels="int"), {"second_problem_n_delta": 1})],
        "astar": [(R(labels="falsy_str", **det), {}), (R(labels="unsorted", **det), {}), (R(labels="float", **det), {}),
                  (R(**det), {"tie_breaking_strategy": "fifo"}), ({"kind": "romania"}, {"tie_breaking_strategy": "lifo"}),
                  (R(k=1, **det), {}), (R(labels="int", **det), {"second_problem_n_delta": 1})],
        "bfs": [(R(labels="falsy_tuple", **det), {}), (R(labels="unsorted", **det), {}), (R(**det), {"randomize_action_order": False}),
                (R(k=1, **det), {}), (R(labels="int", **det), {"second_problem_n_delta": 1})],
        "td": [(R(labels="falsy_str", **g), {}), (R(labels="unsorted", n=12, **g), {}), (R(**g), {"rand_choose": "1"}),
               (R(**g), {"softmax_temp": "1", "rand_choose": "1/2"}), (R(**g), {"initial_q": "callable"}), (R(**g), {"initial_q": "int1"}),
               (R(**g), {"episodes": 1}), (R(**g), {"episodes": 0}), (R(gamma="1", **g), {}), (R(k=1, **g), {}), (R(tiny=True, **g), {}),
               (R(labels="int", **g), {"second_problem_n_delta": 1, "learners": ["QLearning", "SARSA"]})],
        "rmax": [(R(labels="falsy_str", **g), {}), (R(labels="unsorted", n=12, **g), {}), (R(labels="float", **g), {}),
                 (R(**g), {"m": 1}), (R(**g), {"episodes": 1}), (R(k=1, **g), {}), (R(actions_as="list", init_dist="uniform", **g), {}),
                 (R(labels="int", **g), {"second_problem_n_delta": 1})],
        "bpi": [({"kind": "tiger"}, {"nodes": 1}), ({"kind": "tiger"}, {"iterations": 12}), ({"kind": "tiger", "coherence": "1"}, {})],
        "ga": [({"kind": "tiger"}, {"nodes": 1}), ({"kind": "tiger"}, {"iterations": 1}), ({"kind": "tiger", "gamma": "0"}, {})],
        "semimdp": [(R(labels="falsy_str"), {}), (R(labels="unsorted", n=12), {}), (R(), {"nsim": 1}), (R(actions_as="list"), {"include_mdp_actions": True}),
                    (R(labels="int"), {"option_names": "falsy"}), (R(labels="falsy_tuple"), {"option_names": "int"})],
        "implicit": [({"kind": "none"}, {"n_samples": 1}), ({"kind": "none", "events": [0, "", [], 0.5]}, {}),
                     ({"kind": "none", "events": ["only"]}, {}), ({"kind": "none", "events": [0, -1, 2]}, {})],
        "mdp_rollout": [(R(labels="falsy_str"), {}), (R(labels="falsy_tuple"), {}), (R(labels="unsorted", n=12), {}), (R(labels="float"), {}),
                        (R(), {"max_steps": 0}), (R(), {"max_steps": 1}), (R(), {"nsim": 1}), (R(labels="int"), {"initial_state": "first"}),
                        (R(labels="falsy_str"), {"initial_state": "first"}), (R(), {"initial_state": "absorbing"}), (R(), {"policy": "tabular"}),
                        (R(init_dist="det"), {}), (R(init_dist="uniform", actions_as="list"), {}), (R(tiny=True), {})],
        "pomdp_rollout": [({"kind": "tiger"}, {"max_steps": 0}), ({"kind": "tiger"}, {"max_steps": 1}), ({"kind": "tiger"}, {"initial_state": True}),
                          ({"kind": "tiger"}, {"controller": "valuebased"}), ({"kind": "heavenorhell"}, {"controller": "valuebased"}),
                          ({"kind": "loadunload"}, {"controller": "valuebased", "max_steps": 6, "initial_state": True}),
                          ({"kind": "tiger"}, {"nodes": 1})],
    }


def variants2():
    """audit round 2: tiny probabilities that matter, large magnitudes with near ties, non-dyadic numbers, second problems
    with other labels, sizes and shapes at the edges, integer / float32 typed inputs, long episodes"""
    det = dict(deterministic=True)
    g = dict(reward="goal")
    nd = dict(probs="nondyadic")
    near1 = "1073741823/1073741824"        # 1 - 2^-30
    v = {c: [] for c in COMPONENTS}
    # (1) tiny probabilities
    v["rmax"] += [(R(tiny=True, **g), {})]
    v["semimdp"] += [(R(tiny=True, labels="int"), {"option_names": "int"})]
    for c in ("laostar", "lrtdp", "mdp_rollout"):
        v[c] += [(R(init_dist="tiny"), {})]
    v["pomdp_rollout"] += [({"kind": "tiger", "coherence": near1}, {})]
    v["ga"] += [({"kind": "tiger", "coherence": near1}, {})]
    # (2) large magnitudes, near ties
    for c in ("laostar", "lrtdp", "td", "mdp_rollout"):
        v[c] += [(R(reward="neartie"), {})]
    v["lrtdp"] += [(R(reward_scale="1000000"), {})]
    # (3) non-dyadic numbers
    for c in ("lrtdp", "mdp_rollout"):
        v[c] += [(R(**nd), {}), (R(labels="int", **nd), {})]
    for c in ("td", "rmax"):
        v[c] += [(R(**nd, **g), {})]
    # (5) second problem with other labels / label order
    for c in ("laostar", "lrtdp"):
        v[c] += [(R(), {"second_problem_labels": "unsorted"}), (R(labels="int"), {"second_problem_labels": "negint"})]
    for c in ("td", "rmax"):
        v[c] += [(R(**g), {"second_problem_labels": "unsorted"})]
    for c in ("astar", "bfs"):
        v[c] += [(R(n=12, **det), {"second_problem_labels": "unsorted"})]
    # (6) sizes and shapes at the edges; integer / float32 typed inputs; long episodes
    for c in ("laostar", "lrtdp", "mdp_rollout", "td"):
        v[c] += [(R(n=1, k=1, ninit=1), {}), (R(n=3, k=3, ninit=1), {}), (R(n=13, k=1, ninit=1), {}),
                 (R(reward="int", init_dist="int"), {}), (R(float32=True), {})]
    v["rmax"] += [(R(n=3, k=3, ninit=1, **g), {}), (R(n=13, k=1, ninit=1, **g), {})]
    for c in ("astar", "bfs"):
        v[c] += [(R(n=1, k=1, **det), {}), (R(n=13, k=1, **det), {}), (R(n=3, k=3, **det), {}), (R(n=12, reward="int", **det), {})]
    v["semimdp"] += [(R(n=3, k=3, ninit=1, labels="int"), {"option_names": "int", "nstates": 2})]
    v["mdp_rollout"] += [(R(no_goal=True), {"max_steps": 1200, "nsim": 2})]
    v["pomdp_rollout"] += [({"kind": "tiger"}, {"max_steps": 1200}), ({"kind": "loadunload", "nstates": 2}, {})]
    v["implicit"] += [({"kind": "none", "events": [1]}, {"n_samples": 1})]
    # optional parameters that are off by default: logging / progress flags (stdout is captured and compared), print hooks,
    # alternative strategies, thresholds (seeded change C13-19)
    v["ga"] += [({"kind": "tiger"}, {"log_iteration_progress": 1}), ({"kind": "loadunload"}, {"log_iteration_progress": 5}),
                ({"kind": "tiger"}, {"optimizer": "SGD"}), ({"kind": "tiger"}, {"dtype": "float32", "learning_rate": "1/100"})]
    v["laostar"] += [(R(), {"dp_iterations": 20})]
    v["lrtdp"] += [(R(), {"bellman_error_margin": "1/1000000"}), (R(), {"bellman_error_margin": "1"})]
    v["astar"] += [(R(deterministic=True, n=12), {"heuristic": "nonmonotone", "assert_monotone_heuristic": False})]
    v["td"] += [(R(reward="goal"), {"listener": "printing", "step_size": "1/10"})]
    v["rmax"] += [(R(reward="goal"), {"listener": "printing", "bellman_convergence_diff": "1/100"})]
    v["bpi"] += [({"kind": "tiger"}, {"convergence_diff": "1/10"})]
    v["semimdp"] += [(R(labels="int"), {"option_names": "int", "pseudoreward": "-2"})]
    return v


def input_features(cases):
    """measured counters over the generated cases (audit classes)"""
    f = {}

    def inc(k, c=1):
        f[k] = f.get(k, 0) + c
    for c in cases:
        p, par = c["problem"], c.get("params", {})
        if p.get("tiny") or p.get("init_dist") == "tiny" or "1073741823" in str(p.get("coherence", "")):
            inc("tiny_probability_2^-30..2^-58")
        if p.get("reward") == "neartie" or p.get("reward_scale"):
            inc("large_magnitude_or_near_tie")
        if p.get("probs") == "nondyadic" or p["kind"] in ("tiger", "heavenorhell", "rngrid", "gridworld"):
            inc("non_dyadic_numbers")
        if p.get("persistent") or p.get("actions_as") == "list" or p["kind"] == "opengrid":
            inc("persistent_shared_containers")
        if par.get("second_problem_n_delta"):
            inc("second_problem_other_size")
        if par.get("second_problem_labels"):
            inc("second_problem_other_labels")
        if p.get("n") == 1:
            inc("one_state")
        if p.get("k") == 1:
            inc("one_action")
        if p.get("n") is not None and p.get("n") == p.get("k"):
            inc("n_states_eq_n_actions")
        if p.get("n") == 13 and p.get("k") == 1:
            inc("chain_path_length_n-1_non_power_of_two")
        if par.get("max_steps", 0) >= 1000:
            inc("episode_longer_than_1000_steps")
        if p.get("reward") == "int" or p.get("init_dist") == "int" or p["kind"] == "opengrid":
            inc("integer_typed_numbers")
        if p.get("float32"):
            inc("float32_numbers")
        if par.get("option_names") == "none":
            inc("unnamed_options")
        if par.get("log_iteration_progress") or par.get("listener") == "printing":
            inc("logging_or_print_hook_on")
        if any(k in par for k in ("optimizer", "dtype", "learning_rate", "dp_iterations", "bellman_error_margin", "assert_monotone_heuristic",
                                  "step_size", "bellman_convergence_diff", "convergence_diff", "pseudoreward")):
            inc("off_by_default_optional_parameter")
        if par.get("max_steps") in (0, 1) or par.get("episodes") in (0, 1) or par.get("n_samples") == 1 or par.get("nsim") == 1:
            inc("step_or_sample_cap_0_or_1")
    return f


def generated(rng, tier):
    """extra problems drawn from ctx.rng (string keyed: the class on which hash order can show)"""
    k = 1 if tier == "quick" else 8
    out = {c: [] for c in COMPONENTS}
    for _ in range(k):
        def rp(**kw):
            return R(n=rng.randint(6, 11), k=rng.randint(2, 3), pseed=rng.randrange(10 ** 6), ninit=rng.randint(1, 2), **kw)
        out["laostar"].append((rp(), {}))
        out["lrtdp"].append((rp(), {}))
        out["astar"].append((rp(deterministic=True), {}))
        out["bfs"].append((rp(deterministic=True), {}))
        out["td"].append((rp(reward="goal"), {}))
        out["rmax"].append((rp(reward="goal"), {}))
        out["semimdp"].append((rp(), {}))
        out["mdp_rollout"].append((rp(), {}))
        out["implicit"].append(({"kind": "none", "events": ["e%d" % i for i in range(rng.randint(2, 6))]}, {}))
        out["bpi"].append(({"kind": "tiger", "coherence": rng.choice(["3/4", "4/5", "9/10"])}, {}))
        out["ga"].append(({"kind": "tiger", "coherence": rng.choice(["3/4", "4/5", "9/10"])}, {}))
        out["pomdp_rollout"].append(({"kind": "tiger", "coherence": rng.choice(["3/4", "4/5", "9/10"])}, {"controller_seed": rng.randrange(100)}))
    return out


def keyclass(case):
    """'int' when neither states, actions nor option names of the problem contain a string, else 'str'"""
    p, par = case["problem"], case.get("params", {})
    if p["kind"] == "rand" and par.get("second_problem_labels") in ("unsorted", "str", "falsy_str"):
        return "str"
    if p["kind"] == "rand" and p.get("labels", "str") in ("int", "tuple", "falsy_tuple", "float", "negint"):
        if case["component"] == "semimdp" and par.get("option_names", "str") in ("str", "falsy"):
            return "str"
        return "int"
    if case["component"] == "semimdp" and p["kind"] == "rngrid" and par.get("option_names", "str") in ("str", "falsy"):
        return "str"
    if p["kind"] in ("rngrid", "gnt") or (p["kind"] == "opengrid" and p.get("labels") == "int"):
        return "int"
    if p["kind"] == "none" and all(isinstance(e, int) for e in p.get("events", ["x"])):
        return "int"
    return "str"


def build_cases(ctx):
    if ctx.replay_case:
        c = ctx.replay_case["detail"].get("case")
        if c:
            return [c]
    tier = ctx.tier
    seeds = [0, 1, 2] if tier == "quick" else [0, 1, 2, 3, 4, 5, ctx.rng.randrange(2 ** 31), ctx.rng.randrange(2 ** 62)]
    cor, gen = corpus(), generated(ctx.rng, tier)
    cases = []
    for comp in COMPONENTS:
        for origin, plist in (("corpus", cor[comp]), ("generated", gen[comp])):
            for prob, par in plist:
                for seed in seeds:
                    c = {"component": comp, "problem": prob, "params": par, "seed": seed, "origin": origin}
                    if comp == "pomdp_rollout":
                        c["scrambles"] = 4
                    cases.append(c)
        for prob, par in variants()[comp] + variants2()[comp]:
            for seed in (seeds[:1] if tier == "quick" else seeds[:2]):      # quick: seed 0 only (always included)
                c = {"component": comp, "problem": prob, "params": par, "seed": seed, "origin": "variant",
                     "x": "second_problem_n_delta" in par, "t": seed == 0, "p": seed == 0, "h": seed == 0}
                if comp == "pomdp_rollout":
                    c["scrambles"] = 2
                cases.append(c)
    # interleave so that round-robin sharding balances the expensive components
    order = sorted(range(len(cases)), key=lambda i: (i % 7, i))
    return [cases[i] for i in order]


# ----------------------------------------------------------------------------
# execution matrix
# ----------------------------------------------------------------------------
ORDER_SET = "0-reversed-case-order"


def run_matrix(ctx, cases, hashseeds):
    """one set of processes per PYTHONHASHSEED, plus one more set under PYTHONHASHSEED=0 that runs the cases in REVERSED
    order (other shard composition, other predecessors in the process): class-level caches / module state show there"""
    sets = list(hashseeds) + [ORDER_SET]
    per = max(1, ctx.jobs // len(sets))
    sub = [i for i, c in enumerate(cases) if c["seed"] == 0 or len(cases) < 10]      # the order set runs the seed-0 cases only
    rev = [dict(cases[i], x=False, t=False, p=False, h=False) for i in reversed(sub)]

    def one(label):
        if label == ORDER_SET:
            res = ctx.impl("c13_impl.py", {"cases": rev}, shards=per, hashseed="0", timeout=3000)["results"]
            full = [None] * len(cases)
            for i, r in zip(reversed(sub), res):
                full[i] = r
            return full
        return ctx.impl("c13_impl.py", {"cases": cases}, shards=per, hashseed=label, timeout=3000)["results"]
    with ThreadPoolExecutor(max_workers=len(sets)) as ex:
        outs = list(ex.map(one, sets))
    return dict(zip(sets, outs))


def dig(run):
    if run is None:
        return "missing"
    if "error" in run:
        return "error:" + run["error"].split(":")[0]
    return run["digest"]


def first_diff(a, b, path=""):
    """path of the first difference between two canonical renderings"""
    if type(a) != type(b):
        return path or "/"
    if isinstance(a, dict) and len(a) == 1 and next(iter(a)) in ("map", "dist") and set(a) == set(b):
        tag = next(iter(a))
        if [vlib.structural_hash(k) for k, _ in a[tag]] != [vlib.structural_hash(k) for k, _ in b[tag]]:
            return path + "/<%s keys differ>" % tag
        for (k, x), (_, y) in zip(a[tag], b[tag]):
            d = first_diff(x, y, "%s[%s]" % (path, k if isinstance(k, (str, int)) else str(k)[:60]))
            if d:
                return d
        return None
    if isinstance(a, dict):
        for k in sorted(set(a) | set(b)):
            if k not in a or k not in b:
                return path + "/" + k
            d = first_diff(a[k], b[k], path + "/" + k)
            if d:
                return d
        return None
    if isinstance(a, list):
        if len(a) != len(b):
            return path + "/len(%d vs %d)" % (len(a), len(b))
        for i, (x, y) in enumerate(zip(a, b)):
            d = first_diff(x, y, path + "/%d" % i)
            if d:
                return d
        return None
    return None if a == b else (path + " : %r vs %r" % (a, b))[:300]


def env(hs, run):
    names = {"A": "fresh object, global generators in state 1", "B": "second fresh object, nothing re-seeded",
             "D": "fresh object, global generators put back in state 1",
             "R": "SECOND CALL of plan_on/train_on/run_on/query on the SAME object that produced run A",
             "T": "fresh object; the problem object had its cached views (state_list, matrices, reachable_states) touched first",
             "H": "fresh construction after 1-3 unrelated objects of the same classes were constructed in the process",
             "XQ": "late re-query of the FIRST call's result (policy on all states, tables) after the object was used on a second problem",
             "BQ": "the same late query on a fresh object that made one call only",
             "P1": "fresh component on a problem object that is shared with the next run",
             "P2": "second fresh component on the SAME problem object the previous component already used",
             "XR": "the object of run A called on a SECOND problem (same labels, different numbers)",
             "XF": "a fresh object on that second problem",
             "XA": "the object of run A called on the FIRST problem again after the second one"}
    return {"PYTHONHASHSEED": hs, "run": run, "globals": names.get(run, "global generators scrambled to state %s" % run[1:])}


def pair_detail(case, hs1, run1, r1, hs2, run2, r2):
    d = {"case": case, "environment_1": env(hs1, run1), "environment_2": env(hs2, run2),
         "digest_1": dig(r1), "digest_2": dig(r2)}
    if r1 and r2 and "canon" in r1 and "canon" in r2:
        d["first_difference"] = first_diff(r1["canon"], r2["canon"])
    for k, r in (("error_1", r1), ("error_2", r2)):
        if r and "error" in r:
            d[k] = r["error"]
    return d


def analyse(ctx, cases, results, hashseeds):
    """-> failures: {(component, axis, sub): [(case index, detail)]}, counters"""
    fails = {}
    counters = {"runs": 0, "error_runs": 0, "dict_order_drift_across_hashseeds": 0, "impl_errors": 0}

    def add(comp, axis, sub, i, detail):
        fails.setdefault((comp, axis, sub), []).append((i, detail))
    for i, case in enumerate(cases):
        comp = case["component"]
        rs = {hs: results[hs][i] for hs in hashseeds}
        bad = [hs for hs in hashseeds if rs[hs] is None or "A" not in rs[hs]]
        if bad:
            counters["impl_errors"] += 1
            ctx.violation("C13:impl-runner-error", {"case": case, "results": {str(h): rs[h] for h in bad}}, found=False)
            continue
        for hs in hashseeds:
            r = rs[hs]
            runs = [("A", r["A"]), ("B", r["B"])] + [("C%d" % (k + 2), c) for k, c in enumerate(r["C"])] + [("D", r["D"]), ("R", r["R"])]
            extra = [(k, r[k]) for k in ("T", "XR", "XA", "XF", "H", "XQ", "BQ") if k in r]
            counters["runs"] += len(runs)
            counters["error_runs"] += sum(1 for _, x in runs if "error" in x)
            dnf = sum(1 for k, x in list(r.items()) if isinstance(x, dict) and x.get("error", "").startswith("DidNotFinish"))
            counters["did_not_finish_runs"] = counters.get("did_not_finish_runs", 0) + dnf
            if r.get("did_not_finish"):
                counters["did_not_finish_cases"] = counters.get("did_not_finish_cases", 0) + 1
                counters.setdefault("did_not_finish_list", []).append({"component": comp, "problem": case["problem"],
                                                                        "params": case.get("params", {}), "seed": case["seed"]})
            a = r["A"]
            if dig(r["D"]) != dig(a):
                add(comp, "nondeterministic-under-identical-global-state", "", i, pair_detail(case, hs, "A", a, hs, "D", r["D"]))
            else:
                for name, c in runs[2:-2]:
                    if dig(c) != dig(a):
                        add(comp, "depends-on-global-generator-state", "", i, pair_detail(case, hs, "A", a, hs, name, c))
                        break
            if dig(r["R"]) != dig(a):
                add(comp, "second-call-on-same-object-differs", "", i, pair_detail(case, hs, "A", a, hs, "R", r["R"]))
            rf = [(name, x["relation_failures"]) for name, x in runs + extra if x.get("relation_failures")]
            if rf:
                add(comp, "equal-seed-queries-disagree-within-one-run", "", i,
                    {"case": case, "environment": {"PYTHONHASHSEED": hs}, "run": rf[0][0], "relations_violated": rf[0][1][:4],
                     "note": "two computations that the property makes equal (same seed / equally seeded generator; history of other "
                             "objects must not matter) gave different results inside one run"})
            if "XQ" in r and "BQ" in r:
                counters["stale_result_requeries"] = counters.get("stale_result_requeries", 0) + 1
                if dig(r["XQ"]) != dig(r["BQ"]):
                    add(comp, "first-result-changes-after-the-object-is-used-again", "", i, pair_detail(case, hs, "BQ", r["BQ"], hs, "XQ", r["XQ"]))
            if r.get("inputs_mutated"):
                add(comp, "mutates-the-callers-constructor-inputs", "", i,
                    {"case": case, "environment": {"PYTHONHASHSEED": hs},
                     "note": "lists / arrays handed to a constructor (option lists, controller arrays) changed during a call"})
            if "problem_fingerprints" in r:
                counters["problem_fingerprint_checks"] = counters.get("problem_fingerprint_checks", 0) + 1
            if "H" in r and dig(r["H"]) != dig(a):
                add(comp, "depends-on-objects-constructed-earlier-in-the-process", "", i, pair_detail(case, hs, "A", a, hs, "H", r["H"]))
            if "T" in r and dig(r["T"]) != dig(a):
                add(comp, "differs-when-problem-object-was-used-before", "", i, pair_detail(case, hs, "A", a, hs, "T", r["T"]))
            if "XR" in r:
                counters["second_problem_runs"] = counters.get("second_problem_runs", 0) + 1
                if dig(r["XR"]) != dig(r["XF"]):
                    add(comp, "reused-object-on-second-problem-differs", "", i, pair_detail(case, hs, "XF", r["XF"], hs, "XR", r["XR"]))
                elif dig(r["XA"]) != dig(a):
                    add(comp, "reused-object-on-second-problem-differs", "", i, pair_detail(case, hs, "A", a, hs, "XA", r["XA"]))
            for name in ("P1", "P2"):
                if name in r and dig(r[name]) != dig(a):
                    add(comp, "differs-when-problem-object-is-shared-or-reused", "", i, pair_detail(case, hs, "A", a, hs, name, r[name]))
                    break
            fp = r.get("problem_fingerprints")
            if fp and len(set(fp)) > 1:
                add(comp, "mutates-the-problem-object", "", i,
                    {"case": case, "environment": {"PYTHONHASHSEED": hs},
                     "problem_fingerprints_before_between_after": fp,
                     "note": "order-sensitive fingerprint of actions(s) / next_state_dist(s,a).items() / initial_state_dist of the "
                             "problem object changed while two fresh components ran on it"})
            extra = extra + [(k, r[k]) for k in ("P1", "P2") if k in r]
            runs = runs + extra
            changed = sorted({g for _, x in runs for g in x.get("globals_changed", [])})
            if dig(r["B"]) != dig(a):
                explained = [k for k in fails if k[0] == comp and k[1] == "depends-on-global-generator-state" and fails[k][-1][0] == i]
                if explained and changed:
                    # consequence of (depends on the global generator) + (advances it): folded into that finding
                    fails[explained[0]][-1][1]["second_run_in_same_process_also_differs"] = True
                else:
                    add(comp, "differs-between-two-runs-in-one-process", "", i, pair_detail(case, hs, "A", a, hs, "B", r["B"]))
            for g in changed:
                which = [n for n, x in runs if g in x.get("globals_changed", [])]
                add(comp, "disturbs-global-generator", g, i,
                    {"case": case, "environment": {"PYTHONHASHSEED": hs}, "generator": g, "runs_that_changed_it": which,
                     "note": "state of the global generator snapshotted before and after the run differs"})
        if ORDER_SET in results and results[ORDER_SET][i] and "A" in results[ORDER_SET][i]:
            ro = results[ORDER_SET][i]["A"]
            if dig(ro) != dig(rs["0"]["A"] if "0" in rs else rs[hashseeds[0]]["A"]):
                add(comp, "depends-on-what-ran-earlier-in-the-process", "", i,
                    pair_detail(case, "0", "A", rs.get("0", rs[hashseeds[0]])["A"], "0 (cases in reversed order)", "A", ro))
        d0 = dig(rs[hashseeds[0]]["A"])
        for hs in hashseeds[1:]:
            if dig(rs[hs]["A"]) != d0:
                add(comp, HASH_AXIS, "", i, pair_detail(case, hashseeds[0], "A", rs[hashseeds[0]]["A"], hs, "A", rs[hs]["A"]))
                break
        else:
            if len({rs[hs]["A"].get("ordered_digest") for hs in hashseeds}) > 1:
                counters["dict_order_drift_across_hashseeds"] += 1
    return fails, counters


def report_runtime(ctx, cases, fails):
    """one violation per (component, axis, qualifier); returns the set of (component, 'gen'|'hash') exhibited"""
    exhibited = {}
    for (comp, axis, sub), items in sorted(fails.items()):
        idx = sorted({i for i, _ in items})
        fc = [cases[i] for i in idx]
        if axis == HASH_AXIS:
            qual = "str-keys-only" if all(keyclass(c) == "str" for c in fc) else "incl-int-keys"
            exhibited.setdefault((comp, "hash"), items[0][1])
        elif axis in ("depends-on-objects-constructed-earlier-in-the-process", "depends-on-what-ran-earlier-in-the-process"):
            qual = "seed0-only" if all(c["seed"] == 0 for c in fc) else "any-seed"
            exhibited.setdefault((comp, "history"), items[0][1])
        elif axis in ("mutates-the-problem-object", "differs-when-problem-object-is-shared-or-reused",
                      "mutates-the-callers-constructor-inputs"):
            qual = "seed0-only" if all(c["seed"] == 0 for c in fc) else "any-seed"
            exhibited.setdefault((comp, "alias"), items[0][1])
        elif axis in (CARRY_AXIS, "reused-object-on-second-problem-differs", "first-result-changes-after-the-object-is-used-again",
                      "equal-seed-queries-disagree-within-one-run"):
            qual = "seed0-only" if all(c["seed"] == 0 for c in fc) else "any-seed"
            exhibited.setdefault((comp, "carry"), items[0][1])
        else:
            qual = "seed0-only" if all(c["seed"] == 0 for c in fc) else "any-seed"
            exhibited.setdefault((comp, "entropy" if axis == "nondeterministic-under-identical-global-state" else "gen"), items[0][1])
            if axis in ("differs-between-two-runs-in-one-process", "nondeterministic-under-identical-global-state"):
                exhibited.setdefault((comp, "entropy"), items[0][1])
        sig = ":".join(x for x in ("C13", comp, axis, sub, qual) if x)
        detail = dict(items[0][1])
        detail["failing_cases"] = len(idx)
        detail["failing_case_list"] = [{"problem": c["problem"], "params": c.get("params", {}), "seed": c["seed"]} for c in fc[:12]]
        ctx.violation(sig, detail, found=True)
    return exhibited


# ----------------------------------------------------------------------------
# static half: the regenerated table evaluated inside coqc
# ----------------------------------------------------------------------------
def static_half(ctx, exhibited, only=None):
    """only: in replay mode, report the table of the replayed component alone"""
    comps = COMPONENTS + ["other"]
    vals = ctx.coq(PRE, ['component_report sites "%s"' % c for c in comps], shard=len(comps), tag="sites")
    table = {}
    discharged = 0
    empty = []
    for c, v in zip(comps, vals):
        if isinstance(v, vlib.CoqError) or not (isinstance(v, tuple) and len(v) == 6):
            ctx.violation("C13:sites:%s:coq-evaluation-failed" % c, {"case": None, "error": str(v)[:1500]}, found=False)
            continue
        allpriv, glob, hsh, carried, n, off = v
        off = [{"file": o[0], "line": o[1], "kind": KIND_NAMES[o[2]], "what": o[3]} for o in off]
        table[c] = {"all_private": allpriv, "uses_global_generator": glob, "hash_order_dependence": hsh,
                    "generator_persists_across_calls": carried, "sites": n, "offending": off}
        if c == "other" or (only is not None and c != only):
            continue
        if n == 0:
            empty.append(c)
            continue
        if allpriv:
            discharged += 1
            continue
        persists = any(o["kind"] == "KPersistentAcrossCalls" for o in off)
        aliased = any(o["kind"] == "KShufflesCallerObject" for o in off)
        counter = any(o["kind"] == "KHashOfInstanceCounter" for o in off)
        entropy = any(o["kind"] == "KUnseeded" for o in off)
        realglob = any(o["kind"] in ("KGlobal", "KGlobalIfSeedFalsy") for o in off)
        for flag, tag, axis in ((glob and realglob, "global-generator-used", "gen"),
                                (glob and entropy, "entropy-or-time-source-used", "entropy"), (hsh, "hash-order-dependence", "hash"),
                                (carried and persists, "generator-persists-across-calls", "carry"),
                                (carried and aliased, "shuffles-callers-object-in-place", "alias"),
                                (carried and counter, "hash-reads-instance-counter-state", "history")):
            if not flag:
                continue
            ex = exhibited.get((c, axis))
            kinds = {"gen": ("KGlobal", "KGlobalIfSeedFalsy"), "entropy": ("KUnseeded",), "hash": ("KHashOrder", "KHash", "KHashDerivedSeed"),
                     "carry": ("KPersistentAcrossCalls",), "alias": ("KShufflesCallerObject",),
                     "history": ("KHashOfInstanceCounter",)}[axis]
            detail = {"case": ex["case"] if ex else None,
                      "obligation": 'forallb site_private (component_sites "%s") = true  is FALSE on the regenerated table' % c,
                      "offending_sites": [o for o in off if o["kind"] in kinds],
                      "concrete_run": ex if ex else "the differential runs of this check exhibited no failing run for this component"}
            ctx.violation("C13:sites:%s:%s" % (c, tag), detail, found=bool(ex))
    if empty:
        ctx.violation("C13:sites:extractor-saw-no-site", {"case": None, "components": empty,
                      "note": "gen/Sites.v has no entry for these components: extraction failed (see the pregen error) or the code moved"}, found=False)
    return table, discharged


def run(ctx):
    cases = build_cases(ctx)
    hashseeds = ["0", "1", "2"] if ctx.tier == "quick" else ["0", "1", "2", "3", "random"]
    results = run_matrix(ctx, cases, hashseeds)
    fails, counters = analyse(ctx, cases, results, hashseeds)
    exhibited = report_runtime(ctx, cases, fails)
    only = cases[0]["component"] if (ctx.replay_case and len(cases) == 1) else None
    table, discharged = static_half(ctx, exhibited, only)

    # coverage: a case is non-trivial when the result really depends on the seed
    groups = {}
    for i, c in enumerate(cases):
        key = vlib.structural_hash([c["component"], c["problem"], c.get("params", {})])
        groups.setdefault(key, []).append(i)
    nontrivial = set()
    for key, idx in groups.items():
        ds = {dig(results[hashseeds[0]][i].get("A")) for i in idx if results[hashseeds[0]][i] and "A" in results[hashseeds[0]][i]}
        if len(ds) > 1:
            nontrivial.update(vlib.structural_hash([cases[i]["component"], cases[i]["problem"], cases[i].get("params", {}), cases[i]["seed"]]) for i in idx)
    per_comp = {}
    for c in cases:
        d = per_comp.setdefault(c["component"], {"cases": 0, "str_keyed": 0, "int_keyed": 0})
        d["cases"] += 1
        d["str_keyed" if keyclass(c) == "str" else "int_keyed"] += 1
    sample = None
    if cases:
        r0 = results[hashseeds[0]][0]
        sample = {"case": cases[0], "result_hashseed_%s" % hashseeds[0]:
                  {k: ({kk: vv for kk, vv in v.items() if kk not in ("canon", "canon_head")} if isinstance(v, dict) else v)
                   for k, v in (r0 or {}).items() if k != "C"}}
    ctx.coverage.update({
        "evaluations": len(cases) * len(hashseeds) + sum(1 for r in results.get(ORDER_SET, []) if r),
        "second_problem_runs": counters.get("second_problem_runs", 0),
        "did_not_finish_runs": counters.get("did_not_finish_runs", 0),      # watchdog (C13_RUN_LIMIT_S per run): counted, not a violation
        "did_not_finish_cases": counters.get("did_not_finish_cases", 0),    # unless the runs compared with it did finish
        "did_not_finish_list": counters.get("did_not_finish_list", [])[:10],
        "input_features": dict(input_features(cases), stale_result_requeries=counters.get("stale_result_requeries", 0),
                               problem_fingerprint_checks=counters.get("problem_fingerprint_checks", 0),
                               second_problem_runs=counters.get("second_problem_runs", 0)),
        "by_origin": {o: sum(1 for c in cases if c.get("origin") == o) for o in ("corpus", "generated", "variant")},
        "distinct_nontrivial": len(nontrivial),
        "rule": "cases = component x problem x seed; problems = fixed corpus (random QuickTabularMDP/QuickMDP with str / int / tuple "
                "states and actions, GridWorld (frozendict states), Russell-Norvig grid, GNT Fig 6.6, Romania, Tiger, LoadUnload, "
                "HeavenOrHell, string and int option names) + problems drawn from ctx.rng (sizes 6..11, fresh transition tables); "
                "seeds %s; each case is run 4+ times in each of %d processes (PYTHONHASHSEED %s); non-trivial = the result of the "
                "(component, problem) differs between at least two seeds, i.e. randomness really reaches the result"
                % ("{0,1,2}" if ctx.tier == "quick" else "{0..5, two large}", len(hashseeds), ",".join(hashseeds)),
        "samples": [sample] if sample else [],
        "runs_executed": counters["runs"], "runs_raising": counters["error_runs"],
        "dict_order_drift_across_hashseeds": counters["dict_order_drift_across_hashseeds"],
        "per_component": per_comp,
        "hashseeds": hashseeds,
        "site_table": {c: {k: v for k, v in t.items() if k != "offending"} for c, t in table.items()},
        "site_table_offending": {c: t["offending"] for c, t in table.items() if t["offending"]},
        "proof_half": "theorems of props/C13.v (model + regenerated table) — counted in obligations/discharged",
        "execution_half": "differential execution (level: other) — %d cases x %d processes" % (len(cases), len(hashseeds)),
        "extra_obligations": len(COMPONENTS), "extra_discharged": discharged,
    })
