#!/usr/bin/env python3
"""validates MANIFEST.json and every evidence file (schema + discharged == obligations for proof level + no violations)"""
import glob, json, os, subprocess, sys
ROOT = os.path.dirname(os.path.dirname(os.path.abspath(__file__)))
code = r'''
import json, jsonschema, glob, sys
bad = 0
man = json.load(open("MANIFEST.json"))
jsonschema.validate(man, json.load(open("/root/.vp/MANIFEST.schema.json")))
sch = json.load(open("/root/.vp/EVIDENCE.schema.json"))
for c in man["checks"]:
    f = c["evidence_file"]
    try:
        e = json.load(open(f)); jsonschema.validate(e, sch)
        cov = e["coverage"]
        msg = []
        if e["level"] != c["level_claimed"]["category"]: msg.append("level %s != claimed %s" % (e["level"], c["level_claimed"]["category"]))
        if e["level"] == "proof" and cov.get("obligations") != cov.get("discharged"): msg.append("discharged %s != obligations %s" % (cov.get("discharged"), cov.get("obligations")))
        if e.get("violations"): msg.append("violations=%s" % e["violations"])
        if cov.get("broken"): msg.append("broken=%s" % cov["broken"])
        if e["tier"] != "quick": msg.append("tier=%s" % e["tier"])
        print("%-4s %-7s oblig %5s/%-5s eval %7s distinct %6s wall %6.0fs %s" % (e["property_id"], e["level"], cov.get("discharged"), cov.get("obligations"), cov.get("evaluations"), cov.get("distinct_nontrivial"), e["wall_s"], "  <-- " + "; ".join(msg) if msg else ""))
        bad += bool(msg)
    except Exception as ex:
        print(f, "INVALID", repr(ex)[:200]); bad += 1
sys.exit(1 if bad else 0)
'''
sys.exit(subprocess.run(["python3-vt", "-c", code], cwd=ROOT).returncode)
